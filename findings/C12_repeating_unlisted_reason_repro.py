"""C12 / key repeating:restarted-for-reason-not-in-restartHookOn

restartHookOn: [] switches restarts off.  For a repeating component the only place that looks at restartHookOn is the first
branch of Controller._restartComponent; when the system is flagged unstable the third branch (_unstableSystemRestart) calls
ComponentState.restart anyway and RepeatingEngine.restart (which never reads restartHookOn) restarts the task.
A normal Engine refuses in the same situation (RestartContextRestartConditionsNotMet).

    /venv/bin/python C12_repeating_unlisted_reason_repro.py
"""
import os, sys, types, threading
sys.path.insert(0, os.path.dirname(os.path.abspath(__file__)))
from C12_common_repro import build, finish, codes
import experiment.runtime.engine as engine_module
import experiment.runtime.control as control_module
import experiment.runtime.monitor as monitor_module

# environment: exceptions were seen by the monitors in the last 120 s (system unstable), no real sleeping
control_module.time = types.SimpleNamespace(sleep=lambda s: None)
tracker = types.SimpleNamespace(isSystemStable=lambda interval: interval == 30, printStatus=lambda details=False: None)
monitor_module.MonitorExceptionTracker.defaultTracker = classmethod(lambda cls: tracker)

results = {}
for repeating in (False, True):
    wa = {"restartHookOn": []}
    if repeating:
        wa["repeatInterval"] = 5
    exp, comp, controller, starts = build(wa)
    eng = comp.engine
    launched = []
    if repeating:
        eng.cancelMonitorEvent.set()
        eng.process = types.SimpleNamespace(exitReason="ResourceExhausted", returncode=1, isAlive=lambda: False)
        eng.kernelCompleted = True
        engine_module.threading = types.SimpleNamespace(
            Thread=lambda target=None, **k: types.SimpleNamespace(start=lambda: launched.append(target)),
            RLock=threading.RLock, Event=threading.Event, currentThread=threading.current_thread)
    else:
        eng._setExitReason("ResourceExhausted")
    code = controller._restartComponent(comp)
    results[repeating] = code
    print("restartHookOn=[], unstable system, %s engine: _restartComponent -> %s (task starts beyond the first: %d)" % (
        "repeating" if repeating else "normal", code, len(launched) + starts[0] - 1))
assert results[False] != codes.restartCodes["RestartInitiated"], "baseline changed"
finish("a repeating component is not restarted for a reason it does not list",
       "repeating component restarted for ResourceExhausted although restartHookOn is empty"
       if results[True] == codes.restartCodes["RestartInitiated"] else "")
