"""Shared by the C07 repro scripts: a package with a replicating, looped component in stage 1 (plain API calls only)."""
import logging, os, shutil, tempfile, warnings
warnings.simplefilter("ignore"); logging.disable(logging.CRITICAL)
import experiment.model.data
import experiment.model.storage

MAIN = """
platforms: [default, plat]
variables:
  default:
    global: {mode: normal, n: 2}
    stages:
      1:
        rfile: "r-%(replica)s-%(mode)s.dat"        # resolved by the component: only it knows `replica`
blueprint:
  default:
    global:
      resourceRequest: {numberThreads: 1}
    stages:
      1:
        resourceRequest: {numberThreads: 2}
  plat:
    global:
      resourceRequest: {numberThreads: 4}
components:
- {stage: 0, name: gen, command: {executable: echo, arguments: "%(mode)s"}}
- {stage: 1, name: loop, $import: dowhile.yaml, bindings: {number: "stage0.gen:output"}}
- stage: 3
  name: report
  command: {executable: echo, arguments: "stage2.gather:loopref"}
  references: ["stage2.gather:loopref"]
"""
DOWHILE = """
type: DoWhile
inputBindings: {number: {type: output}}
condition: "stage1.gather:output"
components:
- name: work
  command: {executable: echo, arguments: "number:output %(rfile)s"}
  references: ["number:output"]
  variables: {mode: fast}                            # the component overrides `mode`
  workflowAttributes: {replicate: "%(n)s"}
- name: gather
  stage: 1
  command: {executable: echo, arguments: "stage0.work:output"}
  references: ["stage0.work:output"]
  workflowAttributes: {aggregate: true}
"""


def create(platform):
    root = tempfile.mkdtemp(prefix="c07_repro_")
    pk = os.path.join(root, "p.package")
    os.makedirs(os.path.join(pk, "conf"))
    open(os.path.join(pk, "conf", "flowir_package.yaml"), "w").write(MAIN)
    open(os.path.join(pk, "conf", "dowhile.yaml"), "w").write(DOWHILE)
    pkg = experiment.model.storage.ExperimentPackage.packageFromLocation(pk, platform=platform)
    exp = experiment.model.data.Experiment.experimentFromPackage(pkg, location=root, platform=platform)
    return exp, root


def reload(exp, platform):
    return experiment.model.data.Experiment.experimentFromInstance(exp.instanceDirectory.location, platform=platform,
                                                                   updateInstanceConfiguration=False)


def iterate(exp, k, store):
    wg = exp.experimentGraph
    wg.instantiate_dowhile_next_iteration(wg._documents["DoWhile"]["stage1.loop"]["document"], k, store)


def facts(exp, what):
    wg = exp.experimentGraph
    out = {}
    for n in sorted(wg.graph.nodes):
        if "work" in n:
            c = wg.configurationForNode(n, raw=False)
            out[n] = c["command"]["arguments"] if what == "arguments" else c["resourceRequest"]["numberThreads"]
    return out


def cleanup(root):
    shutil.rmtree(root, ignore_errors=True)
