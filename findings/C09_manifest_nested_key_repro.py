"""C09 -- Manifest.top_level_folders does not extract the left-most folder of a nested manifest key.

Run:  /venv/bin/python C09_manifest_nested_key_repro.py      (exit 1 while the defect is present)

`Manifest.top_level_folders` documents "manifest can include keys which describe nested folders. Extract the left-most
folders out of such keys" but splits the key on os.path.pathsep (':') instead of os.path.sep ('/').  A package whose
manifest has the key `a/d` therefore reports the top-level folder `a/d`, and a reference into that folder
(`a/d/f.txt:copy`, first path segment `a`) is treated as a reference to the unknown component stage0.a:
the validator rejects a valid package.
"""
import logging
import sys

logging.disable(logging.CRITICAL)
import experiment.model.errors
import experiment.model.frontends.flowir as FL

bad = 0
m = FL.Manifest({'a/d': '/somewhere/d:copy', 'c': '/somewhere/c:copy'})
print("Manifest({'a/d': .., 'c': ..}).top_level_folders ==", m.top_level_folders, " (expected ['a', 'c'])")
if sorted(m.top_level_folders) != ['a', 'c']:
    bad = 1

doc = {'components': [{'name': 'consumer', 'stage': 0, 'references': ['a/d/f.txt:copy'],
                       'command': {'executable': 'cat', 'arguments': 'f.txt'}}]}
errors = FL.FlowIRConcrete(doc, 'default', {}).validate(top_level_folders=m.top_level_folders)
unknown = [e for e in errors if isinstance(e, experiment.model.errors.FlowIRReferenceToUnknownComponent)]
print("validate() of a component that copies a/d/f.txt out of the manifest folder:", [str(e) for e in unknown] or "accepted")
if unknown:
    bad = 1
print("is_datareference_to_component('a/d/f.txt:copy', top_level_folders) ==",
      FL.FlowIR.is_datareference_to_component('a/d/f.txt:copy', m.top_level_folders), "(expected False)")
sys.exit(bad)
