"""G05 finding: task-not-alive-while-outputs-in-transit   (plain script; real lsf.Task + LSFJobInfo, a stub for the LSF binding)

For a job that ran on the remote cluster (hybrid set-up) LSF reports DONE when main ends; the outputs come back through the data
manager later.  lsf.Task knows: _requestStatus() answers state "waiting_on_output_data_transfer" while `bdata cache` lists a transfer
that is not finished, and the docstrings promise
    isAlive():    "if task has a stage-out data requirment the process isAlive if the data has not been transfered"
    returncode:   "A task can have a returncode and not be finished ... Use isAlive to determine if task is alive"
but isAlive() only looks at exitReason, which is already "Success": it returns False, Task.wait() returns, and the engine treats the
component as finished while its output files are still in transit (consumers start on missing / partial data).

Run:  /venv/bin/python G05_not_alive_while_output_transfer_repro.py        exit code 1 = defect present
"""
import os
import shutil
import sys
import tempfile

sys.path.insert(0, os.path.dirname(os.path.abspath(__file__)))
import G05_common_repro as common

L, stub = common.install()
import experiment.model.executors as X
import experiment.model.codes as codes

d = os.path.realpath(tempfile.mkdtemp(prefix="g05_"))
try:
    wd = os.path.join(d, "wd")
    os.makedirs(wd)
    # `bdata cache -dmd <cluster> <job>` as LSFJobInfo.outputsTransferStatus() calls it: one output, not transferred yet
    with open(os.path.join(d, "bdata"), "w") as f:
        f.write("#!/bin/sh\ncat <<'X'\nOUTPUT TRANSFER\n/remote/wd/result.dat\nTO\nhost:%s/result.dat\n\nSIZE, MODIFIED, STATUS\n10, today, NEW\nX\n" % wd)
    os.chmod(os.path.join(d, "bdata"), 0o755)
    os.environ["PATH"] = d + ":" + os.environ["PATH"]
    main = X.Command("/bin/echo", "main", workingDir=wd, environment={}, resolvePath=False)
    with open(os.path.join(d, "out"), "w+b") as out:
        task = L.Task(main, options={"queue": "remote"}, resourceRequest={"numberProcesses": 1, "ranksPerNode": 1, "numberThreads": 1, "threadsPerCore": 1},
                      stdout=out, stderr=out, isHybrid=True)
    stub.record.status, stub.record.exitStatus, stub.record.dstJobId = stub.JOB_STAT_DONE, 0, 99      # main finished on the remote cluster
    print("status      :", task.status)
    print("exitReason  :", task.exitReason, "  returncode:", task.returncode)
    print("isAlive()   :", task.isAlive())
    bad = task.status == codes.OUTPUT_DATA_WAIT_STATE and task.isAlive() is False
    print("DEFECT PRESENT: not alive although the outputs are still in transit (Task.wait() would return now)" if bad else "ok")
    sys.exit(1 if bad else 0)
finally:
    shutil.rmtree(d, ignore_errors=True)
