"""Shared by the C19 repro scripts: plain calls of the real API, no harness.
Round trip exactly as tests/test_dosini.py:test_dump_instance and conf.py:DOSINIExperimentConfiguration do it."""
import copy, logging, os, shutil, sys, tempfile, warnings
warnings.simplefilter("ignore")
logging.disable(logging.CRITICAL)
import experiment.model.frontends.dosini as dosini
import experiment.model.frontends.flowir as flowir


def component(**extra):
    c = {"name": "c", "stage": 0, "command": {"executable": "echo", "arguments": "hello"}}
    for k, v in extra.items():
        if isinstance(v, dict) and isinstance(c.get(k), dict):
            c[k].update(v)
        else:
            c[k] = v
    return c


def instance_of(document):
    concrete = flowir.FlowIRConcrete(copy.deepcopy(document), "default", {})
    # the flags conf.py:DOSINIExperimentConfiguration uses when it writes the instance files
    return concrete.instance(ignore_errors=True, inject_missing_fields=False, fill_in_all=False, is_primitive=True)


def write_and_read(instance):
    d = tempfile.mkdtemp(prefix="c19_repro_")
    try:
        dos = dosini.Dosini()
        dos.dump(instance, d, update_existing=True, is_instance=True)
        dos._dump_status(instance, d)
        dos._dump_output(instance, d)
        text = {}
        for root, _, files in os.walk(d):
            for f in files:
                text[os.path.relpath(os.path.join(root, f), d)] = open(os.path.join(root, f)).read()
        return dosini.Dosini().load_from_directory(d, [], {}, is_instance=True), text
    finally:
        shutil.rmtree(d, ignore_errors=True)


def resolved(description, comp=(0, "c")):
    return flowir.FlowIRConcrete(copy.deepcopy(description), "default", {}).get_component_configuration(comp, raw=False, include_default=True)
