"""C07 repro: an instance created for platform `plat` is read the way etest / ememo / ewrap read it,
Experiment.experimentFromInstance(dir)  (no platform, default updateInstanceConfiguration=True).  That load re-stores
conf/flowir_instance.yaml as a default-platform instance (platforms: [default]); the next reload that names the platform
the instance was created for (what `elaunch --restart` does, it takes the platform from elaunch.yaml) fails with
'Unknown platform "plat"'.   Run: /venv/bin/python C07_platformless_load_rewrites_instance_repro.py   (exit 1: defect present)"""
import logging, os, shutil, sys, tempfile, warnings
warnings.simplefilter("ignore"); logging.disable(logging.CRITICAL)
import yaml
import experiment.model.data
import experiment.model.storage

FLOWIR = """
platforms: [default, plat]
variables:
  default:
    global: {greeting: hello}
  plat:
    global: {greeting: hi}
components:
- stage: 0
  name: say
  command: {executable: echo, arguments: "%(greeting)s %(who)s"}
  variables: {who: world}
  override:
    plat:
      variables: {who: cluster}
"""


def facts(exp):
    wg = exp.experimentGraph
    return {n: wg.configurationForNode(n, raw=False)["command"]["arguments"] for n in sorted(wg.graph.nodes)}


root = tempfile.mkdtemp(prefix="c07_platformless_")
rc = 0
try:
    pk = os.path.join(root, "p.package")
    os.makedirs(os.path.join(pk, "conf"))
    open(os.path.join(pk, "conf", "flowir_package.yaml"), "w").write(FLOWIR)
    pkg = experiment.model.storage.ExperimentPackage.packageFromLocation(pk, platform="plat")
    writer = experiment.model.data.Experiment.experimentFromPackage(pkg, location=root, platform="plat")
    loc = writer.instanceDirectory.location
    inst_file = os.path.join(loc, "conf", "flowir_instance.yaml")
    print("written for plat        :", facts(writer), "platforms:", yaml.safe_load(open(inst_file))["platforms"])
    reader = experiment.model.data.Experiment.experimentFromInstance(loc)        # what etest / ememo / ewrap do
    print("read without a platform :", facts(reader), "platforms now stored:", yaml.safe_load(open(inst_file))["platforms"])
    if facts(reader) != facts(writer):
        rc = 1
    try:
        again = experiment.model.data.Experiment.experimentFromInstance(loc, platform="plat")      # elaunch --restart
        print("reloaded for plat       :", facts(again))
        if facts(again) != facts(writer):
            rc = 1
    except Exception as e:
        print("reloaded for plat       : FAILED:", str(e).replace("\n", " ")[:300])
        rc = 1
finally:
    shutil.rmtree(root, ignore_errors=True)
print("DEFECT" if rc else "OK")
sys.exit(rc)
