"""C19 / key roundtrip:workflowAttributes.maxRestarts
workflowAttributes.maxRestarts is written under the legacy keyword `max-restarts`; Dosini.parse_component knows the keyword
(it removes it from the variables) but its branch tests the FlowIR name 'maxRestarts', so nothing is stored: the component read
back has maxRestarts = None (unlimited/engine default) instead of the configured budget.
Exit code 1 = defect present."""
import sys
from C19_common_repro import *

doc = {"components": [component(workflowAttributes={"maxRestarts": 2})]}
inst = instance_of(doc)
loaded, text = write_and_read(inst)
print(text["stages.d/stage0.instance.conf"])
a = resolved(inst)["workflowAttributes"]["maxRestarts"]
b = resolved(loaded)["workflowAttributes"]["maxRestarts"]
print("written maxRestarts = %r, read back = %r" % (a, b))
sys.exit(0 if a == b else 1)
