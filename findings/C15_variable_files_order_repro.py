"""C15 repro: the order in which several user variable files are layered depends on PYTHONHASHSEED.

Three variable files u1, u2, u3 each define the global variable `v`; they are given in the order [u1, u2, u3], so
the documented result ("layered starting from the first ... the value ... will be the one that the last layer
defines") is u3's value.  FlowIRExperimentConfiguration.__init__ and .parametrize start with
    variable_files = list(set(variable_files or []))            (conf.py ~283 and ~484)
so the list is layered in the iteration order of a set of strings, which changes with the hash seed.

Run:  /venv/bin/python /verif/out/proposed_fixes/C15_variable_files_order_repro.py
(the script re-runs itself as child processes with PYTHONHASHSEED = 0..5 and prints the winner of each)
"""
import os
import subprocess
import sys
import tempfile

CHILD = r'''
import logging, os, sys
logging.disable(logging.CRITICAL)
import experiment.model.conf as conf, experiment.model.storage as storage, experiment.model.graph as graph
root = sys.argv[1]
files = [os.path.join(root, "u%d.yaml" % i) for i in (1, 2, 3)]
c = conf.ExperimentConfigurationFactory.configurationForExperiment(os.path.join(root, "p.package"), variable_files=files)
a = c.get_flowir_concrete().get_component_configuration((0, "c"), raw=False, include_default=True)["command"]["arguments"]
pkg = storage.ExperimentPackage.packageFromLocation(os.path.join(root, "p.package"))
g = graph.WorkflowGraph.graphFromPackage(pkg, variable_files=files, createInstanceConfiguration=False)
b = g.configurationForNode("stage0.c")["command"]["arguments"]
print(a, b)
'''

root = tempfile.mkdtemp()
os.makedirs(os.path.join(root, "p.package", "conf"))
with open(os.path.join(root, "p.package", "conf", "flowir_package.yaml"), "w") as f:
    f.write("variables:\n  default:\n    global:\n      v: from-package\n"
            "components:\n- name: c\n  stage: 0\n  command:\n    executable: echo\n    arguments: '%(v)s'\n")
for i in (1, 2, 3):
    with open(os.path.join(root, "u%d.yaml" % i), "w") as f:
        f.write("global:\n  v: from-u%d\n" % i)
seen = set()
for seed in range(6):
    env = dict(os.environ, PYTHONHASHSEED=str(seed))
    out = subprocess.run([sys.executable, "-W", "ignore", "-c", CHILD, root], env=env, capture_output=True, text=True).stdout.strip()
    print("PYTHONHASHSEED=%d  __init__/parametrize ->" % seed, out, "   (expected: from-u3 from-u3)")
    seen.add(out)
if seen != {"from-u3 from-u3"}:
    print("DEFECT: the last file does not always win; the result depends on the hash seed")
    raise SystemExit(1)
print("ok")
