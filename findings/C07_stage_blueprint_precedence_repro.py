"""C07 repro: an option defined by the default STAGE blueprint (numberThreads 2) and by the platform GLOBAL blueprint (4).
Documented precedence: the platform global blueprint wins (4).  The instance file only has the `default` platform: the
platform global blueprint is merged into default.global, the default stage blueprint stays in default.stages, where it now
wins.  Components that exist when the file is written have the option baked in, but a loop iteration instantiated AFTER a
reload gets 2 where the experiment that was never reloaded gives 4.  Run: /venv/bin/python C07_stage_blueprint_precedence_repro.py"""
import os, sys
sys.path.insert(0, os.path.dirname(os.path.abspath(__file__)))
from C07_common_repro import create, reload, iterate, facts, cleanup

exp, root = create("plat")
iterate(exp, 1, True)
reloaded = reload(exp, "plat")
iterate(exp, 2, False)
iterate(reloaded, 2, False)
a, b = facts(exp, "threads"), facts(reloaded, "threads")
bad = 0
for n in a:
    ok = a[n] == b.get(n)
    bad += not ok
    print("%-18s numberThreads without reload %r, iteration made after the reload %r %s" % (n, a[n], b.get(n), "" if ok else "  <-- DIFFERS"))
cleanup(root)
sys.exit(1 if bad else 0)
