"""Plain reproduction (real Controller, real engines and local tasks, real threads; no harness) of a defect found while
growing spec/Scheduler.tla with DoWhile at run time + the environment action ExternalKill (growth item G02, properties
KillReachesAll and Termination):

  Controller.killController() is called when the component that produces the condition of a DoWhile has just FINISHED (its
  finishedCheck has not run yet - e.g. it waits for comp_lock, which the scheduler pass or the kill itself holds).
  finishedCheck -> _handle_condition_component_finished then resolves the condition to True and INSTANTIATES THE NEXT
  ITERATION although the controller stopped executing.  The new components are never launched (stop_executing), never
  finished by anybody (kill_all_components ran before they existed) and never recorded done: Controller.run() never returns.

Scenario: a one-component loop whose condition is always "True"; the test thread takes comp_lock (as a long scheduler pass
would), waits until the condition component is FINISHED, calls killController() (re-entrant lock: the kill wins the race
for the lock against the pending finishedCheck) and releases the lock.

Run:  /venv/bin/python out/proposed_fixes/G02_dowhile_iteration_after_kill_repro.py
Exit code 1 = defect reproduced (run() still blocked 40 s after the kill, an iteration was instantiated after the kill),
0 = run() returned.
"""
import logging
import os
import shutil
import sys
import tempfile
import threading
import time

logging.disable(logging.CRITICAL)
sys.path.insert(0, "/repo/tests")
import utils as test_utils
import experiment.model.codes as codes
import experiment.model.data
import experiment.model.storage

MAIN = """
components:
- name: theloop
  $import: dowhile.yaml
  bindings: {}
"""
DOWHILE = """
type: DoWhile
inputBindings: {}
loopBindings: {}
condition: "loop/flag:output"
components:
- name: loop
  command:
    executable: sh
    expandArguments: none
    arguments: -c 'echo True > flag'
"""


class FakeStatus:
    def monitorComponent(self, *a, **k):
        pass


def main():
    d = tempfile.mkdtemp(prefix="g02_dw_repro_")
    try:
        os.makedirs(os.path.join(d, "p.package", "conf"))
        with open(os.path.join(d, "p.package", "conf", "flowir_package.yaml"), "w") as f:
            f.write(MAIN)
        with open(os.path.join(d, "p.package", "conf", "dowhile.yaml"), "w") as f:
            f.write(DOWHILE)
        pkg = experiment.model.storage.ExperimentPackage.packageFromLocation(os.path.join(d, "p.package"))
        inst = experiment.model.storage.ExperimentInstanceDirectory.newInstanceDirectory(d, package=pkg)
        exp = experiment.model.data.Experiment(inst, is_instance=True)
        exp.validateExperiment()
        controller, _ = test_utils.new_controller(exp)
        controller.initialise(exp._stages[0], FakeStatus())
        ended = []

        def stage():
            try:
                controller.run()
                ended.append("ok")
            except Exception as e:
                ended.append(type(e).__name__)
        # the lock is held before the stage starts its loop iterations: finishedCheck of stage0.0#loop will wait for it
        first = controller.get_compstate("stage0.0#loop")
        t = threading.Thread(target=stage, daemon=True)
        t.start()
        deadline = time.time() + 60
        while first.state != codes.FINISHED_STATE and time.time() < deadline:
            time.sleep(0.001)
        with controller.comp_lock:                      # e.g. a scheduler pass that is staging data
            if "stage0.0#loop" in controller.comp_done:
                print("finishedCheck won the race for comp_lock this time - run again")
                return 2
            nodes_before = sorted(controller.graph.nodes)
            controller.killController("user asked to stop")
            t_kill = time.time()
        print("killController() returned; graph nodes at that time: %s; stop_executing=%s" % (nodes_before, controller.stop_executing))
        t.join(40)
        nodes_after = sorted(controller.graph.nodes)
        new = [n for n in nodes_after if n not in nodes_before]
        print("40 s later: Controller.run() %s; nodes instantiated after the kill: %s" % (
            "returned %s" % ended if ended else "is STILL BLOCKED", new))
        for n in new:
            c = controller.get_compstate(n)
            print("   %s state=%s finishCalled=%s staged-in=%s recorded done=%s" % (
                n, c.state, c.finishCalled, c in controller.comp_staged_in, n in controller.comp_done))
        return 0 if ended else 1
    finally:
        shutil.rmtree(d, ignore_errors=True)


if __name__ == "__main__":
    rc = main()
    print("DEFECT REPRODUCED: the stage never ends after the kill" if rc == 1 else "the stage ended" if rc == 0 else "inconclusive")
    os._exit(rc)
