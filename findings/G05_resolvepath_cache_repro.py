"""G05 finding: resolvePath-false-returns-link-target-cached-for-other-component   (plain script, real API only)

LocalExecutableChecker keeps a process-wide cache keyed by (executable, environment).  The key does not hold `resolvePath`, so
the FIRST component that is checked decides for every later component with the same executable and environment:

  * component A (resolvePath: true, the default) resolves /.../montage -> /.../magick
  * component B (resolvePath: false -- the author needs the link: "montage" behaves differently from "magick", see the docstring
    of executors.Command) is checked afterwards and silently gets /.../magick written into its configuration
  (and the other way round: after B, A keeps the link although it asked for the target).

Run:  /venv/bin/python G05_resolvepath_cache_repro.py        exit code 1 = defect present
"""
import logging
import os
import shutil
import sys
import tempfile

logging.disable(logging.CRITICAL)
import experiment.model.executors as X

d = os.path.realpath(tempfile.mkdtemp(prefix="g05_"))
try:
    real, link = os.path.join(d, "magick"), os.path.join(d, "montage")
    with open(real, "w") as f:
        f.write("#!/bin/sh\necho $0\n")
    os.chmod(real, 0o755)
    os.symlink(real, link)
    env = {"PATH": "/usr/bin:/bin"}

    def checked(resolve):
        c = X.Command(link, arguments="-x", environment=env, resolvePath=resolve)
        c.updateAndCheckExecutable()          # what ComponentSpecification.checkExecutable() does
        return c.executable

    X.LocalExecutableChecker.cache.clear()
    alone = checked(False)
    X.LocalExecutableChecker.cache.clear()
    a = checked(True)
    b = checked(False)
    print("resolvePath=False, checked alone          :", alone)
    print("resolvePath=True  (component A)           :", a)
    print("resolvePath=False (component B, after A)  :", b)
    bad = b != alone

    # the same through a real package: two components, same executable and environment
    sys.path.insert(0, "/repo")
    from tests.utils import experiment_from_flowir
    flowir = """
environments:
  default:
    env:
      DEFAULTS: PATH
components:
- name: A
  command: {executable: %(link)s, arguments: x, environment: env}
- name: B
  command: {executable: %(link)s, arguments: x, environment: env, resolvePath: false}
""" % {"link": link}
    X.LocalExecutableChecker.cache.clear()
    exp = experiment_from_flowir(flowir, d)          # validateExperiment() checks the executables of all components
    got = {}
    for n in ("A", "B"):
        spec = exp.graph.nodes["stage0.%s" % n]["componentSpecification"]
        got[n] = spec.command.executable
        print("package component %s (resolvePath=%s) runs %s" % (n, spec.commandDetails.get("resolvePath"), got[n]))
    # whichever component was validated first decided for both
    bad = bad or got["A"] != real or got["B"] != link
    print("DEFECT PRESENT" if bad else "ok: resolvePath is honoured whatever was checked before")
    sys.exit(1 if bad else 0)
finally:
    shutil.rmtree(d, ignore_errors=True)
