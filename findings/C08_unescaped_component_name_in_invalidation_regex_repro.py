"""C08 repro (plain API, no harness): the cache invalidation builds a regular expression from the UN-ESCAPED component
name (flowir.py: invalidate_cache_for_component / get_component(return_copy=False) / delete_component use
r'component:.*:stage%s:%s' % comp_id with re.match).  A component whose name contains a regex metacharacter is never
invalidated ('a+b' does not match the pattern a+b), so queries keep returning the configuration from before the update;
a name with an unbalanced parenthesis makes every component-scoped mutator raise re.error.
Run: /venv/bin/python C08_unescaped_component_name_in_invalidation_regex_repro.py   (exit 1 = defect present)"""
import logging
import sys
import warnings

warnings.simplefilter("ignore")
logging.disable(logging.CRITICAL)
import experiment.model.frontends.flowir as FL


def doc(names):
    return {"components": [{"name": n, "stage": 0, "command": {"executable": "echo", "arguments": "%(v)s"}, "variables": {}}
                           for n in names],
            "variables": {"default": {"global": {"v": "old"}}}, "platforms": ["default"]}


bad = 0
c = FL.FlowIRConcrete(doc(["a+b", "other"]), "default", {})
print("validate() errors for a component named 'a+b':", len(c.validate()))
cid = (0, "a+b")
before = c.get_component_configuration(cid, include_default=True)["command"]["arguments"]
c.set_component_variable(cid, "v", "new")
after = c.get_component_configuration(cid, include_default=True)["command"]["arguments"]
scratch = FL.FlowIRConcrete(c.raw(), "default", {}).get_component_configuration(cid, include_default=True)["command"]["arguments"]
print("arguments before update: %r, after set_component_variable(v='new'): %r, computed from scratch: %r" % (before, after, scratch))
if after != scratch:
    print("DEFECT: stale configuration returned after an update")
    bad = 1

c.delete_component(cid)
try:
    r = c.get_component_configuration(cid, include_default=True)
    print("DEFECT: the deleted component is still answered from the cache:", r["command"]["arguments"])
    bad = 1
except Exception as e:
    print("deleted component:", type(e).__name__)

c = FL.FlowIRConcrete(doc(["a(b"]), "default", {})
try:
    c.set_component_variable((0, "a(b"), "v", "new")
    print("set_component_variable on 'a(b' ok")
except Exception as e:
    print("DEFECT: set_component_variable on a component named 'a(b' raises %s: %s" % (type(e).__name__, e))
    bad = 1
sys.exit(bad)
