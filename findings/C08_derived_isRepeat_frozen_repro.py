"""C08 repro (plain API, no harness): workflowAttributes.isRepeat is derived from repeatInterval, but the component
definition keeps a STORED copy that is only refreshed when a component is loaded / added.  After repeatInterval is
updated through the configuration interface (set_component_option / setOptionForNode / remove...), only the fully
resolved query recomputes isRepeat; every other flavour of get_component_configuration (raw=True, include_default=False,
is_primitive=True, inject_missing_fields=False) answers with the stale stored value, while the same query on
FlowIRConcrete(raw()) -- the configuration computed from scratch from the current description -- gives the new one.
Run: /venv/bin/python C08_derived_isRepeat_frozen_repro.py   (exit 1 = defect present)"""
import logging
import sys
import warnings

warnings.simplefilter("ignore")
logging.disable(logging.CRITICAL)
import experiment.model.frontends.flowir as FL

doc = {"components": [{"name": "a", "stage": 0, "command": {"executable": "echo", "arguments": "x"},
                       "workflowAttributes": {"repeatInterval": 5}},
                      {"name": "b", "stage": 0, "command": {"executable": "echo", "arguments": "x"}, "workflowAttributes": {}}],
       "variables": {"default": {"global": {}}}, "platforms": ["default"]}
FLAVOURS = {"fully resolved": dict(include_default=True), "is_primitive=True": dict(include_default=True, is_primitive=True),
            "include_default=False": dict(include_default=False), "raw=True": dict(raw=True, include_default=True),
            "inject_missing_fields=False": dict(include_default=True, inject_missing_fields=False)}


def q(c, cid, kw):
    wa = c.get_component_configuration(cid, **kw)["workflowAttributes"]
    return wa.get("repeatInterval"), wa.get("isRepeat")


c = FL.FlowIRConcrete(doc, "default", {})
c.set_component_option((0, "a"), "#workflowAttributes.repeatInterval", 0)      # a stops repeating
c.set_component_option((0, "b"), "#workflowAttributes.repeatInterval", 7)      # b starts repeating
scratch = FL.FlowIRConcrete(c.raw(), "default", {})
bad = 0
for cid in ((0, "a"), (0, "b")):
    for name, kw in FLAVOURS.items():
        live, fresh = q(c, cid, kw), q(scratch, cid, kw)
        flag = "" if live == fresh else "   <-- DEFECT: stale isRepeat"
        bad |= live != fresh
        print("stage0.%s %-28s (repeatInterval, isRepeat): live %-14s from scratch %-14s%s" % (cid[1], name, live, fresh, flag))
sys.exit(1 if bad else 0)
