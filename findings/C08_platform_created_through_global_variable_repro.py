"""C08 repro (plain API, no harness): set_platform_global_variable(var, value, platform) creates the scope of a platform
that did not exist on demand (as set_platform_stage_variable does), but only its 'global' half; add_platform() creates an
empty scope.  Every component query for that platform then raises FlowIRInconsistency ('Missing field stages') on the
live object, while FlowIRConcrete(raw()) -- the configuration computed from scratch from the current description --
resolves it.  get_platform_stage_variables(stage, platform, return_copy=False) fails the same way.
Run: /venv/bin/python C08_platform_created_through_global_variable_repro.py   (exit 1 = defect present)"""
import logging
import sys
import warnings

warnings.simplefilter("ignore")
logging.disable(logging.CRITICAL)
import experiment.model.frontends.flowir as FL


def doc():
    return {"components": [{"name": "a", "stage": 0, "command": {"executable": "echo", "arguments": "%(v)s"}}],
            "variables": {"default": {"global": {"v": "default-value"}}}, "platforms": ["default"]}


def q(c):
    try:
        return c.get_component_configuration((0, "a"), include_default=True, platform="new")["command"]["arguments"]
    except Exception as e:
        return "raises " + type(e).__name__


bad = 0
for how in ("set_platform_stage_variable", "set_platform_global_variable", "add_platform + set_platform_global_variable"):
    c = FL.FlowIRConcrete(doc(), "default", {})
    if how == "set_platform_stage_variable":
        c.set_platform_stage_variable(0, "v", "new-value", "new")
    else:
        if how.startswith("add_platform"):
            c.add_platform("new")
        c.set_platform_global_variable("v", "new-value", "new")
    live, fresh = q(c), q(FL.FlowIRConcrete(c.raw(), "default", {}))
    flag = "" if live == fresh else "   <-- DEFECT"
    bad |= live != fresh
    print("%-46s query for platform 'new': live %-28s from scratch %-12s%s" % (how, live, fresh, flag))
sys.exit(1 if bad else 0)
