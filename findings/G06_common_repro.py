"""Shared by the G06_*_repro.py scripts: a tiny in-process stand-in for a Kubernetes API server, put below the REAL `kubernetes`
python client (only the urllib3 pool manager of RESTClientObject is replaced), and a helper that builds a REAL
experiment.runtime.backend_interfaces.k8s.NativeScheduledTask on it.  No part of /verif/harness is used.  Real threads, real rx
pipeline, real time (polling interval 0.2 s; the 10-15 s sleeps between the retries of _retry_on_restapi_timeout are cut to 10 ms).
"""
import io
import json
import logging
import os
import re
import sys
import tempfile
import time

import urllib3.exceptions

logging.disable(logging.CRITICAL)


class Resp(io.IOBase):
    def __init__(self, status, reason, data):
        self.status, self.reason = status, reason
        self.data = data if isinstance(data, bytes) else json.dumps(data).encode()

    def getheaders(self):
        return {"content-type": "application/json"}

    def getheader(self, name, default=None):
        return self.getheaders().get(name.lower(), default)


def error(code, reason, k8s_reason):
    return Resp(code, reason, {"kind": "Status", "apiVersion": "v1", "status": "Failure", "reason": k8s_reason, "code": code, "message": "scripted"})


T0 = "2030-01-01T00:00:00Z"


class MiniCluster:
    """job: None | dict(status=...) ; pods: list of pod status dicts.  fail: callable(request name, n) -> None | 503 | 'conn'"""

    def __init__(self):
        self.jobname = None
        self.job_status = None        # None: no such job
        self.pods = []
        self.fail = lambda name, n: None
        self.n = 0
        self.log = []

    def request(self, method, url, fields=None, body=None, preload_content=True, timeout=None, headers=None, **kw):
        path = re.sub(r"^https?://[^/]+", "", url).split("?")[0]
        name = ("create_job" if method == "POST" else "delete_job" if method == "DELETE" else "read_job" if "/jobs/" in path else
                "read_log" if path.endswith("/log") else "list_events" if path.endswith("/events") else "list_pods")
        self.n += 1
        what = self.fail(name, self.n)
        self.log.append(name + ("" if what is None else "!%s" % what))
        if what == "conn":
            raise urllib3.exceptions.MaxRetryError(None, url, reason="connection refused (scripted)")
        if what is not None:
            return error(what, "Service Unavailable", "ServiceUnavailable")
        if name == "create_job":
            self.body = json.loads(body)
            self.jobname = self.body["metadata"]["name"]
            self.job_status = {}
            return Resp(201, "Created", self.job_doc())
        if name in ("read_job", "delete_job"):
            if self.job_status is None:
                return error(404, "Not Found", "NotFound")
            if name == "delete_job":
                self.job_status = None
                return Resp(200, "OK", {"kind": "Status", "apiVersion": "v1", "status": "Success"})
            return Resp(200, "OK", self.job_doc())
        if name == "list_pods":
            items = [{"metadata": {"name": "%s-%d" % (self.jobname, i), "labels": {"job-name": self.jobname}}, "spec": {"containers": [{"name": "c", "image": "img"}]},
                      "status": dict(st, hostIP="10.0.0.%d" % (i + 1))} for i, st in enumerate(self.pods)]
            return Resp(200, "OK", {"kind": "PodList", "apiVersion": "v1", "metadata": {}, "items": items})
        if name == "list_events":
            return Resp(200, "OK", {"kind": "EventList", "apiVersion": "v1", "metadata": {}, "items": []})
        return Resp(200, "OK", b"output of the container\n")

    def job_doc(self):
        return {"kind": "Job", "apiVersion": "batch/v1", "metadata": {"name": self.jobname, "namespace": "ns"}, "spec": self.body["spec"], "status": self.job_status}

    def clear(self):
        pass


def container(state):
    return {"name": "c", "image": "img:1", "imageID": "img@sha256:" + "ab" * 32, "ready": False, "restartCount": 0, "state": state}


POD_RUNNING = {"phase": "Running", "containerStatuses": [container({"running": {"startedAt": T0}})]}
POD_SUCCEEDED = {"phase": "Succeeded", "containerStatuses": [container({"terminated": {"exitCode": 0, "reason": "Completed", "startedAt": T0, "finishedAt": T0}})]}
POD_PENDING = {"phase": "Pending"}
JOB_ACTIVE = {"active": 1, "startTime": T0}
JOB_COMPLETE = {"succeeded": 1, "startTime": T0, "completionTime": T0, "conditions": [{"type": "Complete", "status": "True", "lastTransitionTime": T0}]}


def install():
    """-> the MiniCluster every kubernetes client object of this process now talks to"""
    import kubernetes.client.rest as rest
    import kubernetes.config
    import experiment.runtime.backend_interfaces.k8s as k8s
    cluster = MiniCluster()

    def fake_init(this, configuration, pools_size=4, maxsize=None):
        this.pool_manager = cluster
    rest.RESTClientObject.__init__ = fake_init

    def no_incluster(*a, **k):
        raise kubernetes.config.ConfigException("not in a cluster")
    kubernetes.config.load_incluster_config = no_incluster
    real_sleep = time.sleep

    class QuickTime:
        time = staticmethod(time.time)

        @staticmethod
        def sleep(s):
            real_sleep(0.01 if s >= 5 else s)      # the sleeps between retries (10-15 s) and between log attempts (5 s)
    k8s.time = QuickTime
    return cluster


class Executor:
    """what NativeScheduledTask needs of an experiment.model.executors.Command"""
    executable = "/bin/app"
    commandLine = "/bin/app -x 1"
    environment = {"FOO": "bar"}
    workingDir = tempfile.mkdtemp(prefix="g06_repro_")


def new_task(garbage_collect="none", polling_interval=0.2):
    import experiment.runtime.backend_interfaces.k8s as k8s
    options = {"configuration": {}, "job": {"name": "flow-repro", "namespace": "ns", "walltime": 5.0, "labels": {"workflow": "wf"}, "flow-id": "wf",
                                            "pod": {"imagePullSecrets": [], "containers": {"image": "img:1"}, "volumes": []}}}
    out = open(os.path.join(Executor.workingDir, "out.txt"), "wb+")
    return k8s.NativeScheduledTask(Executor(), options=options, resourceRequest={"cpuUnitsPerCore": 1.0}, stdout=out, stderr=out, pollingInterval=polling_interval,
                                   garbage_collect=garbage_collect)


def watch(task, seconds, what=""):
    end = time.time() + seconds
    while time.time() < end:
        time.sleep(0.05)
    print("%-52s status=%-20s isAlive=%-5s returncode=%-5s exitReason=%s" % (what, task.status, task.isAlive(), task.returncode, task.exitReason))
    sys.stdout.flush()


def finish(ok, text):
    print(("DEFECT REPRODUCED: " if not ok else "behaves as promised: ") + text)
    os._exit(1 if not ok else 0)
