"""C06: namespace_to_flowir never returns for (1) an output reference that stops at a workflow step (<w>, <w/unknown>) and
(2) steps that consume each other's outputs (dataflow cycle); OutputReference.split() accepts a scope that merely shares
its first steps with the reference, so that <w>:ref would silently become a reference to an unrelated sibling component.
Run: /venv/bin/python /verif/out/proposed_fixes/C06_reference_hangs_repro.py   (plain API calls, no harness; 3 s CPU limit per case)
Expected (property C06): DSLInvalidError listing the offending step.  Observed on the unchanged tree: infinite loops in
ScopeStack.can_template_replicate (`continue` without shortening `location`; no visited set)."""
import logging
import signal
logging.disable(logging.CRITICAL)
import experiment.model.frontends.dsl as D
import experiment.model.errors as E

PROD = {"signature": {"name": "prod", "parameters": []}, "command": {"executable": "echo", "arguments": "hi"}}
CONS = {"signature": {"name": "cons", "parameters": [{"name": "x"}]}, "command": {"executable": "cat", "arguments": "%(x)s"}}


def wf(name, steps):
    return {"signature": {"name": name, "parameters": []}, "steps": {s: t for s, t, _ in steps},
            "execute": [{"target": "<%s>" % s, "args": a} for s, _, a in steps]}


def ns(*wfs):
    return {"entrypoint": {"entry-instance": "main", "execute": [{"target": "<entry-instance>", "args": {}}]},
            "workflows": list(wfs), "components": [PROD, CONS]}


SUB = wf("sub", [("b", "prod", {})])
CASES = {
    "reference to a workflow step <w>:ref": ns(wf("main", [("a", "prod", {}), ("w", "sub", {}), ("c", "cons", {"x": "<w>:ref"})]), SUB),
    "reference to an unknown step of a workflow <w/nosuch>:ref":
        ns(wf("main", [("a", "prod", {}), ("w", "sub", {}), ("c", "cons", {"x": "<w/nosuch>:ref"})]), SUB),
    "dataflow cycle c <-> d": ns(wf("main", [("c", "cons", {"x": "<d>:ref"}), ("d", "cons", {"x": "<c>:ref"})])),
}


class Hang(BaseException):
    pass


def on_timer(*_):
    raise Hang()


signal.signal(signal.SIGVTALRM, on_timer)
bad = 0
for title, doc in CASES.items():
    namespace = D.Namespace(**doc)
    signal.setitimer(signal.ITIMER_VIRTUAL, 3.0)
    try:
        flowir = D.namespace_to_flowir(namespace)
        signal.setitimer(signal.ITIMER_VIRTUAL, 0)
        bad += 1
        print("%-60s DEFECT: compiled: %s" % (title, [(c["name"], c.get("references")) for c in flowir.get_components()]))
    except E.DSLInvalidError as e:
        signal.setitimer(signal.ITIMER_VIRTUAL, 0)
        print("%-60s DSLInvalidError at %s" % (title, [u.location for u in e.underlying_errors]))
    except Hang:
        bad += 1
        print("%-60s DEFECT: no result after 3 s of CPU time (infinite loop)" % title)
    except Exception as e:
        signal.setitimer(signal.ITIMER_VIRTUAL, 0)
        bad += 1
        print("%-60s DEFECT: %s: %s" % (title, type(e).__name__, e))

try:
    got = D.OutputReference(["entry-instance", "w"]).split([("entry-instance", "a"), ("entry-instance", "w", "b")])
    bad += 1
    print("OutputReference(<entry-instance/w>).split(...)                    DEFECT: producer %s (shares only 'entry-instance')" % (got,))
except ValueError as e:
    print("OutputReference(<entry-instance/w>).split(...)                    ValueError: %s" % e)
raise SystemExit(1 if bad else 0)
