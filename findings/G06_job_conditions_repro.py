"""G06:non-terminal-job-condition-listed-first -- a job with [SuccessCriteriaMet, Complete] (or [FailureTarget, Failed]) never ends.

Job controllers with two-phase termination (Kubernetes >= 1.31) first add SuccessCriteriaMet / FailureTarget and, once the pods are
gone, Complete / Failed -- typically within the same second.  _getTaskState sorts the conditions by lastTransitionTime (newest
first) and takes element 0: with equal time stamps the stable sort keeps the FIRST listed condition, which is neither Complete nor
Failed, so the task state becomes (None, None, None) and stays so for ever although the pod succeeded.
NOTE: whether a given cluster produces equal time stamps cannot be checked here; the document below is what such a controller sends.
Run: /venv/bin/python G06_job_conditions_repro.py      (exit 1 = defect reproduced)
"""
import G06_common_repro as C

cluster = C.install()
task = C.new_task()
cluster.job_status = {"succeeded": 1, "startTime": C.T0, "completionTime": C.T0, "conditions": [
    {"type": "SuccessCriteriaMet", "status": "True", "reason": "CompletionsReached", "lastTransitionTime": C.T0},
    {"type": "Complete", "status": "True", "reason": "CompletionsReached", "lastTransitionTime": C.T0}]}
cluster.pods = [C.POD_SUCCEEDED]
C.watch(task, 1.5, "job [SuccessCriteriaMet, Complete], pod Succeeded (7 polls):")
C.finish(not task.isAlive() and task.exitReason == "Success", "status %r, alive %s" % (task.status, task.isAlive()))
