"""C08 repro (plain API, no harness): get_component_configuration(..., ignore_convert_errors=True) stores its result in
the cache under the same key as the strict query.  When a type conversion failed and was ignored, every later strict
query (ignore_convert_errors=False, the default) returns the unconverted configuration instead of raising
FlowIRFailedComponentConvertType as a from-scratch resolution does: the result of a query depends on the queries made
before it.  (FlowIRConcrete.replicate()/instance(ignore_errors=True) make such lenient queries.)
Run: /venv/bin/python C08_lenient_query_result_cached_for_strict_queries_repro.py   (exit 1 = defect present)"""
import logging
import sys
import warnings

warnings.simplefilter("ignore")
logging.disable(logging.CRITICAL)
import experiment.model.frontends.flowir as FL

doc = {"components": [{"name": "a", "stage": 0, "command": {"executable": "echo", "arguments": "x"},
                       "resourceRequest": {"numberProcesses": "abc"}}],
       "variables": {"default": {"global": {}}}, "platforms": ["default"]}


def strict(c):
    try:
        r = c.get_component_configuration((0, "a"), include_default=True)
        return "returns numberProcesses=%r" % (r["resourceRequest"]["numberProcesses"],)
    except Exception as e:
        return "raises " + type(e).__name__


c = FL.FlowIRConcrete(doc, "default", {})
first = strict(c)
lenient = c.get_component_configuration((0, "a"), include_default=True, ignore_convert_errors=True)
second = strict(c)
scratch = strict(FL.FlowIRConcrete(c.raw(), "default", {}))
print("strict query on a fresh object:            ", first)
print("lenient query (ignore_convert_errors=True): numberProcesses=%r" % (lenient["resourceRequest"]["numberProcesses"],))
print("the same strict query afterwards:           ", second)
print("computed from scratch from raw():           ", scratch)
if second != scratch:
    print("DEFECT: the strict query is answered with the lenient result from the cache")
    sys.exit(1)
