"""G01: the race-dependent named deviations of spec/EngineLifecycle.tla, reproduced on the REAL Engine with the rx pools replaced
by the deterministic lanes of harness/world.py (every pool hop is run explicitly, in an order a 20-thread pool may produce).
These need an unlucky thread schedule in production; the script shows that the CODE admits them (TLC found them on the model,
the conformance driver finds them on the code).  They are modelled, not flagged, by ./check G01.

  1. SnapshotOvertaking   emit_now() sends each stateDictionary snapshot through its own hop of the 20-thread trigger pool, so
                          HandleTaskExit's second snapshot can overtake the first: the first update with isAlive=False says
                          engineExitReason None; a snapshot taken at launch can arrive after the exit: isAlive=True after False.
  2. StaleTerminate       kill() delivered to the post-launch subscription after the task ended by itself and restart() ran:
                          Terminate kills self.process = the task of the NEW execution.
  3. StaleInitCompletion  kill() delivered to the subscription of __init__ after restart(): termination_observable_completed()
                          completes self._termination_subject = the NEW subject: the restarted execution dies as Killed at the
                          gate, or (after the launch) every later kill() is ignored.

Run:  cd /verif && /venv/bin/python out/proposed_fixes/G01_races_on_deterministic_world_repro.py
"""
import os
import shutil
import sys

sys.path.insert(0, "/verif")
from harness import world_g01 as G

scratch = "/verif/out/g01_repro_scratch"
shutil.rmtree(scratch, ignore_errors=True)
os.makedirs(scratch)
exp, job = G.make_job(scratch)


class Manual(G.Driver):
    """explicit scheduling helpers"""

    def start(self):
        self.mode = "manual"
        self.order = "fifo"
        return self

    def task_wait(self, task):          # the wait item parks here: the rest of the script runs "inside" Task.wait()
        self.script(self)
        if task.alive:
            raise G.EndOfScript()

    def hops(self, lanes=None, snaps=False):
        """run every due plumbing hop (optionally only of some lanes); snapshots only on request"""
        while True:
            its = [i for i in self.live_items() if self.classify(i) == "hop" and (lanes is None or i.lane in lanes) and i not in self.held]
            if snaps:
                its += [i for i in self.live_items() if self.classify(i) == "snap"]
            if not its:
                return
            self.run_item(min(its, key=lambda i: i.seq))

    def fire(self, kind="ok"):
        self.next_kind = kind
        for cls in ("timer", "delay"):
            it = self._find(cls)
            if it is not None:
                self.run_item(it)

    def wait_item(self):
        return [i for i in self.live_items() if self.classify(i) == "task"]

    def lifecycle(self):
        return [{k: u[k] for k in ("isAlive", "engineExitReason") if k in u} for u in self.all_updates if "isAlive" in u or "engineExitReason" in u]


def scenario(title, body):
    print("== " + title)
    with Manual(job) as d:
        d.start()
        try:
            body(d)
        except G.EndOfScript:
            pass
    print()


# 1 -------------------------------------------------------------------------------------------------------------------------
def overtaking(d):
    e = d.engine
    e.run()
    d.hops(snaps=True)
    d.fire("ok")
    d.hops(lanes=("pool:Engine",))                 # launch: two snapshots (alive) wait in the trigger pool

    def in_wait(d):
        d.task().finish("Success")                 # the task ends: HandleTaskExit takes two more snapshots
    d.script = in_wait
    d.run_item(d.wait_item()[0])
    snaps = sorted((i for i in d.live_items() if d.classify(i) == "snap"), key=lambda i: i.seq)
    print("   snapshots in the trigger pool:", len(snaps), "(2 of the launch: alive, 2 of HandleTaskExit: dead)")
    for it in (snaps[3], snaps[2], snaps[0], snaps[1]):   # exit-info snapshot first, a launch snapshot after the exit
        d.run_item(it)
        d.hops()
    for u in d.lifecycle():
        print("   update:", u)
    vals = [u for u in d.lifecycle() if "isAlive" in u]
    first_dead = next(u for u in vals if u["isAlive"] == "F")
    print("   first isAlive=False update carries engineExitReason", first_dead.get("engineExitReason"), "; engine.exitReason() =", e.exitReason())
    print("   isAlive=True delivered after isAlive=False:", any(u["isAlive"] == "T" for u in vals[vals.index(first_dead):]))


scenario("1. SnapshotOvertaking", overtaking)


# 2 -------------------------------------------------------------------------------------------------------------------------
def stale_terminate(d):
    e = d.engine
    e.run()
    d.hops(snaps=True)
    d.fire("ok")
    d.hops(lanes=("pool:Engine",), snaps=True)     # launched, post-launch subscription made

    def in_wait(d):
        e.kill()                                   # deliveries sit in the trigger pool
        d.held = [i for i in d.live_items() if i.lane == "pool:EngineTrigger" and d.classify(i) == "hop"]
        d.task().finish("ResourceExhausted")       # ... the task ends by itself first
    d.script = in_wait
    d.run_item(d.wait_item()[0])
    d.hops(snaps=True)
    print("   first execution:", e.exitReason(), "; restart() ->", e.restart())
    d.hops(snaps=True)
    d.fire("ok")
    d.hops(lanes=("pool:Engine",), snaps=True)
    second = d.task()

    def in_wait2(d):
        held, d.held = d.held, []
        for it in held:                            # the old kill is delivered now
            d.run_item(it)
        print("   kill_requested on the task of the RESTARTED execution:", second.kill_requested, "(kill() was called before the restart)")
        second.finish("Killed")
    d.script = in_wait2
    for it in sorted(d.wait_item(), key=lambda i: i.seq):      # (the first one is the tail of the first execution's wait chain)
        d.run_item(it)
    d.hops(snaps=True)
    print("   second execution:", e.exitReason())


scenario("2. StaleTerminate", stale_terminate)


# 3 -------------------------------------------------------------------------------------------------------------------------
def stale_init(d):
    e = d.engine
    e.run()
    d.hops(snaps=True)
    d.fire("oserror")                              # launch fails: SubmissionFailed (restartable)
    d.hops(lanes=("pool:Engine",), snaps=True)
    e.kill()                                       # engine still alive (the task-pool hop has not run HandleTaskExit yet)
    d.held = [i for i in d.live_items() if i.lane == "pool:EngineTrigger" and d.classify(i) == "hop"]
    for it in d.wait_item():
        d.run_item(it)
    d.hops(snaps=True)
    print("   first execution:", e.exitReason(), "; restart() ->", e.restart())
    d.hops(snaps=True)                             # new pipeline armed on the NEW termination subject
    held, d.held = d.held, []
    for it in held:                                # old delivery to the __init__ subscription: completes the NEW subject
        d.run_item(it)
    d.hops(snaps=True)
    for it in d.wait_item():
        d.run_item(it)
    d.hops(snaps=True)
    print("   restarted execution without any new kill():", e.exitReason(), "; task generator calls:", d.nlaunch)


scenario("3. StaleInitCompletion", stale_init)
shutil.rmtree(scratch, ignore_errors=True)
