"""G01 repro (named deviation ExitInfoClobber of spec/EngineLifecycle.tla): after a task exits, Engine.stateUpdates first
announces the exit ({isAlive: False, engineExitReason: <reason>, engineExitCode: 0|1}) and then, from HandleTaskExit's second
emission emit_now(extract_info_from_emission(emission)), an update that takes the reason back:
        {'engineExitReason': None, 'engineExitCode': <the task's return code>, ...}
because extract_info_from_emission() puts the LAUNCH step's exitReason (None for a task that was launched) and the task's
return code over the snapshot of stateDictionary.  The value stays wrong for every consumer of the stream (status database,
einspect) until the next snapshot (5 s clock tick or shutdown) restores it.

Real Engine, real thread pools, no harness.   Run:  /venv/bin/python /verif/out/proposed_fixes/G01_exit_info_clobbers_exit_reason_repro.py
Expected output on the unchanged tree:   DEFECT ... engineExitReason None reported after the exit (exit code 1)
"""
import os
import sys
import time

sys.path.insert(0, os.path.dirname(os.path.abspath(__file__)))
from G01_common_repro import StubTask, make_job, lifecycle, engine

import reactivex

exp, job = make_job()
task = StubTask("ResourceExhausted", 24)
e = engine.Engine(job, lambda job: task)
seen = []
e.stateUpdates.subscribe(on_next=lambda x: seen.append(lifecycle(x[0])))
e.run(startObservable=reactivex.just(0))          # no 1 s start delay; the 5 s launch delay remains
t0 = time.time()
while e.process is None and time.time() - t0 < 20:
    time.sleep(0.1)
task.finish()
t0 = time.time()
while e.isAlive() and time.time() - t0 < 10:
    time.sleep(0.05)
time.sleep(1.0)                                    # let the two emissions of HandleTaskExit arrive (well before the next 5 s tick)
print("engine: exitReason() =", e.exitReason(), " returncode() =", e.returncode())
dead = [u for u in seen if u]
for u in dead:
    print("  update:", u)
after_exit = False
bad = None
for u in seen:
    if u.get("isAlive") is False:
        after_exit = True
    if after_exit and "engineExitReason" in u and u["engineExitReason"] is None:
        bad = u
e.shutdown()
time.sleep(0.5)
if bad:
    print("DEFECT: the stream reported engineExitReason None after the exit was announced:", bad)
    sys.exit(1)
print("ok: every update after the exit carries the engine's exit reason")
