"""C19 / key roundtrip:bool-option:varref-mixed-case-name
Boolean options (command.resolvePath, workflowAttributes.isMigratable, optimizer.disable, memoization.disable.*) may hold a
%(variable)s reference (FlowIR schema: ValidateOr(bool, is_var_reference)).  The writers render booleans with
str(value).lower(), which also lower-cases the NAME inside the reference: %(resolveIt)s is written as %(resolveit)s and the
component read back no longer resolves (FlowIRVariableUnknown), or silently picks another variable.
Exit code 1 = defect present."""
import sys
from C19_common_repro import *

doc = {"components": [component(command={"resolvePath": "%(resolveIt)s"}, workflowAttributes={"isMigratable": "%(Migratable)s"})],
       "variables": {"default": {"global": {"resolveIt": "false", "Migratable": "true"}}}}
inst = instance_of(doc)
print("written :", resolved(inst)["command"]["resolvePath"], resolved(inst)["workflowAttributes"]["isMigratable"])
loaded, text = write_and_read(inst)
print(text["stages.d/stage0.instance.conf"])
try:
    r = resolved(loaded)
    print("read back:", r["command"]["resolvePath"], r["workflowAttributes"]["isMigratable"])
    sys.exit(0 if r["command"]["resolvePath"] is False and r["workflowAttributes"]["isMigratable"] is True else 1)
except Exception as e:
    print("read back: %s: %s" % (type(e).__name__, e))
    sys.exit(1)
