"""C14 / key status.txt:fidelity:same-value-persisted-again
Status.writeToStream escapes `error-description` IN PLACE (self.data is modified), so every further update() escapes the
already escaped text again: the value read back after the n-th update carries 2^(n-1) times the backslashes and a
newline turns into the two characters backslash-n.   Run: /venv/bin/python C14_status_escape_in_place_repro.py
(exit 1 = defect present).  PYTHONPATH=<worktree>/python to try a patched tree."""
import os, sys, tempfile, shutil, logging
logging.disable(logging.CRITICAL)
import experiment.model.data as D

d = tempfile.mkdtemp(dir=os.environ.get("TMPDIR"))
try:
    path = os.path.join(d, "status.txt")
    st = D.Status(path, {}, ["stage0"])
    text = "Traceback:\n  File C:\\new\\table"
    st.setErrorDescription(text)
    bad = 0
    for n in (1, 2, 3):
        assert st.update()                      # the status monitor re-writes the unchanged status periodically
        got = D.Status.statusFromFile(path).data["error-description"]
        print("after update %d read back %r" % (n, got))
        bad += got != text
    print("in memory now: %r" % st.data["error-description"])
    print("DEFECT" if bad else "ok")
    sys.exit(1 if bad else 0)
finally:
    shutil.rmtree(d, ignore_errors=True)
