"""Shared by the G01 repro scripts: a REAL experiment.runtime.engine.Engine with real rx thread pools; only the task is a stub
(the Task API: wait / kill / isAlive / returncode / exitReason / status / schedulerId / performanceInfo)."""
import logging
import os
import tempfile
import threading

import yaml

logging.disable(logging.CRITICAL)
import experiment.model.codes as codes
import experiment.model.data
import experiment.model.storage
import experiment.runtime.engine as engine
import experiment.utilities.data


class StubTask:
    def __init__(self, reason="Success", returncode=0):
        self._done = threading.Event()
        self._reason, self._rc = reason, returncode
        self.returncode = None

    def finish(self, reason=None, returncode=None):
        if reason is not None:
            self._reason, self._rc = reason, returncode
        self.returncode = self._rc
        self._done.set()

    def wait(self):
        self._done.wait()

    def isAlive(self):
        return not self._done.is_set()

    def kill(self):
        if self.isAlive():
            self.finish("Killed", -9)

    terminate = kill

    def poll(self):
        return self.returncode

    @property
    def exitReason(self):
        return None if self.isAlive() else self._reason

    @property
    def status(self):
        return codes.RUNNING_STATE if self.isAlive() else (codes.FINISHED_STATE if self.returncode == 0 else codes.FAILED_STATE)

    @property
    def schedulerId(self):
        return "stub"

    @property
    def performanceInfo(self):
        return experiment.utilities.data.Matrix()


def make_job():
    root = tempfile.mkdtemp(prefix="g01_repro_")
    pkg_dir = os.path.join(root, "p.package")
    os.makedirs(os.path.join(pkg_dir, "conf"))
    with open(os.path.join(pkg_dir, "conf", "flowir_package.yaml"), "w") as f:
        yaml.safe_dump({"components": [{"name": "c", "stage": 0, "command": {"executable": "echo", "arguments": "x"}}]}, f)
    pkg = experiment.model.storage.ExperimentPackage.packageFromLocation(pkg_dir)
    exp = experiment.model.data.Experiment.experimentFromPackage(pkg, location=root)
    return exp, exp._stages[0].jobWithName("c")


LIFECYCLE = ("isAlive", "engineExitReason", "engineExitCode", "isShutdown", "lastTaskExitCode")


def lifecycle(update):
    return {k: update[k] for k in LIFECYCLE if k in update}
