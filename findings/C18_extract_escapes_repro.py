"""C18 / keys extract:dotdot-in-name, extract:through-symlink-member, extract:hardlink-target-outside
StageReference(:extract) checks os.path.commonprefix([target, os.path.join(location.path, member.name)]) on the
UNNORMALISED join, so only absolute member names are refused.  Members `../x`, `d/../../x`, a symlink member `lnk -> ..`
followed by `lnk/x`, and a hard-link member `h -> ../victim` (tarfile then applies the member's mode/mtime to the shared
inode) all modify files outside the component's working directory.
Everything happens in a private temporary directory, 5 levels below its root.
Run: /venv/bin/python C18_extract_escapes_repro.py   (exit 1 = defect present)"""
import io, os, shutil, sys, tarfile, tempfile, logging
logging.disable(logging.CRITICAL)
import experiment.model.data as D
import experiment.model.errors as E


class Ref:
    def __init__(self, p): self.p, self.method, self.stringRepresentation = p, "extract", p + ":extract"
    def resolve(self, graph): return self.p


class Loc:
    def __init__(self, p): self.path = p


def archive(path, members):
    with tarfile.open(path, "w") as tar:
        for kind, name, link in members:
            ti = tarfile.TarInfo(name); ti.mtime = 1000000000
            if kind == "file":
                data = b"from the archive\n"; ti.size = len(data); tar.addfile(ti, io.BytesIO(data)); continue
            ti.type = {"dir": tarfile.DIRTYPE, "sym": tarfile.SYMTYPE, "hard": tarfile.LNKTYPE}[kind]
            ti.linkname = link or ""; ti.mode = 0o755 if kind == "dir" else 0o644
            tar.addfile(ti)


def snapshot(top, skip):
    out = {}
    for d, dirs, files in os.walk(top):
        dirs[:] = [x for x in dirs if os.path.join(d, x) != skip]
        for n in dirs + files:
            p = os.path.join(d, n); st = os.lstat(p)
            out[os.path.relpath(p, top)] = (st.st_mode, st.st_size, st.st_mtime_ns)
    return out


base = tempfile.mkdtemp()
bad = 0
try:
    cases = {
        "member ../victim": [("file", "../victim", None)],
        "members d, d/../../x": [("dir", "d", None), ("file", "d/../../x", None)],
        "symlink lnk -> .. then lnk/victim": [("sym", "lnk", ".."), ("file", "lnk/victim", None)],
        "hard link h -> ../victim": [("hard", "h", "../victim")],
        "absolute member name": [("file", os.path.join(base, "abs-victim"), None)],
    }
    for title, members in cases.items():
        root = os.path.join(base, "l1", "l2", "l3", "l4")
        shutil.rmtree(os.path.join(base, "l1"), ignore_errors=True)
        work = os.path.join(root, "workdir"); os.makedirs(work)
        open(os.path.join(root, "victim"), "w").write("output of another component\n")
        os.utime(os.path.join(root, "victim"), (1500000000, 1500000000))
        arch = os.path.join(base, "a.tar"); archive(arch, members)
        before = snapshot(os.path.join(base, "l1"), work)
        try:
            D.StageReference(Ref(arch), Loc(work), None); outcome = "no error"
        except E.DataReferenceCouldNotStageError:
            outcome = "DataReferenceCouldNotStageError"
        after = snapshot(os.path.join(base, "l1"), work)
        changed = sorted(k for k in set(before) | set(after) if before.get(k) != after.get(k) and k != os.path.relpath(root, os.path.join(base, "l1")) or (k not in before))
        changed = [k for k in changed if before.get(k) != after.get(k)]
        print("%-40s -> %-32s outside the working directory: %s" % (title, outcome, changed or "unchanged"))
        bad += bool(changed) or outcome == "no error"
    print("DEFECT" if bad else "ok")
    sys.exit(1 if bad else 0)
finally:
    shutil.rmtree(base, ignore_errors=True)
