#!/venv/bin/python
"""C11 repro (plain API calls, no harness).  Run with /venv/bin/python <this file>
(PYTHONPATH=<patched tree>/python shows the repaired behaviour).

 1. validate:type:boolean-option-coerced-by-truthiness
      workflowAttributes.aggregate: "maybe"  (or 3) is a wrongly typed option (the schema says bool) but the workflow
      LOADS: convert_component_types converts with bool(), so every non-empty string -- also "false" and "no" -- becomes
      True.  Same for isMigratable / isMigrated / isRepeat / optimizer.disable.
 2. validate:type:references
      references: "p:ref" (a string instead of a list) is refused with ExperimentInvalidConfigurationError when the
      package is loaded from disk, but WorkflowGraph.graphFromFlowIR leaks a bare ValueError (the FlowIRConcrete is built
      outside the loader's error collection; a duplicate identifier surfaces there as an unwrapped FlowIRInconsistency).
"""
import logging
import sys

logging.disable(logging.CRITICAL)
import experiment.model.errors as E
import experiment.model.graph as G


def comp(name, args="-x", refs=None, **wa):
    c = {"name": name, "stage": 0, "command": {"executable": "echo", "arguments": args}}
    if refs is not None:
        c["references"] = refs
    if wa:
        c["workflowAttributes"] = wa
    return c


def load(components):
    try:
        wg = G.WorkflowGraph.graphFromFlowIR({"components": components}, {}, primitive=False)
        return "LOADED", {n: wg.configurationForNode(n, raw=False)["workflowAttributes"]["aggregate"] for n in wg.graph.nodes}
    except E.ExperimentInvalidConfigurationError as e:
        return "invalid-configuration", None
    except Exception as e:
        return "LEAK %s: %s" % (type(e).__name__, str(e)[:100]), None


bad = 0
for value in ("maybe", 3, "false"):
    st, agg = load([comp("p"), comp("q", "-x p:ref", ["p:ref"], aggregate=value)])
    ok = st == "invalid-configuration" or (value == "false" and agg == {"stage0.p": False, "stage0.q": False})
    print("1 aggregate: %-8r -> %s %s   %s" % (value, st, agg or "", "ok" if ok else "DEFECT"))
    bad += not ok

st, _ = load([comp("p"), comp("q", "-x p:ref", "p:ref")])
ok = st == "invalid-configuration"
print("2 references: 'p:ref'  -> %s   %s" % (st, "ok" if ok else "DEFECT"))
bad += not ok
st, _ = load([comp("p"), comp("q"), comp("p")])
ok = st == "invalid-configuration"
print("2 duplicate identifier -> %s   %s" % (st, "ok" if ok else "DEFECT (typed FlowIR error, not the documented one)"))
sys.exit(1 if bad else 0)
