"""C12 / key resub-cap:SubmissionFailed-listed-in-restartHookOn

A component that lists SubmissionFailed in workflowAttributes.restartHookOn is re-submitted without bound:
Controller._restartComponent tests `exitReason in restartHookOn` BEFORE the branch that enforces
_max_resubmission_attempts (5), and Engine.restart does not count re-submissions against maxRestarts.

    /venv/bin/python C12_resub_cap_bypass_repro.py
"""
import os, sys
sys.path.insert(0, os.path.dirname(os.path.abspath(__file__)))
from C12_common_repro import build, finish, codes

for listed in (["ResourceExhausted"], ["ResourceExhausted", "SubmissionFailed"]):
    exp, comp, controller, starts = build({"restartHookOn": listed})
    n = 0
    for attempt in range(12):
        comp.engine._setExitReason(codes.exitReasons["SubmissionFailed"])     # the submission of the task failed
        code = controller._restartComponent(comp)
        if code != codes.restartCodes["RestartInitiated"]:
            break
        n += 1
    print("restartHookOn=%s: %d consecutive re-submissions, resubmissionAttempts()=%d, last code %s" % (
        listed, n, comp.engine.resubmissionAttempts(), code))
    if listed == ["ResourceExhausted"]:
        assert n == 5, "baseline changed"
finish("re-submissions are capped at 5", "12 consecutive re-submissions (cap is 5)" if n > 5 else "")
