#!/venv/bin/python
"""C04 finding (key replicated:scope-reference-bound-before-component-scope).

The resolved configuration of a component = layering of all scopes, THEN substitution of variable references with the
component's own (layered) variables -- that is what FlowIRConcrete.get_component_configuration does on the package.
FlowIRConcrete.instance() (used by replicate(): the description the runtime executes, and conf/flowir_instance.yaml)
substitutes references written in the global / stage scope -- in global and stage variables and in blueprint options --
with the values of THAT scope before the components are looked at.  Consequences on the replicated view:
  (a) a global variable  v: "g{%(w)s}"  is frozen with the global w although the component (or its platform override,
      or its stage) redefines w: the component's command line differs between the package and the replicated view;
  (b) a cyclic / undefined chain that only exists with the component's variables is no longer reported;
  (c) a typed blueprint option  numberThreads: "%(n)s"  becomes the text '3' inside the blueprint of the instance: the
      non-primitive loader rejects the (valid) package, and the component's own n is ignored.

Plain API calls, no harness.  Exit code 1 = defect present, 0 = fixed.
"""
import copy
import logging
import sys
logging.disable(logging.CRITICAL)
import experiment.model.frontends.flowir as FL
import experiment.model.conf as conf
import experiment.model.errors as E


def resolve(flowir, primitive, platform='p1'):
    try:
        cf = conf.FlowIRExperimentConfiguration(path=None, platform=platform, variable_files=[], system_vars={}, is_instance=False,
                                                createInstanceFiles=False, primitive=primitive,
                                                concrete=FL.FlowIRConcrete(copy.deepcopy(flowir), platform, {}), updateInstanceFiles=False)
    except E.ExperimentInvalidConfigurationError as e:
        return 'LOADER REJECTS: %s' % str(e).strip().splitlines()[-1][:110]
    r = cf._concrete.get_component_configuration((0, 'c'), raw=False, include_default=True)
    return {'arguments': r['command']['arguments'], 'numberThreads': r['resourceRequest']['numberThreads'],
            'queue': r['resourceManager']['lsf']['queue']}


variables = {'platforms': ['default', 'p1'],
             'variables': {'default': {'global': {'v': 'g{%(w)s}', 'w': 'w-global'}}},
             'components': [{'name': 'c', 'stage': 0, 'command': {'executable': 'echo', 'arguments': '%(v)s'},
                             'variables': {'w': 'w-component'}}]}
blueprint = {'platforms': ['default', 'p1'],
             'variables': {'default': {'global': {'n': 2, 'w': 'w-global'}}, 'p1': {'global': {'n': 3}}},
             'blueprint': {'default': {'global': {'resourceRequest': {'numberThreads': '%(n)s'},
                                                  'resourceManager': {'lsf': {'queue': 'q-%(w)s'}}}}},
             'components': [{'name': 'c', 'stage': 0, 'command': {'executable': 'echo', 'arguments': 'x'},
                             'variables': {'n': 7, 'w': 'w-component'}}]}
bad = 0
for title, doc in (('global variable referencing a variable the component redefines', variables),
                   ('blueprint options referencing variables the component redefines', blueprint)):
    a, b = resolve(doc, True), resolve(doc, False)
    print(title)
    print('   package (primitive) :', a)
    print('   replicated          :', b, '' if a == b else '   <-- differs')
    bad += a != b
print('defect present' if bad else 'ok')
sys.exit(1 if bad else 0)
