"""Plain reproduction (the real scripts/elaunch.py run as a process: real Setup / Run / Controller / engines / local tasks /
StatusMonitor thread; no harness) of two defects found by growth item G03 (spec/ExperimentLifecycle.tla, properties
NoStaleVerdict, LegalOrder, Termination):

  A two-stage experiment fails in stage 1 (exit-status=Failed, experiment-state=finished).  The cause is removed and the
  instance is restarted from stage 1:   elaunch.py -r 1 <instance>

  G03:restart-shows-stale-verdict
      The restarted run loads the status file of the earlier run and only removes the error description.  From its first
      status update until its very last one status.txt says  experiment-state=running, exit-status=Failed, completed-on=<time
      the EARLIER run ended>: a client polling for "exit-status != N/A" (or for completed-on) concludes that the running
      experiment has failed.

  G03:restart-from-later-stage-cleanup-crash
      The restarted run executes stage 1 successfully, then the clean-up (`finally:` of elaunch.py) evaluates
      controller.workflowIsComplete, which merges ComponentState.combinedStateUpdates of EVERY component; the components of
      the stages before the restart stage were created without an engine (generate_components(create_engine=False)), so
      `self.engine.stateUpdates` raises AttributeError out of the finally clause.  The final status is never written:
      status.txt stays at experiment-state=running / exit-status=Failed for ever, output is not consolidated, elaunch exits
      with a traceback and code 1 although every stage succeeded.

Run:  /venv/bin/python out/proposed_fixes/G03_restart_status_repro.py
Exit code 1 = at least one of the two reproduced (the lines starting with DEFECT say which), 0 = neither.
"""
import os
import shutil
import subprocess
import sys
import tempfile
import time

import experiment

ELAUNCH = os.path.normpath(os.path.join(os.path.dirname(experiment.__file__), "..", "..", "scripts", "elaunch.py"))

FLOWIR = """
components:
- name: first
  stage: 0
  command:
    executable: echo
    arguments: hello
- name: second
  stage: 1
  references: [stage0.first:ref]
  command:
    executable: test
    arguments: -d stage0.first:ref -a -e %(flag)s
"""


def read_status(path):
    try:
        with open(path) as f:
            return dict(line.rstrip("\n").split("=", 1) for line in f if "=" in line)
    except (IOError, OSError, ValueError):
        return None


def find_status(instance):
    """status.txt lives in the shadow directory while elaunch runs and in <instance>/output afterwards"""
    out = os.path.join(instance, "output")
    return os.path.join(os.path.realpath(out), "status.txt")


def main():
    d = tempfile.mkdtemp(prefix="g03_restart_repro_")
    env = dict(os.environ, LOGNAME="g03repro%d" % os.getpid())
    defects = []
    try:
        flag = os.path.join(d, "flag")
        os.makedirs(os.path.join(d, "wf.package", "conf"))
        with open(os.path.join(d, "wf.package", "conf", "flowir_package.yaml"), "w") as f:
            f.write(FLOWIR % {"flag": flag})
        cmd = [sys.executable, ELAUNCH, "--nostamp", "--failSafeDelays=no", "-l", "40"]
        p = subprocess.run(cmd + ["wf.package"], cwd=d, env=env, capture_output=True, text=True, timeout=600)
        inst = os.path.join(d, "wf.instance")
        st = read_status(find_status(inst))
        print("first run : exit code %s, status: %s" % (p.returncode, {k: st.get(k) for k in ("experiment-state", "exit-status", "current-stage", "stage-state")}))
        if st.get("exit-status") != "Failed":
            print("unexpected: the first run was meant to fail in stage 1")
            return 2
        with open(flag, "w") as f:
            f.write("now stage 1 can succeed\n")
        q = subprocess.Popen(cmd + ["-r", "1", inst], cwd=d, env=env, stdout=subprocess.PIPE, stderr=subprocess.STDOUT, text=True)
        seen = []
        t0 = time.time()
        while q.poll() is None and time.time() - t0 < 600:
            s = read_status(find_status(inst))
            if s:
                key = (s.get("experiment-state"), s.get("exit-status"), s.get("completed-on") != "N/A")
                if key not in seen:
                    seen.append(key)
            time.sleep(0.05)
        out = q.communicate()[0]
        st2 = read_status(find_status(inst))
        print("restart   : exit code %s; (experiment-state, exit-status, completed-on set) seen while it ran: %s" % (q.returncode, seen))
        print("restart   : status left behind: %s" % {k: st2.get(k) for k in ("experiment-state", "exit-status", "current-stage", "stage-state", "total-progress")})
        # (the run's own verdict also appears next to `running` shortly before the end: that is another, smaller matter)
        if any(es == "running" and (xs == "Failed" or completed) for es, xs, completed in seen):
            defects.append("G03:restart-shows-stale-verdict")
            print("DEFECT G03:restart-shows-stale-verdict: while the restarted experiment ran, status.txt said experiment-state=running "
                  "next to the exit-status / completed-on of the EARLIER run")
        if "has no attribute 'stateUpdates'" in out or (st2.get("experiment-state") == "running" and q.returncode != 0):
            defects.append("G03:restart-from-later-stage-cleanup-crash")
            tail = [l for l in out.splitlines() if "Error" in l or "stateUpdates" in l][-3:]
            print("DEFECT G03:restart-from-later-stage-cleanup-crash: every stage of the restarted run succeeded but the clean-up crashed "
                  "(%s); the final status was never written: %s" % (tail, {k: st2.get(k) for k in ("experiment-state", "exit-status")}))
    finally:
        shutil.rmtree(d, ignore_errors=True)
        shutil.rmtree("/tmp/chpc-%s-shadow" % env["LOGNAME"], ignore_errors=True)
    return 1 if defects else 0


if __name__ == "__main__":
    sys.exit(main())
