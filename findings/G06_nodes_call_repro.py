"""G06:api-error-while-recording-nodes -- one failed request of _get_nodes() fails a healthy task.

When the task is first seen running (or finished) SetLastReportedState lists the pods once more to remember which nodes cached the
image.  That request is pure bookkeeping, but if it fails (here: ONE 503 answer) the task is marked failed with SystemIssue although
its pod is running; the Job is left in the cluster.  Every other request of the poll tolerates a 5-minute outage.
Run: /venv/bin/python G06_nodes_call_repro.py      (exit 1 = defect reproduced)
"""
import G06_common_repro as C

cluster = C.install()
task = C.new_task()
cluster.job_status = dict(C.JOB_ACTIVE)
cluster.pods = [C.POD_RUNNING]
state = {"failed": 0}


def fail(name, n):
    # the poll that first sees the pod running makes: read_job, list_pods, list_events, list_pods (= _get_nodes)
    if name == "list_pods" and cluster.log[-2:] == ["list_pods", "list_events"] and not state["failed"]:
        state["failed"] = 1
        return 503
    return None


cluster.fail = fail
C.watch(task, 1.0, "pod Running, one 503 for the nodes request:")
print("requests:", cluster.log[:8])
print("job still in the cluster:", cluster.job_status is not None, "| pod phase:", cluster.pods[0]["phase"])
C.finish(not (task.status == "failed"), "the task is %s / %s while its pod is Running and its Job exists" % (task.status, task.exitReason))
