"""Plain reproduction (real threads, real rx schedulers, no harness) of the C02 liveness defect:

A component whose task is restarted and exits again before the ComponentState pipeline has published the
RUNNING state never emits a second POSTMORTEM notification, so Controller.postMortemCheck is never called for the
second exit and the stage never completes.

Cause: ComponentState.__init__ / UpdateClosure returns the SAME mutable dictionary for every emission; the next
pipeline stage (StateClosure) runs on another thread and compares it with the last published state, so when two
updates (isAlive True after the restart, isAlive False after the second exit) are applied before the first one is
compared, both look like "no change" (POSTMORTEM -> POSTMORTEM).

Run:  /venv/bin/python findings/C02_restart_reexit_hang_repro.py        (prints the notifications received)
Exit code 1 = defect reproduced (only one POSTMORTEM notification for two exits), 0 = two notifications.
"""
import logging
import os
import sys
import tempfile
import shutil
import time

logging.disable(logging.CRITICAL)
sys.path.insert(0, os.path.dirname(os.path.dirname(os.path.abspath(__file__))))
import reactivex.subject
import experiment.runtime.engine as engine_mod
import experiment.runtime.workflow as workflow
import experiment.model.codes as codes
from harness import realenv


class StubEngine(engine_mod.Engine):
    """Only the emission source is replaced: the test pushes the dictionaries the real engine would emit."""

    def __init__(self, job):
        self.job = job
        self._exitReason = None
        self._shutdown = False
        self.subject = reactivex.subject.Subject()

    @property
    def stateUpdates(self):
        return self.subject

    def exitReason(self):
        return self._exitReason

    def isAlive(self):
        return self._exitReason is None


def main():
    d = tempfile.mkdtemp(dir=os.path.join(os.path.dirname(os.path.dirname(os.path.abspath(__file__))), "out"))
    try:
        exp = realenv.experiment_from_flowir({"components": [{"name": "a", "command": {"executable": "echo"}}]}, d)
        job = exp._stages[0].jobWithName("a")
        engine_mod.Engine.engineForComponentSpecification = staticmethod(lambda j: StubEngine(j))
        comp = workflow.ComponentState(job, exp.experimentGraph)
        eng = comp.engine
        seen = []
        comp.notifyPostMortem.subscribe(on_next=lambda e: seen.append((time.time(), dict(e[0]))))
        # first execution exits (ResourceExhausted): one POSTMORTEM notification expected
        eng._exitReason = "ResourceExhausted"
        eng.subject.on_next(({"isAlive": False, "engineExitReason": "ResourceExhausted"}, eng))
        time.sleep(1.0)
        print("after first exit: %d POSTMORTEM notification(s), state=%s" % (len(seen), comp.state))
        # the ComponentState thread pool is shared by all components: under load its workers are busy for a moment
        pool = workflow.ComponentState.componentScheduler
        for _ in range(64):
            pool.schedule(lambda *_: time.sleep(0.5))
        # the controller restarts the engine: it is alive again and emits; the restarted task exits at once
        eng._exitReason = None
        eng.subject.on_next(({"isAlive": True, "engineExitReason": None}, eng))
        eng._exitReason = "Success"
        eng.subject.on_next(({"isAlive": False, "engineExitReason": "Success"}, eng))
        time.sleep(12.0)        # more than two 5 s interval ticks of the pipeline
        print("after restart and second exit: %d POSTMORTEM notification(s), state=%s" % (len(seen), comp.state))
        return 1 if len(seen) < 2 else 0
    finally:
        shutil.rmtree(d, ignore_errors=True)


if __name__ == "__main__":
    rc = main()
    print("DEFECT REPRODUCED" if rc else "ok")
    os._exit(rc)
