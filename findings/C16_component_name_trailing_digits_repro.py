"""C16 repro: a component whose name ends with a digit never gets a memoization hash.

Two packages that differ ONLY in the name of the component ("cons" vs "cons1"); same executable, arguments,
input file.  Property C16: the hash does not depend on component names.  Observed on the unchanged tree:
    cons   -> strong/fuzzy hash strings
    cons1  -> (None, None)         (memoization silently disabled; a consumer of cons1 has no fuzzy hash either)
Cause: graph.py ComponentSpecification._compute_memoization_info derives the "blueprint" name with
componentName.rstrip('0123456789') (meant for replicas "<name><replica>"), looks `cons` up in the unreplicated
FlowIR, gets FlowIRComponentUnknown, and the blanket `except Exception` turns that into "no hash".

Run:  /venv/bin/python /verif/out/proposed_fixes/C16_component_name_trailing_digits_repro.py
"""
import logging
import os
import shutil
import tempfile

import yaml

logging.disable(logging.CRITICAL)
import experiment.model.data
import experiment.model.storage


def hashes(name, root):
    flowir = {"components": [{"name": name, "stage": 0,
                              "command": {"executable": "cat", "arguments": "-n input/in.txt:ref"},
                              "references": ["input/in.txt:ref"]}]}
    pkg_dir = os.path.join(root, name + ".package")
    os.makedirs(os.path.join(pkg_dir, "conf"))
    with open(os.path.join(pkg_dir, "conf", "flowir_package.yaml"), "w") as f:
        yaml.safe_dump(flowir, f)
    inp = os.path.join(root, "in.txt")
    with open(inp, "w") as f:
        f.write("the same input\n")
    pkg = experiment.model.storage.ExperimentPackage.packageFromLocation(pkg_dir)
    exp = experiment.model.data.Experiment.experimentFromPackage(pkg, location=root, inputs=[inp])
    spec = exp.graph.nodes["stage0.%s" % name]["componentSpecification"]
    return spec.memoization_hash, spec.memoization_hash_fuzzy


root = tempfile.mkdtemp()
try:
    a = hashes("cons", root)
    b = hashes("cons1", root)
    print("cons :", a)
    print("cons1:", b)
    if a != b:
        print("DEFECT: the memoization hash depends on the component name")
        raise SystemExit(1)
    print("ok")
finally:
    shutil.rmtree(root, ignore_errors=True)
