"""C18 / key deploy:definition-written-through-linked-conf
ExperimentPackage.expandPackageToDirectory stores the workflow definition as <instance>/conf/flowir_package.yaml after the
manifest entries have been deployed.  With a manifest entry `conf: <folder>:link` (the code explicitly supports a manifest
entry called conf) <instance>/conf is a symbolic link to the package's folder and shutil.copyfile writes THROUGH it: a new
file (or an overwritten one) appears in the package's source folder, outside the instance directory.
Run: /venv/bin/python C18_conf_linked_definition_written_to_source_repro.py   (exit 1 = defect present)"""
import os, shutil, sys, tempfile, logging
logging.disable(logging.CRITICAL)
import experiment.model.storage as S
import experiment.model.errors as E

base = tempfile.mkdtemp()
try:
    root = os.path.join(base, "l1", "l2", "l3")
    pkg = os.path.join(root, "pkg"); os.makedirs(os.path.join(pkg, "shared-conf"))
    open(os.path.join(pkg, "shared-conf", "common.yaml"), "w").write("x: 1\n")
    open(os.path.join(pkg, "wf.yaml"), "w").write("components:\n- name: hello\n  command:\n    executable: echo\n")
    target = os.path.join(root, "instances", "new.instance"); os.makedirs(os.path.dirname(target))
    before = sorted(os.listdir(os.path.join(pkg, "shared-conf")))
    try:
        p = S.ExperimentPackage.packageFromLocation(os.path.join(pkg, "wf.yaml"), manifest={"conf": "shared-conf:link"})
        p.expandPackageToDirectory(target); outcome = "no error"
    except (E.PackageCreateError, E.FlowIRManifestException) as e:
        outcome = type(e).__name__
    after = sorted(os.listdir(os.path.join(pkg, "shared-conf")))
    print("outcome: %s\npackage folder shared-conf before: %s\n                          after:  %s" % (outcome, before, after))
    bad = before != after
    print("DEFECT: the deployment wrote into the package's source folder" if bad else "ok")
    sys.exit(1 if bad else 0)
finally:
    shutil.rmtree(base, ignore_errors=True)
