"""G06:garbage-collection-error-flips-verdict -- a successful task becomes failed/UnknownIssue when garbage collection cannot connect.

With garbage_collect = "all" (or "successful") task_completed calls terminate() to delete the Job.  If the API server is
unreachable at that moment (connection refused, after 4 attempts) the urllib3 error escapes from terminate(), travels up through
the rx pipeline into SetLastReportedState's `except Exception` and overwrites the final state finished/Success/0 with
failed/UnknownIssue/None.
Run: /venv/bin/python G06_gc_error_flips_verdict_repro.py      (exit 1 = defect reproduced)
"""
import G06_common_repro as C

cluster = C.install()
task = C.new_task(garbage_collect="all")
cluster.job_status = dict(C.JOB_COMPLETE)
cluster.pods = [C.POD_SUCCEEDED]
cluster.fail = lambda name, n: "conn" if name == "delete_job" else None
C.watch(task, 1.0, "job Complete, pod Succeeded, deletion cannot connect:")
print("requests:", cluster.log)
C.finish(task.exitReason == "Success", "status %s, exitReason %s, returncode %s" % (task.status, task.exitReason, task.returncode))
