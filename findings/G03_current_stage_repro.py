"""Plain reproduction (the real scripts/elaunch.py run as a process; no harness) of a defect found by growth item G03
(spec/ExperimentLifecycle.tla, properties CurrentStageIsControllers, EarlierStagesOver, FailedStageIdentified):

  G03:current-stage-reports-in-transit-stage
      StatusMonitor.CheckStatus() calls compute_stage_status() for the stage the controller runs AND for every stage "in
      transit" (= any stage that still has a component the controller has not seen finish, i.e. also every stage that has
      not started yet), in ascending order.  compute_stage_status() sets `current-stage` and `stage-progress` of the status
      file as a side effect, so what status.txt shows is the LAST stage of the experiment that still has unfinished
      components, with that stage's progress (0.0), next to the stage-state of the stage that is really running.

  A three-stage experiment whose FIRST stage fails: while stage 0 runs status.txt says current-stage=stage2, and the final
  status of the failed experiment says  current-stage=stage2, stage-state=failed, error-description="Stage 0 failed ...".

Run:  /venv/bin/python out/proposed_fixes/G03_current_stage_repro.py
Exit code 1 = reproduced, 0 = status.txt names stage0.
"""
import os
import shutil
import subprocess
import sys
import tempfile
import time

import experiment

ELAUNCH = os.path.normpath(os.path.join(os.path.dirname(experiment.__file__), "..", "..", "scripts", "elaunch.py"))

FLOWIR = """
components:
- name: first
  stage: 0
  command:
    executable: sh
    expandArguments: none
    arguments: -c 'sleep 4; exit 1'
- name: second
  stage: 1
  references: [stage0.first:ref]
  command:
    executable: ls
    arguments: stage0.first:ref
- name: third
  stage: 2
  references: [stage1.second:ref]
  command:
    executable: ls
    arguments: stage1.second:ref
"""


def read_status(path):
    try:
        with open(path) as f:
            return dict(line.rstrip("\n").split("=", 1) for line in f if "=" in line)
    except (IOError, OSError, ValueError):
        return None


def main():
    d = tempfile.mkdtemp(prefix="g03_curstage_repro_")
    env = dict(os.environ, LOGNAME="g03repro%d" % os.getpid())
    try:
        os.makedirs(os.path.join(d, "wf.package", "conf"))
        with open(os.path.join(d, "wf.package", "conf", "flowir_package.yaml"), "w") as f:
            f.write(FLOWIR)
        q = subprocess.Popen([sys.executable, ELAUNCH, "--nostamp", "--failSafeDelays=no", "-l", "40", "wf.package"], cwd=d, env=env,
                             stdout=subprocess.PIPE, stderr=subprocess.STDOUT, text=True)
        inst = os.path.join(d, "wf.instance")
        seen = []
        t0 = time.time()
        while q.poll() is None and time.time() - t0 < 600:
            s = read_status(os.path.join(os.path.realpath(os.path.join(inst, "output")), "status.txt"))
            if s and s.get("experiment-state") == "running":
                key = (s.get("current-stage"), s.get("stage-state"), s.get("stage-progress"))
                if key not in seen:
                    seen.append(key)
            time.sleep(0.05)
        q.communicate()
        st = read_status(os.path.join(inst, "output", "status.txt"))
        print("while stage 0 was the only stage that had started, status.txt showed (current-stage, stage-state, stage-progress): %s" % seen)
        print("final status: %s" % {k: st.get(k) for k in ("experiment-state", "exit-status", "current-stage", "stage-state", "error-description")})
        bad = [k for k in seen if k[0] != "stage0"] or st.get("current-stage") != "stage0"
        if bad:
            print("DEFECT G03:current-stage-reports-in-transit-stage: only stage 0 ever ran (and failed), status.txt names %s" % st.get("current-stage"))
            return 1
        return 0
    finally:
        shutil.rmtree(d, ignore_errors=True)
        shutil.rmtree("/tmp/chpc-%s-shadow" % env["LOGNAME"], ignore_errors=True)


if __name__ == "__main__":
    sys.exit(main())
