"""C18 / keys stage:copy-onto-staged-link, stage:extract-through-staged-link
A component that stages `producerA/a:link` and then `producerB/a:copy` (same base name): shutil.copy writes THROUGH the
link created first and overwrites producer A's output.  Likewise `producerA/d:link` followed by the extraction of an
archive with a member `d/a` extracts into producer A's directory.  Both modify files outside the working directory.
Run: /venv/bin/python C18_stage_link_collisions_repro.py   (exit 1 = defect present)"""
import io, os, shutil, sys, tarfile, tempfile, logging
logging.disable(logging.CRITICAL)
import experiment.model.data as D
import experiment.model.errors as E


class Ref:
    def __init__(self, p, m): self.p, self.method, self.stringRepresentation = p, m, "%s:%s" % (p, m)
    def resolve(self, graph): return self.p


class Loc:
    def __init__(self, p): self.path = p


base = tempfile.mkdtemp()
bad = 0
try:
    for title in ("link A/a then copy B/a", "link A/d then extract {d/a}"):
        root = os.path.join(base, "l1", "l2", "l3"); shutil.rmtree(os.path.join(base, "l1"), ignore_errors=True)
        work = os.path.join(root, "consumer"); os.makedirs(work)
        for prod in ("A", "B"):
            os.makedirs(os.path.join(root, prod, "d"))
            open(os.path.join(root, prod, "a"), "w").write("output of %s\n" % prod)
            open(os.path.join(root, prod, "d", "a"), "w").write("output of %s (d/a)\n" % prod)
        arch = os.path.join(base, "x.tar")
        with tarfile.open(arch, "w") as tar:
            ti = tarfile.TarInfo("d/a"); data = b"from the archive\n"; ti.size = len(data); tar.addfile(ti, io.BytesIO(data))
        if "copy" in title:
            victim = os.path.join(root, "A", "a"); want = "output of A\n"
        else:
            victim = os.path.join(root, "A", "d", "a"); want = "output of A (d/a)\n"
        try:
            if "copy" in title:
                D.StageReference(Ref(os.path.join(root, "A", "a"), "link"), Loc(work), None)
                D.StageReference(Ref(os.path.join(root, "B", "a"), "copy"), Loc(work), None)
            else:
                D.StageReference(Ref(os.path.join(root, "A", "d"), "link"), Loc(work), None)
                D.StageReference(Ref(arch, "extract"), Loc(work), None)
            outcome = "no error"
        except E.DataReferenceCouldNotStageError:
            outcome = "DataReferenceCouldNotStageError"
        got = open(victim).read()
        print("%-30s -> %-32s producer's file now holds %r" % (title, outcome, got))
        bad += got != want
    print("DEFECT" if bad else "ok")
    sys.exit(1 if bad else 0)
finally:
    shutil.rmtree(base, ignore_errors=True)
