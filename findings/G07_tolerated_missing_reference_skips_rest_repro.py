"""Plain reproduction (real API only: a real package, Experiment, Job, ComponentState; no harness) of finding
G07:tolerated-missing-reference-skips-the-remaining-references  (growth item G07, spec/DataStaging.tla, promise NoHalfStagedLaunch).

Job.stageIn() stages the references one by one and lets the DataReferenceFilesDoNotExistError of the FIRST missing one escape.
ComponentState.stageIn() swallows that error when the missing reference is tolerated:
  * any reference of a repeating component (observer),
  * a reference to a producer in the component's own stage.
Controller.finalize_submit_components() then launches the component -- but every reference AFTER the missing one was never
staged, WorkingDirectory.updateInputs() never ran and the :copyout references were skipped.

  case 1   stage1.consumer (not repeating):  references  stage1.sibling/maybe.txt:copy  stage0.producer/out.txt:copy
           sibling finished without writing maybe.txt.  Expected: out.txt is in the working directory when the component is
           launched.  Actual: stageIn returns (= launch), the working directory is empty.
  case 2   stage1.observer (repeating):  references  stage0.producer/not-yet.txt:ref  stage0.producer/out.txt:copy
           Expected: out.txt staged.  Actual: launched with an empty working directory.

Run:  /venv/bin/python out/proposed_fixes/G07_tolerated_missing_reference_skips_rest_repro.py
Exit code 1 = reproduced, 0 = not reproduced.
"""
import logging
import os
import shutil
import sys
import tempfile

logging.disable(logging.CRITICAL)
os.environ.setdefault("LOGNAME", "g07repro%d" % os.getpid())

import experiment.model.data
import experiment.model.storage
import experiment.runtime.workflow

FLOWIR = """
components:
- name: producer
  stage: 0
  command: {executable: echo, arguments: hello}
- name: sibling
  stage: 1
  command: {executable: echo, arguments: hello}
- name: consumer
  stage: 1
  references: [stage1.sibling/maybe.txt:copy, stage0.producer/out.txt:copy]
  command: {executable: cat, arguments: out.txt}
- name: observer
  stage: 1
  references: [stage0.producer/not-yet.txt:ref, stage0.producer/out.txt:copy]
  workflowAttributes: {repeatInterval: 5}
  command: {executable: cat, arguments: out.txt}
"""


def main():
    d = tempfile.mkdtemp(prefix="g07_skip_repro_")
    bad = 0
    try:
        os.makedirs(os.path.join(d, "wf.package", "conf"))
        with open(os.path.join(d, "wf.package", "conf", "flowir_package.yaml"), "w") as f:
            f.write(FLOWIR)
        pkg = experiment.model.storage.ExperimentPackage.packageFromLocation(os.path.join(d, "wf.package"))
        exp = experiment.model.data.Experiment.experimentFromPackage(pkg, location=d)
        g = exp.graph
        with open(os.path.join(g.nodes["stage0.producer"]["componentInstance"].directory, "out.txt"), "w") as f:
            f.write("the output of the producer\n")
        for name in ("consumer", "observer"):
            job = g.nodes["stage1.%s" % name]["componentInstance"]
            cs = experiment.runtime.workflow.ComponentState(job, exp.experimentGraph, create_engine=False)
            try:
                cs.stageIn()
                outcome = "returned (the controller launches the component)"
            except Exception as e:
                outcome = "raised %s (the component is not launched)" % type(e).__name__
            content = sorted(os.listdir(job.directory))
            print("stage1.%s: ComponentState.stageIn() %s; working directory: %s; Job.isStaged: %s" % (name, outcome, content, job.isStaged))
            if outcome.startswith("returned") and "out.txt" not in content:
                print("DEFECT G07:tolerated-missing-reference-skips-the-remaining-references: stage1.%s is launched without out.txt "
                      "although stage0.producer/out.txt exists" % name)
                bad += 1
    finally:
        shutil.rmtree(d, ignore_errors=True)
    return 1 if bad else 0


if __name__ == "__main__":
    sys.exit(main())
