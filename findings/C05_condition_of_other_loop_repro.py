"""C05 repro: two imports of the same DoWhile document (or two documents whose condition producers share a name):
the state of each loop (currentIteration / currentCondition, which Controller._instantiate_next_dowhile_iteration uses to
number the next iteration) is taken from whichever loop has the highest iteration, even from the wrong stage.
Cause: WorkflowGraph.compute_dowhile_state matches condition producers by name only.
Run: /venv/bin/python C05_condition_of_other_loop_repro.py"""
import os, sys
sys.path.insert(0, os.path.dirname(os.path.abspath(__file__)))
from C05_common_repro import build, cleanup

DOWHILE = """
type: DoWhile
inputBindings: {number: {type: output}}
loopBindings: {number: "add:output"}
condition: "stop:output"
components:
- name: add
  command: {executable: echo, arguments: "number:output"}
  references: ["number:output"]
- name: stop
  command: {executable: echo, arguments: "add:output"}
  references: ["add:output"]
"""
MAIN = """
components:
- {name: gen, stage: 0, command: {executable: echo, arguments: "0"}}
- {name: loopA, stage: 1, $import: dowhile.yaml, bindings: {number: "stage0.gen:output"}}
- {name: loopB, stage: 2, $import: dowhile.yaml, bindings: {number: "stage0.gen:output"}}
"""
exp, root = build(MAIN, DOWHILE)
wg = exp.experimentGraph
docs = wg._documents["DoWhile"]
k = {"stage1.loopA": 0, "stage2.loopB": 0}
bad = 0


def show(what):
    global bad
    print(what)
    for name in sorted(docs):
        st = docs[name]["state"]
        stage = name.split(".")[0]
        want = {"currentIteration": k[name], "currentCondition": "%s.%d#stop:output" % (stage, k[name])}
        ok = st == want
        bad += not ok
        print("   %s: %s %s" % (name, st, "" if ok else "  <-- WRONG, expected %s" % want))


show("after loading the package")
for name in ["stage1.loopA", "stage1.loopA", "stage2.loopB"]:
    k[name] += 1
    wg.instantiate_dowhile_next_iteration(docs[name]["document"], k[name], True)
    show("after iteration %d of %s" % (k[name], name))
cleanup(root)
sys.exit(1 if bad else 0)
