"""C10 -- resolveArguments substitutes the declared references one after the other with str.replace.

Run:  /venv/bin/python C10_sequential_reference_substitution_repro.py      (exit 1 while the defect is present)

ComponentSpecification.resolveArguments (graph.py) loops over the declared references and, for each, replaces its
absolute spelling everywhere in the argument string or else its relative spelling.  Consequences, all on VALID components:
 1. `A:ref` (stage1.A) is also replaced inside `BA:ref` and inside `stage0.A:ref` when it is declared before them:
    the result depends on the order of the declarations, and checkDataReferences then reports the damaged
    references as unused;
 2. when a line holds both spellings of one reference only the absolute one is replaced, the relative one is left
    behind and reported as an undeclared reference;
 3. a substituted VALUE is scanned again: if the file read by an :output reference contains the text `BA:ref` and BA:ref
    is declared later, the contents are rewritten too (again depending on the order of the declarations).
"""
import logging
import os
import shutil
import sys
import tempfile
import uuid

logging.disable(logging.CRITICAL)
import yaml
import experiment.model.data
import experiment.model.storage


def comp(name, stage, args="hello", refs=None):
    c = {"name": name, "stage": stage, "command": {"executable": "echo", "arguments": args}}
    if refs:
        c["references"] = refs
    return c


work = tempfile.mkdtemp(prefix="c10repro")
try:
    line = "A:ref BA:ref stage0.A:ref"
    flowir = {"components": [
        comp("A", 0), comp("A", 1), comp("BA", 1),
        comp("first", 1, line, ["A:ref", "BA:ref", "stage0.A:ref"]),
        comp("second", 1, line, ["stage0.A:ref", "BA:ref", "A:ref"]),      # same references, other order
        comp("both", 1, "A:ref stage1.A:ref", ["A:ref"]),
        comp("quote1", 1, "A/out.txt:output BA:ref", ["A/out.txt:output", "BA:ref"]),
        comp("quote2", 1, "A/out.txt:output BA:ref", ["BA:ref", "A/out.txt:output"]),
    ]}
    pkg = os.path.join(work, "%s.package" % uuid.uuid4().hex[:8])
    os.makedirs(os.path.join(pkg, "conf"))
    with open(os.path.join(pkg, "conf", "flowir_package.yaml"), "w") as f:
        yaml.safe_dump(flowir, f, sort_keys=False)
    package = experiment.model.storage.ExperimentPackage.packageFromLocation(pkg)
    exp = experiment.model.data.Experiment.experimentFromPackage(package, location=work)
    root = exp.instanceDirectory.location
    with open(os.path.join(root, "stages", "stage1", "A", "out.txt"), "w") as f:
        f.write("BA:ref")          # what the producer printed happens to look like a reference

    def resolved(name):
        spec = exp.graph.nodes["stage1." + name]["componentSpecification"]
        text = spec.resolveArguments().replace(root, "$INSTANCE")
        try:
            spec.checkDataReferences()
            verdict = "accepted"
        except Exception as e:
            verdict = "rejected: %s" % type(e).__name__
        return text, verdict

    want = "$INSTANCE/stages/stage1/A $INSTANCE/stages/stage1/BA $INSTANCE/stages/stage0/A"
    bad = 0
    for name in ("first", "second"):
        text, verdict = resolved(name)
        print("%-6s %r -> %r [%s]" % (name, line, text, verdict))
        bad |= text != want or verdict != "accepted"
    text, verdict = resolved("both")
    print("%-6s %r -> %r [%s]" % ("both", "A:ref stage1.A:ref", text, verdict))
    bad |= text != "$INSTANCE/stages/stage1/A $INSTANCE/stages/stage1/A" or verdict != "accepted"
    print("expected: %r for first and second, both accepted" % want)
    for name in ("quote1", "quote2"):
        text, _ = resolved(name)
        print("%-6s %r -> %r" % (name, "A/out.txt:output BA:ref", text))
        bad |= text != "BA:ref $INSTANCE/stages/stage1/BA"
    print("expected: 'BA:ref $INSTANCE/stages/stage1/BA' (the contents of out.txt, then the directory of BA) for quote1 and quote2")
finally:
    shutil.rmtree(work, ignore_errors=True)
sys.exit(1 if bad else 0)
