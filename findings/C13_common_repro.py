"""Shared by the C13 repro scripts: a real experiment instance with a repeating observer (plain st4sd API only)."""
import logging
import os
import tempfile
import uuid

import yaml

logging.disable(logging.CRITICAL)
import experiment.model.data
import experiment.model.storage
import experiment.runtime.engine


def build(observer_attrs, observer_vars=None, repeating_producer=False):
    prod = {"name": "producer", "stage": 0, "command": {"executable": "echo", "arguments": "p"}}
    comps = [prod]
    if repeating_producer:
        comps.insert(0, {"name": "source", "stage": 0, "command": {"executable": "echo", "arguments": "s"}})
        prod["references"] = ["source:ref"]
        prod["command"]["arguments"] = "source:ref"
        prod["workflowAttributes"] = {"repeatInterval": 5}
    obs = {"name": "observer", "stage": 0, "command": {"executable": "echo", "arguments": "producer:ref"},
           "references": ["producer:ref"], "workflowAttributes": observer_attrs}
    if observer_vars:
        obs["variables"] = observer_vars
    comps.append(obs)
    location = tempfile.mkdtemp(prefix="c13_repro_")
    package = os.path.join(location, "%s.package" % uuid.uuid4().hex[:8])
    os.makedirs(os.path.join(package, "conf"))
    with open(os.path.join(package, "conf", "flowir_package.yaml"), "w") as f:
        f.write(yaml.safe_dump({"components": comps}, sort_keys=False))
    pkg = experiment.model.storage.ExperimentPackage.packageFromLocation(package)
    exp = experiment.model.data.Experiment.experimentFromPackage(pkg, location=location)
    exp.validateExperiment(checkExecutables=False)
    job = exp.findJob(0, "observer")
    producer = job.producerInstances[0]
    return (location, exp), job, producer        # keep `exp` alive: jobs hold weak references to its graph
