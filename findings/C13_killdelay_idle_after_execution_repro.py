#!/venv/bin/python
"""C13 repro (plain API calls, real threads, real timers; ~25 s): key killdelay:expires-while-idle-after-an-execution

A repeating observer with `kill-after-producers-done-delay: 3` has executed once and is idle (waiting for its
next repeat) when its producers finish.  3 s later the kill delay expires: RepeatingEngine.notify_all_producers_finished
.suicide() finds self.process set (the task that finished seconds ago), calls process.kill() on it (no effect) and
sets _suicide.  From then on every EngineTaskController call takes the `if lastAction or self._suicide:` branch, which
does nothing: the engine never launches again and never stops (isAlive() stays True, exitReason() None).

Expected (property C13, clause 3): the engine stops when the configured kill delay expires.
Run:  /venv/bin/python <this file>      (PYTHONPATH=<patched tree>/python to see the repaired behaviour)
"""
import os
import shutil
import sys
import time

sys.path.insert(0, os.path.dirname(os.path.abspath(__file__)))
from C13_common_repro import build, experiment

(location, exp), job, producer = build({"repeatInterval": 30, "repeatRetries": 1}, {"kill-after-producers-done-delay": "3.0"})
with open(os.path.join(producer.workingDirectory.path, "output.dat"), "w") as f:
    f.write("x")                                         # the producer has output: the observer can consume
engine = experiment.runtime.engine.Engine.engineForComponentSpecification(job)
engine.run()
time.sleep(1.5)                                          # first execution (echo) is over, the engine is idle
launches = engine._stateDict["numberTaskLaunches"]
print("t=1.5s  launches=%d process=%r alive=%s" % (launches, engine.process is not None, engine.isAlive()))
engine.notify_all_producers_finished()                   # the producers finish; the kill delay (3 s) starts
stopped_at = None
t0 = time.time()
while time.time() - t0 < 22:
    if not engine.isAlive():
        stopped_at = time.time() - t0
        break
    time.sleep(0.25)
print("after %4.1fs: _suicide=%s alive=%s exitReason=%s launches=%d" % (
    time.time() - t0, engine._suicide, engine.isAlive(), engine.exitReason(), engine._stateDict["numberTaskLaunches"]))
defect = stopped_at is None
print("DEFECT: kill delay (3 s) expired while idle after an execution; engine still alive 22 s after its producers finished"
      if defect else "ok: engine stopped %.1f s after its producers finished" % stopped_at)
engine.kill()
time.sleep(6)                                            # let the monitor thread end
shutil.rmtree(location, ignore_errors=True)
sys.exit(1 if defect else 0)
