"""C18 / keys deploy:dotdot-in-name, deploy:through-linked-folder
ExperimentPackage.expandPackageToDirectory joins the manifest keys to the instance path unnormalised; Manifest.validate
only refuses absolute keys.  A key `../stolen` creates a folder / link NEXT TO the new instance directory; with
{lib: src:link, lib/extra: src2:copy} the second entry is copied through the link into the package's own source folder.
Run: /venv/bin/python C18_manifest_escapes_repro.py   (exit 1 = defect present)"""
import os, shutil, sys, tempfile, logging
logging.disable(logging.CRITICAL)
import experiment.model.storage as S
import experiment.model.errors as E

base = tempfile.mkdtemp()
bad = 0
try:
    for title, manifest in (("key ../stolen (copy)", {"../stolen": "src:copy"}),
                            ("key ../stolen (link)", {"../stolen": "src:link"}),
                            ("lib: src:link + lib/extra: src2:copy", {"lib": "src:link", "lib/extra": "src2:copy"})):
        root = os.path.join(base, "l1", "l2", "l3"); shutil.rmtree(os.path.join(base, "l1"), ignore_errors=True)
        pkg = os.path.join(root, "pkg"); os.makedirs(os.path.join(pkg, "src")); os.makedirs(os.path.join(pkg, "src2"))
        open(os.path.join(pkg, "src", "f"), "w").write("x"); open(os.path.join(pkg, "src2", "g"), "w").write("y")
        open(os.path.join(pkg, "wf.yaml"), "w").write("components:\n- name: hello\n  command:\n    executable: echo\n")
        inst_parent = os.path.join(root, "instances"); os.makedirs(inst_parent)
        target = os.path.join(inst_parent, "new.instance")
        def listing():
            out = set()
            for d, dirs, files in os.walk(root):
                dirs[:] = [x for x in dirs if os.path.join(d, x) != target]
                out.update(os.path.relpath(os.path.join(d, n), root) for n in dirs + files)
            return out
        before = listing()
        try:
            p = S.ExperimentPackage.packageFromLocation(os.path.join(pkg, "wf.yaml"), manifest=dict(manifest))
            p.expandPackageToDirectory(target); outcome = "no error"
        except (E.PackageCreateError, E.FlowIRManifestException) as e:
            outcome = type(e).__name__
        new = sorted(listing() - before)
        print("%-40s -> %-22s created outside the instance directory: %s" % (title, outcome, new or "nothing"))
        bad += bool(new)
    print("DEFECT" if bad else "ok")
    sys.exit(1 if bad else 0)
finally:
    shutil.rmtree(base, ignore_errors=True)
