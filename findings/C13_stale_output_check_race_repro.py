#!/venv/bin/python
"""C13 repro (plain API calls, real threads; ~15 s): key race:last-output-and-notification-inside-output-check:no-retries-left

EngineTaskController first asks job.producersHaveOutputSinceDate(lastLaunched) and only afterwards samples
`producers_done_when_i_started = self._producers_are_finished`.  If the (repeating) producer writes its last output
and finishes between the two -- the check may take long on a shared file system, it lists every producer directory --
the attempt is judged with the stale answer "no new output" AND with "producers finished": it does not execute,
counts as a failed final attempt and, with repeatRetries: 0, the engine kills itself.  The producer's last (here: only)
output is never consumed although it existed before the producers-finished notification was delivered.

The interleaving is forced deterministically by wrapping job.producersHaveOutputSinceDate: on its 2nd call it returns the
real answer after the producer wrote its output and notify_all_producers_finished() was delivered.

Expected (property C13, clause 2): the observer does not stop before it has started an execution that began after the
producers' last output appeared.
Run:  /venv/bin/python <this file>      (PYTHONPATH=<patched tree>/python to see the repaired behaviour)
"""
import os
import shutil
import sys
import time

sys.path.insert(0, os.path.dirname(os.path.abspath(__file__)))
from C13_common_repro import build, experiment

(location, exp), job, producer = build({"repeatInterval": 5, "repeatRetries": 0}, repeating_producer=True)
engine = experiment.runtime.engine.Engine.engineForComponentSpecification(job)
real_check = job.producersHaveOutputSinceDate
calls = []


def check(date):
    answer = real_check(date)
    calls.append(answer)
    if len(calls) == 2:
        # ... the observer has just looked; now the producer writes its last output and finishes
        with open(os.path.join(producer.workingDirectory.path, "last_output.dat"), "w") as f:
            f.write("x")
        engine.notify_all_producers_finished()
    return answer


job.producersHaveOutputSinceDate = check
engine.run()
t0 = time.time()
while time.time() - t0 < 14 and engine.isAlive():
    time.sleep(0.25)
time.sleep(0.5)
launches = engine._stateDict["numberTaskLaunches"]
print("after %4.1fs: output checks=%s alive=%s exitReason=%s launches=%d repeatRetries=%d" % (
    time.time() - t0, calls, engine.isAlive(), engine.exitReason(), launches, engine._stateDict["repeatRetries"]))
defect = (not engine.isAlive()) and launches == 0
print("DEFECT: the observer stopped without ever executing; the producer's last output was never consumed" if defect
      else "ok: the observer executed %d time(s) after the producer's last output" % launches)
engine.kill()
time.sleep(6)
shutil.rmtree(location, ignore_errors=True)
sys.exit(1 if defect else 0)
