"""Shared by the C05 repro scripts: build a package with a DoWhile document and return the Experiment (plain API calls)."""
import logging
import os
import shutil
import tempfile

logging.disable(logging.CRITICAL)
import experiment.model.data
import experiment.model.storage


def build(main, dowhile):
    root = tempfile.mkdtemp(prefix="c05_repro_", dir=os.environ.get("TMPDIR"))
    pk = os.path.join(root, "p.package")
    os.makedirs(os.path.join(pk, "conf"))
    open(os.path.join(pk, "conf", "dowhile.yaml"), "w").write(dowhile)
    open(os.path.join(pk, "conf", "flowir_package.yaml"), "w").write(main)
    pkg = experiment.model.storage.ExperimentPackage.packageFromLocation(pk)
    inst = experiment.model.storage.ExperimentInstanceDirectory.newInstanceDirectory(root, package=pkg)
    exp = experiment.model.data.Experiment(inst, is_instance=True)
    return exp, root


def cleanup(root):
    shutil.rmtree(root, ignore_errors=True)
