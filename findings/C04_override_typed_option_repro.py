#!/venv/bin/python
"""C04 finding (key typed:override-via-variable-rejected-by-loader).

A typed option inside a component's per-platform override may be a variable reference according to the schema,
but the copy of the override kept in the resolved configuration is only substituted, never converted to the declared
type (FlowIR.convert_component_types does not descend into 'override').  The resolved configuration therefore holds
override.<platform>.resourceRequest.numberProcesses = '4' (text) and the validating loader rejects the package --
on every platform, also on those the override does not apply to.  The same reference in the component body or in a
blueprint is accepted and yields the int 4.

Plain API calls, no harness.  Exit code 1 = defect present, 0 = fixed.
"""
import copy
import logging
import sys
logging.disable(logging.CRITICAL)
import experiment.model.frontends.flowir as FL
import experiment.model.conf as conf
import experiment.model.errors as E

flowir = {
    'platforms': ['default', 'p1'],
    'variables': {'default': {'global': {'n': 4}}},
    'components': [{'name': 'c', 'stage': 0, 'command': {'executable': 'echo', 'arguments': 'x'},
                    'override': {'p1': {'resourceRequest': {'numberProcesses': '%(n)s'}}}}]}


def load(platform, validate):
    return conf.FlowIRExperimentConfiguration(path=None, platform=platform, variable_files=[], system_vars={}, is_instance=False,
                                              createInstanceFiles=False, primitive=True,
                                              concrete=FL.FlowIRConcrete(copy.deepcopy(flowir), platform, {}),
                                              updateInstanceFiles=False, validate=validate)


bad = 0
for platform in ('default', 'p1'):
    r = load(platform, False)._concrete.get_component_configuration((0, 'c'), raw=False, include_default=True)
    inner = r['override']['p1']['resourceRequest']['numberProcesses']
    print('platform %-7s numberProcesses=%r   override.p1...numberProcesses=%r (%s)' % (
        platform, r['resourceRequest']['numberProcesses'], inner, type(inner).__name__))
    bad += not isinstance(inner, int)
    try:
        load(platform, True)
        print('   loader accepts the package')
    except E.ExperimentInvalidConfigurationError as e:
        bad += 1
        print('   loader REJECTS the package: %s' % str(e).strip().splitlines()[-1][:200])
print('defect present' if bad else 'ok')
sys.exit(1 if bad else 0)
