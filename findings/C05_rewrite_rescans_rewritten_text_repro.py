"""C05 repro: the command line of a looped component is rewritten one reference at a time and every substitution re-scans
text that was already rewritten.  When the value of a binding reads like another reference of the same string (here the
binding `fix` is bound to the outside component stage0.src and the loop has its own component `src` in its stage 0) the two
arguments end up swapped: the first argument (the bound, original input) becomes the looped instance and the reference to
the looped instance becomes the outside component.  The `references` list (rewritten entry by entry) is right, so the
defect is silent.  Other arrangements (loop imported in stage 0) make the valid package fail validation instead.
Run: /venv/bin/python C05_rewrite_rescans_rewritten_text_repro.py"""
import os, sys
sys.path.insert(0, os.path.dirname(os.path.abspath(__file__)))
from C05_common_repro import build, cleanup
import experiment.model.frontends.flowir as F

# 1. the function alone
comp = {"name": "use", "stage": 1, "command": {"arguments": "fix:output stage0.src:output"},
        "references": ["fix:output", "stage0.src:output"]}
out = F.rewrite_components([comp], {"fix": "stage0.src:output"}, {(0, "src")}, 1, 3, {(1, "src"), (2, "use")})[0]
want = "stage0.src:output stage1.3#src:output"
print("rewrite_components:  arguments  %r\n                     expected   %r\n                     references %r" % (
    out["command"]["arguments"], want, out["references"]))
bad = out["command"]["arguments"] != want
comp = {"name": "stop", "command": {"arguments": "x-a:output a:output"}, "references": ["x-a:output", "a:output"]}
out = F.rewrite_components([comp], {}, set(), 1, 3, {(1, "a"), (1, "x-a"), (1, "stop")})[0]
want = "stage1.3#x-a:output stage1.3#a:output"
print("rewrite_components:  arguments  %r\n                     expected   %r" % (out["command"]["arguments"], want))
bad |= out["command"]["arguments"] != want

# 2. end to end
DOWHILE = """
type: DoWhile
inputBindings: {inp: {type: output}, fix: {type: output}}
loopBindings: {inp: "stage0.src:output"}
condition: "stage1.use/flag.txt:output"
components:
- name: src
  command: {executable: echo, arguments: "inp:output fix:output"}
  references: ["inp:output", "fix:output"]
- name: use
  stage: 1
  command: {executable: echo, arguments: "fix:output stage0.src:output"}
  references: ["fix:output", "stage0.src:output"]
"""
MAIN = """
components:
- {name: gen, stage: 0, command: {executable: echo, arguments: "0"}}
- {name: src, stage: 0, command: {executable: echo, arguments: "0"}}
- {name: loop, stage: 1, $import: dowhile.yaml, bindings: {inp: "stage0.gen:output", fix: "stage0.src:output"}}
"""
exp, root = build(MAIN, DOWHILE)
exp.validateExperiment(checkExecutables=False)
wg = exp.experimentGraph
wg.instantiate_dowhile_next_iteration(wg._documents["DoWhile"]["stage1.loop"]["document"], 1, True)
for i in (0, 1):
    node = "stage2.%d#use" % i
    args = wg.configurationForNode(node, raw=True)["command"]["arguments"]
    want = "stage0.src:output stage1.%d#src:output" % i
    print("%s: arguments %r, expected %r%s" % (node, args, want, "" if args == want else "   <-- WRONG"))
    bad |= args != want
cleanup(root)
sys.exit(1 if bad else 0)
