"""Plain reproduction (the real scripts/elaunch.py run as a process; no harness) of finding
G07:restaging-over-an-earlier-stage-in-fails  (growth item G07, spec/DataStaging.tla, promises Idempotent / FailDocumented).

    elaunch.py -r <stage> --restageData yes <instance>
"If set to Yes specified components inputs (copy/links) will be staged on restart."  StageReference() stages a :link with
os.symlink() and a directory :copy with shutil.copytree(): both refuse a destination that exists -- and after the first run it
always exists.  Every component of the restart stage that has a :link reference or copies a directory fails to stage with
DataReferenceCouldNotStageError [Errno 17] File exists and the restarted experiment fails before anything runs.  (Only file :copy
references can be restaged.  For a migrated component the same restart dies with a bare OSError: rmtree on a symbolic link.)

  stage0.first   echo hello
  stage1.second  references  stage0.first:link  data/table:copy   -- runs  test -e <flag>  (fails while the flag is missing)

  run 1: elaunch.py wf.package                                   -> stage 1 fails (no flag)
  the cause is removed (the flag is created), the input table is corrected
  run 2: elaunch.py -r 1 --restageData yes wf.instance           -> expected: stage 1 staged again (fresh table) and succeeds
                                                                   actual: the stage-in of stage1.second fails, experiment fails

Run:  /venv/bin/python out/proposed_fixes/G07_restaging_over_an_earlier_stage_in_repro.py
Exit code 1 = reproduced, 0 = not reproduced, 2 = the scenario could not be set up.
"""
import os
import shutil
import subprocess
import sys
import tempfile

import experiment

ELAUNCH = os.path.normpath(os.path.join(os.path.dirname(experiment.__file__), "..", "..", "scripts", "elaunch.py"))

FLOWIR = """
components:
- name: first
  stage: 0
  command:
    executable: echo
    arguments: hello
- name: second
  stage: 1
  references: [stage0.first:link, data/table:copy]
  command:
    executable: test
    arguments: -e %(flag)s
"""


def status(instance):
    try:
        with open(os.path.join(os.path.realpath(os.path.join(instance, "output")), "status.txt")) as f:
            return dict(line.rstrip("\n").split("=", 1) for line in f if "=" in line)
    except (IOError, OSError, ValueError):
        return {}


def main():
    d = tempfile.mkdtemp(prefix="g07_restage_repro_")
    env = dict(os.environ, LOGNAME="g07repro%d" % os.getpid())
    try:
        flag = os.path.join(d, "flag")
        os.makedirs(os.path.join(d, "wf.package", "conf"))
        os.makedirs(os.path.join(d, "wf.package", "data", "table"))
        with open(os.path.join(d, "wf.package", "data", "table", "rows.csv"), "w") as f:
            f.write("version 1\n")
        with open(os.path.join(d, "wf.package", "conf", "flowir_package.yaml"), "w") as f:
            f.write(FLOWIR % {"flag": flag})
        cmd = [sys.executable, ELAUNCH, "--nostamp", "--failSafeDelays=no", "-l", "40"]
        p = subprocess.run(cmd + ["wf.package"], cwd=d, env=env, capture_output=True, text=True, timeout=900)
        inst = os.path.join(d, "wf.instance")
        st = status(inst)
        wd = os.path.join(inst, "stages", "stage1", "second")
        print("run 1: exit code %s, exit-status %s; working directory of stage1.second: %s" % (p.returncode, st.get("exit-status"), sorted(os.listdir(wd))))
        if st.get("exit-status") != "Failed" or not {"first", "table"} <= set(os.listdir(wd)):
            print("unexpected: run 1 was meant to stage first + table and fail in stage 1")
            print(p.stdout[-1500:], p.stderr[-1500:])
            return 2
        with open(flag, "w") as f:
            f.write("now stage 1 can succeed\n")
        with open(os.path.join(inst, "data", "table", "rows.csv"), "w") as f:
            f.write("version 2\n")
        q = subprocess.run(cmd + ["-r", "1", "--restageData", "yes", inst], cwd=d, env=env, capture_output=True, text=True, timeout=900)
        st = status(inst)
        with open(os.path.join(wd, "table", "rows.csv")) as f:
            rows = f.read().strip()
        out = q.stdout + q.stderr
        err = [l for l in out.splitlines() if "Could not stage" in l or "File exists" in l or "rmtree" in l]
        print("run 2 (-r 1 --restageData yes): exit code %s, exit-status %s, staged table: %r" % (q.returncode, st.get("exit-status"), rows))
        for l in err[:4]:
            print("   | " + l.strip()[:220])
        if st.get("exit-status") == "Success" and rows == "version 2":
            print("not reproduced: the restart restaged the inputs and succeeded")
            return 0
        print("DEFECT G07:restaging-over-an-earlier-stage-in-fails: the restart with --restageData yes fails in the stage-in of stage1.second "
              "(the link `first` and the directory `table` exist from run 1)")
        return 1
    finally:
        shutil.rmtree(d, ignore_errors=True)
        shutil.rmtree("/tmp/chpc-%s-shadow" % env["LOGNAME"], ignore_errors=True)


if __name__ == "__main__":
    sys.exit(main())
