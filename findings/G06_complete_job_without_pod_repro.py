"""G06:job-complete-but-pod-object-gone -- a Complete job whose pod object is gone never reports Success.

The pod of a finished job can disappear before the task looks (cluster autoscaler removing the node, pod garbage collection, a
polling gap during an API outage).  _getTaskState then takes _get_last_pod_state()'s guess for a missing pod:
 - the pod was never seen running: "waiting_on_resource" -- for ever (the job is Complete, nothing will change);
 - the pod was seen running: failed / Cancelled, although the job completed successfully.
The docstring of _getTaskState promises "ELIF there is no pod_state - assume success".
Run: /venv/bin/python G06_complete_job_without_pod_repro.py      (exit 1 = defect reproduced)
"""
import G06_common_repro as C

cluster = C.install()
bad = []
task = C.new_task()
cluster.job_status = dict(C.JOB_COMPLETE)
cluster.pods = []
C.watch(task, 1.5, "job Complete, pod gone, never seen running (7 polls):")
if task.isAlive():
    bad.append("never-seen pod: the task waits for ever (%s)" % task.status)
cluster.job_status = None
C.watch(task, 0.5, "")

task = C.new_task()
cluster.job_status = dict(C.JOB_ACTIVE)
cluster.pods = [C.POD_RUNNING]
C.watch(task, 0.5, "running:")
cluster.job_status = dict(C.JOB_COMPLETE)
cluster.pods = []
C.watch(task, 0.6, "job Complete, pod gone, seen running before:")
if task.exitReason != "Success":
    bad.append("pod seen running: the completed job is reported as %s / %s" % (task.status, task.exitReason))
C.finish(not bad, "; ".join(bad) if bad else "Success reported")
