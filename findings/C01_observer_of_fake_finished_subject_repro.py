"""Plain reproduction (real threads, simulator backend, no harness) of the C01/C02 defect:

x (exits with KnownIssue, shutdownOn KnownIssue) -> p -> o (repeating observer of p, same stage).
x is shut down, so p is shut down without ever being launched (fake-finish).  The scheduler nevertheless launches
the observer o, because p counts as "staged-in" the moment it is fake-finished: o's task starts although the
component it consumes from was never launched and has not reached a final state, and o ends `finished` although it
consumes from a shut-down producer.

Exit code 1 = defect reproduced (o was launched), 0 = o was shut down without being launched.
"""
import logging
import os
import shutil
import sys
import tempfile

logging.disable(logging.CRITICAL)
sys.path.insert(0, os.path.dirname(os.path.dirname(os.path.abspath(__file__))))
sys.path.insert(0, "/repo")
import experiment.model.codes as codes
import experiment.runtime.errors
from tests.utils import generate_controller_for_flowir

FLOWIR = """
blueprint:
  default:
    global:
      resourceManager:
        config:
          backend: simulator
      command:
        executable: fake_executable
variables:
  default:
    global:
      sim_range_execution_time: 0
      sim_range_schedule_overhead: 0
      sim_restart: 'no'
components:
- name: x
  variables:
    sim_expected_exit_code: 1
  workflowAttributes:
    shutdownOn: [KnownIssue]
- name: p
  command:
    arguments: x:ref
  references: [x:ref]
- name: o
  command:
    arguments: p:ref
  references: [p:ref]
  workflowAttributes:
    repeatInterval: 2
"""


def main():
    d = tempfile.mkdtemp(dir=os.path.join(os.path.dirname(os.path.dirname(os.path.abspath(__file__))), "out"))
    try:
        controller = generate_controller_for_flowir(FLOWIR, d)
        launched = []
        for name in controller.graph.nodes:
            comp = controller.get_compstate(name)
            orig = comp.engine.run

            def run(*a, _o=orig, _n=name, **k):
                launched.append(_n)
                return _o(*a, **k)
            comp.engine.run = run
        try:
            controller.run()
            verdict = "ok"
        except experiment.runtime.errors.FinalStageNoFinishedLeafComponents:
            verdict = "no finished leaf"
        states = {n: controller.get_compstate(n).state for n in controller.graph.nodes}
        print("launched:", launched)
        print("states:", states, "verdict:", verdict)
        return 1 if "stage0.o" in launched else 0
    finally:
        shutil.rmtree(d, ignore_errors=True)


if __name__ == "__main__":
    rc = main()
    print("DEFECT REPRODUCED" if rc else "ok")
    os._exit(rc)
