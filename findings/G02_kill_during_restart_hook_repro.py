"""Plain reproduction (real Controller, real Engine, real local task, real threads; no harness) of a defect found while
growing spec/Scheduler.tla with the environment action ExternalKill (growth item G02, property NoLaunchAfterStop /
NoRunAfterFinal):

  A task is launched AFTER Controller.killController() returned - and after its component was recorded SHUT DOWN - when
  the kill arrives while Controller.postMortemCheck is inside Engine.restart (i.e. while the component's restart hook
  runs).  Nobody ever stops that task: kill_all_components()/cleanUp() skip the component because it is already final.

Cause: postMortemCheck takes no lock.  ComponentState.restart() checks `engine.isShutdown` once, BEFORE Engine.restart
runs the restart hook (user code, arbitrarily long); kill_all_components -> ComponentState.finish(SHUTDOWN) finds the
component in POSTMORTEM (its engine is dead), sets the final state and calls engine.shutdown(); Engine.restart never
looks at `_shutdown` again and ends with `self.run()`.

Scenario: one component whose task exits 2 (KnownIssue, listed in restartHookOn); hooks/restart.py sleeps 3 s and then
allows the restart; another thread calls killController() as soon as the hook has started.

Run:  /venv/bin/python out/proposed_fixes/G02_kill_during_restart_hook_repro.py
Exit code 1 = defect reproduced (the task ran again after the kill), 0 = no launch after the kill.
"""
import logging
import os
import shutil
import sys
import tempfile
import threading
import time

logging.disable(logging.CRITICAL)
sys.path.insert(0, "/repo/tests")
import utils as test_utils                      # the repository's own test helpers
import experiment.model.codes as codes
import experiment.runtime.errors

FLOWIR = """
components:
- name: flaky
  workflowAttributes:
    restartHookOn:
    - KnownIssue
  command:
    executable: sh
    arguments: "-c 'date +%s.%N >> launches.txt; sleep 1; exit 2'"
"""

HOOK = """
import os, time
import experiment.model.codes

def Restart(workingDirectory, restarts, componentName, log, exitReason, exitCode):
    open(os.path.join(workingDirectory, 'hook_started'), 'w').close()
    time.sleep(3.0)                      # e.g. rewriting restart files of a simulation
    open(os.path.join(workingDirectory, 'hook_finished'), 'w').close()
    return experiment.model.codes.restartContexts["RestartContextRestartPossible"]
"""


def main():
    d = tempfile.mkdtemp(prefix="g02_repro_")
    try:
        controller = test_utils.generate_controller_for_flowir(FLOWIR, d, extra_files={'hooks/__init__.py': '', 'hooks/restart.py': HOOK})
        comp = controller.get_compstate('stage0.flaky')
        wd = comp.specification.directory
        verdict = []

        def stage():
            try:
                controller.run()
                verdict.append("ok")
            except Exception as e:
                verdict.append(type(e).__name__)
        t = threading.Thread(target=stage, daemon=True)
        t.start()
        deadline = time.time() + 60
        while not os.path.exists(os.path.join(wd, 'hook_started')) and time.time() < deadline:
            time.sleep(0.05)
        if not os.path.exists(os.path.join(wd, 'hook_started')):
            print("the restart hook never started (scenario did not set up)")
            return 2
        launches_before = open(os.path.join(wd, 'launches.txt')).read().split()
        controller.killController("user asked to stop")          # returns after kill_all_components
        t_kill = time.time()
        print("killController() returned at %.2f; component state=%s finishCalled=%s engine.isShutdown=%s; launches so far=%d" % (
            t_kill, comp.state, comp.finishCalled, comp.engine.isShutdown, len(launches_before)))
        t.join(30)
        print("Controller.run() ended: %s (component state %s, recorded done: %s)" % (verdict, comp.state, 'stage0.flaky' in controller.comp_done))
        controller.cleanUp()
        time.sleep(14.0)         # the hook ends 3 s after it started, Engine.run() launches 1 s + 5 s after it is called
        launches = [float(x) for x in open(os.path.join(wd, 'launches.txt')).read().split()]
        late = [x for x in launches if x > t_kill]
        print("task launches: %d in total, %d of them AFTER killController() returned (%.2f s after the kill); engine.isAlive()=%s, "
              "component state=%s" % (len(launches), len(late), (late[0] - t_kill) if late else 0.0, comp.engine.isAlive(), comp.state))
        try:
            comp.engine.kill()
        except Exception:
            pass
        return 1 if late else 0
    finally:
        time.sleep(2.0)
        shutil.rmtree(d, ignore_errors=True)


if __name__ == "__main__":
    rc = main()
    print("DEFECT REPRODUCED: a task was launched after the controller was killed" if rc == 1 else "no launch after the kill" if rc == 0 else "inconclusive")
    os._exit(rc)
