#!/venv/bin/python
"""C17 finding (key replicated:platform-environment-replaces-default-environment).

An environment that both the default platform and the selected platform define must be the platform's variables layered
over the default platform's (FlowIRConcrete.get_environment does that, per variable).  FlowIRConcrete.instance() -- which
produces the replicated configuration that tasks really run with, and conf/flowir_instance.yaml -- merges with
`environments.update(platform_environments)`: the platform's environment REPLACES the default platform's one as a whole,
so every variable that only the default platform defines is lost.  The same component therefore gets a different
environment from the primitive and from the replicated configuration of the same package.

Plain API calls, no harness.  Exit code 1 = defect present, 0 = fixed.
"""
import copy
import logging
import sys
logging.disable(logging.CRITICAL)
import experiment.model.frontends.flowir as FL
import experiment.model.conf as conf
import experiment.model.graph as graph

flowir = {'platforms': ['default', 'p1'],
          'environments': {'default': {'myenv': {'A': 'a-default', 'B': 'b-default'}, 'environment': {'X': 'x-default', 'Y': 'y-default'}},
                           'p1': {'myenv': {'A': 'a-p1', 'C': 'c-p1'}, 'environment': {'X': 'x-p1'}}},
          'components': [{'name': 'c', 'stage': 0, 'command': {'executable': 'echo', 'arguments': 'x', 'environment': 'myenv'}},
                         {'name': 'd', 'stage': 0, 'command': {'executable': 'echo', 'arguments': 'x'}}]}
want = {'stage0.c': {'A': 'a-p1', 'B': 'b-default', 'C': 'c-p1'}, 'stage0.d': {'X': 'x-p1', 'Y': 'y-default'}}
bad = 0
for primitive in (True, False):
    cf = conf.FlowIRExperimentConfiguration(path=None, platform='p1', variable_files=[], system_vars={}, is_instance=False,
                                            createInstanceFiles=False, primitive=primitive,
                                            concrete=FL.FlowIRConcrete(copy.deepcopy(flowir), 'p1', {}), updateInstanceFiles=False)
    wg = graph.WorkflowGraph(configuration=cf, platform='p1', primitive=primitive)
    for node in sorted(want):
        got = wg.environmentForNode(node)
        ok = got == want[node]
        bad += not ok
        print('%-10s %s -> %r %s' % ('primitive' if primitive else 'replicated', node, got, '' if ok else '  <-- expected %r' % want[node]))
print('defect present' if bad else 'ok')
sys.exit(1 if bad else 0)
