"""C10 -- `<producer>:output` of a REPEATING producer that has not archived any stdout yet crashes the resolution.

Run:  /venv/bin/python C10_stdout_of_repeating_producer_without_streams_repro.py      (exit 1 while the defect is present)

ComponentSpecification.path_to_stdout() (graph.py) reports the missing streams/<n>.stdout of a repeating producer with
DataReferenceFilesDoNotExistError([(self, search)]) -- `self` is a ComponentSpecification, but the error formats
`reference.stringRepresentation` of a DataReference, so building the error raises AttributeError.  resolveArguments()
is prepared for the intended error ("Ignoring missing reference ... because its output and I assume that it will be
generated": the value is the empty text, exactly as for a plain producer that has not run yet); instead
resolveArguments(), checkDataReferences() and validateExperiment() of every consumer of such a producer die with
AttributeError until the producer has finished its first repetition.
"""
import logging
import os
import shutil
import sys
import tempfile
import uuid

logging.disable(logging.CRITICAL)
import yaml
import experiment.model.data
import experiment.model.storage


def comp(name, stage, args="hello", refs=None, **extra):
    c = {"name": name, "stage": stage, "command": {"executable": "echo", "arguments": args}}
    if refs:
        c["references"] = refs
    c.update(extra)
    return c


work = tempfile.mkdtemp(prefix="c10repro")
bad = 0
try:
    flowir = {"components": [
        comp("Monitor", 0, workflowAttributes={"repeatInterval": 1}),          # repeating producer, nothing archived yet
        comp("Plain", 0),                                                       # plain producer that has not run yet
        comp("watcher", 1, "last=stage0.Monitor:output", ["stage0.Monitor:output"]),
        comp("reader", 1, "last=stage0.Plain:output", ["stage0.Plain:output"]),
    ]}
    pkg = os.path.join(work, "%s.package" % uuid.uuid4().hex[:8])
    os.makedirs(os.path.join(pkg, "conf"))
    with open(os.path.join(pkg, "conf", "flowir_package.yaml"), "w") as f:
        yaml.safe_dump(flowir, f, sort_keys=False)
    package = experiment.model.storage.ExperimentPackage.packageFromLocation(pkg)
    exp = experiment.model.data.Experiment.experimentFromPackage(package, location=work)
    for name in ("reader", "watcher"):
        spec = exp.graph.nodes["stage1." + name]["componentSpecification"]
        try:
            text = spec.resolveArguments()
            spec.checkDataReferences()
            print("%-8s resolveArguments() -> %r, checkDataReferences() accepts" % (name, text))
            bad |= text != "last="
        except Exception as e:
            print("%-8s %s: %s" % (name, type(e).__name__, e))
            bad = 1
    try:
        exp.validateExperiment(checkExecutables=False)
        print("validateExperiment() accepts the workflow")
    except Exception as e:
        print("validateExperiment(): %s: %s" % (type(e).__name__, str(e)[:200]))
        bad = 1
    print("expected: 'last=' for both consumers (nothing produced yet), no exception")
finally:
    shutil.rmtree(work, ignore_errors=True)
sys.exit(1 if bad else 0)
