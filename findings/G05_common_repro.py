"""Shared by the G05 LSF reproduction scripts: a minimal stand-in for the `pythonlsf` binding (not installed here) that records
what lsf.Task submits and serves a job record the script controls.  No part of the verification harness is used."""
import logging
import sys
import types

logging.disable(logging.CRITICAL)


class Rec:
    def __init__(self, **kw):
        self.__dict__.update(kw)


class Stub(types.ModuleType):
    def __init__(self):
        super().__init__("pythonlsf.lsf")
        self.THIS_VERSION = "10.1"
        names = ["TERM_UNKNOWN", "TERM_PREEMPT", "TERM_WINDOW", "TERM_LOAD", "TERM_OTHER", "TERM_RUNLIMIT", "TERM_DEADLINE", "TERM_PROCESSLIMIT",
                 "TERM_FORCE_OWNER", "TERM_FORCE_ADMIN", "TERM_REQUEUE_OWNER", "TERM_REQUEUE_ADMIN", "TERM_CPULIMIT", "TERM_CHKPNT", "TERM_OWNER",
                 "TERM_ADMIN", "TERM_MEMLIMIT", "TERM_EXTERNAL_SIGNAL", "TERM_RMS", "TERM_ZOMBIE", "TERM_SWAP", "TERM_THREADLIMIT", "TERM_SLURM",
                 "TERM_BUCKET_KILL", "TERM_CTRL_PID", "TERM_CWD_NOTEXIST", "TERM_REMOVE_HUNG_JOB", "TERM_ORPHAN_SYSTEM", "TERM_PRE_EXEC_FAIL",
                 "TERM_DATA", "TERM_MC_RECALL"]
        for i, n in enumerate(names):
            setattr(self, n, i)
        for k, v in dict(JOB_STAT_PEND=1, JOB_STAT_PSUSP=2, JOB_STAT_RUN=4, JOB_STAT_SSUSP=8, JOB_STAT_USUSP=16, JOB_STAT_EXIT=32, JOB_STAT_DONE=64,
                         JOB_STAT_PDONE=128, JOB_STAT_PERR=256, JOB_STAT_WAIT=512, JOB_STAT_UNKWN=65536, SUB_QUEUE=2, SUB_OUT_FILE=16, SUB_RES_REQ=64,
                         SUB_PRE_EXEC=0x8000, SUB2_OVERWRITE_OUT_FILE=0x400, SUB2_USE_RSV=0x800000, SUB2_MODIFY_PEND_JOB=0x4000, SUB3_CWD=0x80,
                         SUB3_POST_EXEC=4, SUB3_APP=1, SUB4_SUBMISSION_ENV_VARS=0x20000, SUB4_DATA_STAGING_REQ=0x4000, SUB4_OUTDIR=0x800,
                         SUB4_GPU_REQ=0x400000, LSF_RLIM_NLIMITS=12, DEFAULT_RLIMIT=-1, LSF_RLIMIT_RUN=9, ALL_JOB=1, LSBE_BAD_HOST=46).items():
            setattr(self, k, v)
        self.submitted = None
        self.record = Rec(status=1, exitStatus=0, exitInfo=0, dstJobId=0)

    def lsb_init(self, name): return 0
    def submit(self):
        return Rec(options=0, options2=0, options3=0, options4=0, preExecCmd="", postExecCmd="", command="", resReq="", rLimits=None, beginTime=0,
                   termTime=0, outFile="", errFile="", queue="", cwd="", subEnvVars="", numProcessors=1, maxNumProcessors=1)
    def submitReply(self): return Rec()
    def lsb_submit(self, req, reply):
        self.submitted = req
        return 4711
    def lsb_openjobinfo(self, *a): return 1
    def lsb_closejobinfo(self): pass
    def lsb_readjobinfo(self, x):
        r = self.record
        ru = Rec(power=0, npids=1, nthreads=1, utime=0, stime=0, mem=0, swap=0)
        return Rec(status=r.status, exitStatus=r.exitStatus, exitInfo=r.exitInfo, jobPid=0, dstCluster="remote", dstJobId=r.dstJobId,
                   submit=Rec(outFile="", errFile=""), runRusage=ru, cpuTime=0, runTime=0, maxMem=0, avgMem=0, numExHosts=1, numToHosts4Slots=1,
                   brunJobTime=0, duration=0, submitTime=1, reserveTime=0, startTime=0, endTime=0, fwdTime=0)
    def lsb_deletejob(self, *a): return 0
    def lsb_errno(self): return 0
    def lsb_perror(self, m): pass


def install():
    """-> (experiment.runtime.backend_interfaces.lsf, the stub).  The status arbitrator (worker processes) is replaced by a direct query."""
    stub = Stub()
    pkg = types.ModuleType("pythonlsf")
    pkg.lsf = stub
    sys.modules["pythonlsf"], sys.modules["pythonlsf.lsf"] = pkg, stub
    import experiment.runtime.backend_interfaces.lsf as L
    import experiment.runtime.monitor

    class Direct:
        def getJobInfo(self, jobId): return L.LSFJobInfo(int(jobId))
        def cleanJobInfo(self, jobId): pass
    L.LSFRequestArbitrator.defaultArbitrator = Direct()
    L.experiment.runtime.monitor.CreateDeathAction = lambda *a, **k: (lambda: None)      # no background monitor thread
    return L, stub
