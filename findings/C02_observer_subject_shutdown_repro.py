"""Plain reproduction (real threads, simulator backend, no harness) of the C02 finding that is recorded, not repaired:

p (exits with KnownIssue, shutdownOn KnownIssue) is observed by the repeating component o in the same stage.
The documented rule "consumers of shut-down producers are shut down" gives o = shut down.  The runtime launches o as
soon as p is staged-in, so when p's task ends o is already running: o is told that its producers finished, performs
its last execution and ends `finished`.  (When p happens to be recorded as done before the scheduler considers o -
possible only for other scan orders / slower schedulers - o is shut down instead: the outcome depends on the ordering.)

Exit code 1 = o ended in a state different from the rule state (finding reproduced).
"""
import logging
import os
import shutil
import sys
import tempfile

logging.disable(logging.CRITICAL)
sys.path.insert(0, "/repo")
import experiment.model.codes as codes
import experiment.runtime.errors
from tests.utils import generate_controller_for_flowir

FLOWIR = """
blueprint:
  default:
    global:
      resourceManager:
        config:
          backend: simulator
      command:
        executable: fake_executable
variables:
  default:
    global:
      sim_range_execution_time: 0
      sim_range_schedule_overhead: 0
      sim_restart: 'no'
components:
- name: p
  variables:
    sim_expected_exit_code: 1
  workflowAttributes:
    shutdownOn: [KnownIssue]
- name: o
  command:
    arguments: p:ref
  references: [p:ref]
  workflowAttributes:
    repeatInterval: 2
"""


def main():
    d = tempfile.mkdtemp(dir=os.path.join(os.path.dirname(os.path.dirname(os.path.abspath(__file__))), "out"))
    try:
        controller = generate_controller_for_flowir(FLOWIR, d)
        try:
            controller.run()
            verdict = "ok"
        except experiment.runtime.errors.FinalStageNoFinishedLeafComponents:
            verdict = "no finished leaf"
        states = {n: controller.get_compstate(n).state for n in controller.graph.nodes}
        print("states:", states, "verdict:", verdict)
        return 1 if states["stage0.o"] != codes.SHUTDOWN_STATE else 0
    finally:
        shutil.rmtree(d, ignore_errors=True)


if __name__ == "__main__":
    rc = main()
    print("FINDING REPRODUCED: observer of a shut-down subject is not shut down" if rc else "o was shut down")
    os._exit(rc)
