#!/usr/bin/env python
"""G04:sim-poll-reads-state-before-returncode -- SimulatorTask can end "finished" with returncode None for ever.

SimulatorTask._run (thread 1) publishes the end of the simulated task in two statements

        self._real_state = SimulatorTaskState.finished
        if self._real_return_code is None:
            self._real_return_code = self._expected_exit_code

and SimulatorTask.poll (thread 2, re-started every second) copies the two attributes WITHOUT the condition lock that _run
holds:  _observed_state = _real_state ; _observed_return_code = _real_return_code.  A poll that runs between the two
statements of _run observes state finished / return code None, sets the finished event and -- because the task is no
longer alive -- never polls again.  From then on:  wait() has returned, isAlive() is False, returncode is None,
exitReason raises TypeError ('<' not supported between NoneType and int), status says "failed" although the task exits 0.
The Engine calls process.exitReason in HandleTaskExit: the component ends with UnknownIssue.

The window is two adjacent statements wide; this script makes it deterministic with threading.settrace (it only PAUSES
the _run thread at the line after `_real_state = finished` until a poll has completed; nothing is patched).

Exit code 1 = defect present, 0 = not reproduced (fixed).
"""
import os
import sys
import tempfile
import threading
import types

import experiment.model.executors
import experiment.runtime.backend_interfaces.task_simulator as ts

workdir = tempfile.mkdtemp(prefix="g04_sim_")


class Job:                      # what SimulatorTask reads of a component specification
    identification = types.SimpleNamespace(componentName="sim", stageIndex=0)
    producers = {}

    def __init__(self):
        self.customAttributes = {"sim_expected_exit_code": "0", "sim_range_schedule_overhead": "0", "sim_range_execution_time": "0.2"}

    def setOption(self, key, value):
        self.customAttributes[key] = value


real_commands = experiment.model.executors.CommandsFromSpecification
experiment.model.executors.CommandsFromSpecification = lambda job, *a, **k: (
    (None, types.SimpleNamespace(workingDir=workdir), None) if isinstance(job, Job) else real_commands(job, *a, **k))

in_window = threading.Event()        # _run has set the state to finished and not yet the return code
poll_done = threading.Event()        # a complete poll() ran while _run sat in the window
FILE = ts.__file__


def tracer(frame, event, arg):
    if frame.f_code.co_filename != FILE or frame.f_code.co_name not in ("_run", "poll"):
        return None

    def local(frame, event, arg):
        if frame.f_code.co_name == "_run" and event == "line":
            task = frame.f_locals.get("self")
            if task is not None and task._real_state == ts.SimulatorTaskState.finished and task._real_return_code is None \
                    and not in_window.is_set():
                in_window.set()
                poll_done.wait(10)            # pause _run exactly between its two statements
        if frame.f_code.co_name == "poll" and event == "return" and in_window.is_set():
            poll_done.set()
        return local
    return local


threading.settrace(tracer)
task = ts.SimulatorTask(Job())
threading.settrace(None)
task.wait()
task._sim_thread.join(15)

print("after wait(): isAlive() =", task.isAlive(), " returncode =", task.returncode, " status =", task.status,
      " real return code =", task._real_return_code, " finished.txt written =", os.path.exists(os.path.join(workdir, "finished.txt")))
try:
    print("exitReason =", task.exitReason)
    bad = task.returncode is None
except TypeError as e:
    print("exitReason raises TypeError:", e)
    bad = True
if bad:
    print("DEFECT: the task is dead, exited with code 0 (finished.txt), but reports returncode None / status failed / no exit reason")
    sys.exit(1)
print("not reproduced")
sys.exit(0)
