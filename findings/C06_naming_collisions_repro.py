"""C06: namespace_to_flowir gives two component steps the same FlowIR id, or crashes on a step name that ends with a digit.
Run: /venv/bin/python /verif/out/proposed_fixes/C06_naming_collisions_repro.py   (plain API calls, no harness)
Expected (property C06): a FlowIR with one uniquely named component per reachable component step, or a DSLInvalidError
that lists the offending location.  Observed on the unchanged tree: FlowIRComponentExists / AttributeError."""
import logging
logging.disable(logging.CRITICAL)
import experiment.model.frontends.dsl as D
import experiment.model.errors as E

PROD = {"signature": {"name": "prod", "parameters": []}, "command": {"executable": "echo", "arguments": "hi"}}


def wf(name, steps):
    return {"signature": {"name": name, "parameters": []}, "steps": dict(steps),
            "execute": [{"target": "<%s>" % s, "args": {}} for s, _ in steps]}


def ns(*wfs):
    return {"entrypoint": {"entry-instance": "main", "execute": [{"target": "<entry-instance>", "args": {}}]},
            "workflows": list(wfs), "components": [PROD]}


CASES = {
    # the second `foo` (inside sub) is renamed foo-I, which is the literal name of a sibling step of the first foo
    "generated suffix collides with literal step name":
        ns(wf("main", [("foo", "prod"), ("foo-I", "prod"), ("sub", "sub")]), wf("sub", [("foo", "prod")])),
    # `stage0.foo` and `foo` are different step names but the same FlowIR id (0, 'foo')
    "stage0. prefix collides with unprefixed step name":
        ns(wf("main", [("stage0.foo", "prod"), ("sub", "sub")]), wf("sub", [("foo", "prod")])),
    # a step name may end with a digit (StepNamePattern), a component name may not (SignatureNamePattern): fullmatch() is None
    "component step name ends with a digit":
        ns(wf("main", [("foo2", "prod")])),
}
bad = 0
for title, doc in CASES.items():
    try:
        flowir = D.namespace_to_flowir(D.Namespace(**doc))
        print("%-55s compiled: %s" % (title, [(c["stage"], c["name"]) for c in flowir.get_components()]))
    except E.DSLInvalidError as e:
        print("%-55s DSLInvalidError at %s" % (title, [u.location for u in e.underlying_errors]))
    except Exception as e:
        bad += 1
        print("%-55s DEFECT: %s: %s" % (title, type(e).__name__, e))
raise SystemExit(1 if bad else 0)
