"""G05 finding: unparsable-arguments-rendered-as-empty-string   (plain script, real API only)

Command.resolveArgumentString() renders the arguments by running   echo "<arguments>"   in a shell and takes stdout.  It never
looks at the shell's exit status: when the shell cannot parse the text (an unbalanced double quote, `${X:?}` ...) stdout is empty,
the error only goes to a debug log line, and the command line becomes "<executable> " -- the task then runs WITHOUT ARGUMENTS and,
if the program is happy without arguments, "succeeds".  With expandArguments: none the same component fails loudly at launch.

Run:  /venv/bin/python G05_unparsable_arguments_repro.py        exit code 1 = defect present
"""
import json
import logging
import os
import shutil
import sys
import tempfile

logging.disable(logging.CRITICAL)
import experiment.model.executors as X

d = os.path.realpath(tempfile.mkdtemp(prefix="g05_"))
try:
    args = '--title "final results --out result.txt'            # the closing quote is missing
    c = X.Command("/bin/echo", arguments=args, workingDir=d, environment={"PATH": "/usr/bin:/bin"}, resolvePath=False)
    try:
        line = c.commandLine
    except ValueError as e:
        print("rendering refused:", e)
        print("ok")
        sys.exit(0)
    print("arguments   :", args)
    print("commandLine : %r" % line)

    # end to end: a real package, the local back-end
    sys.path.insert(0, "/repo")
    from tests.utils import experiment_from_flowir
    import experiment.runtime.backends as B
    tool = os.path.join(d, "tool")
    with open(tool, "w") as f:
        f.write('#!/bin/sh\necho "$# arguments" > nargs.txt\n')
    os.chmod(tool, 0o755)
    flowir = {"components": [{"name": "c", "command": {"executable": tool, "arguments": args}}]}
    import yaml
    exp = experiment_from_flowir(yaml.safe_dump(flowir), d)
    job = exp.graph.nodes["stage0.c"]["componentInstance"]
    task = B.LocalTaskGenerator(job)
    task.wait()
    with open(os.path.join(job.workingDirectory.path, "nargs.txt")) as f:
        seen = f.read().strip()
    print("local task  : exit code %s, exit reason %s, the program saw %s" % (task.returncode, task.exitReason, seen))
    bad = line.strip() == "/bin/echo" or (task.returncode == 0 and seen == "0 arguments")
    print("DEFECT PRESENT: the arguments were dropped and the task succeeded" if bad else "ok")
    sys.exit(1 if bad else 0)
finally:
    shutil.rmtree(d, ignore_errors=True)
