"""C07 repro: a STAGE variable whose value references `%(replica)s` and another variable (`mode`) that the component
overrides.  The running experiment resolves it in the component (mode = fast); conf/flowir_instance.yaml is written by
FlowIRConcrete.instance(is_primitive=True), which resolves what it can at stage scope and stores `r-%(replica)s-normal.dat`:
after a reload every replica runs with another command line.  Run: /venv/bin/python C07_scope_variable_half_resolved_repro.py"""
import os, sys
sys.path.insert(0, os.path.dirname(os.path.abspath(__file__)))
from C07_common_repro import create, reload, facts, cleanup

exp, root = create(None)
before = facts(exp, "arguments")
after = facts(reload(exp, None), "arguments")
bad = 0
for n in before:
    ok = before[n] == after.get(n)
    bad += not ok
    print("%-18s wrote the directory with %-45r reloaded: %r %s" % (n, before[n], after.get(n), "" if ok else "  <-- DIFFERS"))
cleanup(root)
sys.exit(1 if bad else 0)
