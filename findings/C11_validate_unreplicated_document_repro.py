#!/venv/bin/python
"""C11 repro (plain API): keys validate:key:toplevel, validate:key:ovrkey

WorkflowGraph.graphFromFlowIR(..., primitive=False) accepts (a) a misspelled top-level key of the FlowIR document and
(b) an unknown key inside the override of a platform that is not the one loaded: the replicated FlowIR that is validated
is re-built by FlowIRConcrete.instance() from the known fields / the active platform only.  The same documents are refused
with primitive=True and when loaded as a package.  Exit 0 = fixed.
"""
import copy
import logging
import sys

logging.disable(logging.CRITICAL)
import experiment.model.errors as E
import experiment.model.graph as G

base = {'platforms': ['default', 'hpc'],
        'components': [{'name': 'p', 'stage': 0, 'command': {'executable': 'echo', 'arguments': 'x'}}]}


def load(f, primitive):
    try:
        G.WorkflowGraph.graphFromFlowIR(copy.deepcopy(f), {}, primitive=primitive)
        return 'LOADED'
    except E.ExperimentInvalidConfigurationError:
        return 'invalid-configuration'
    except Exception as e:
        return 'LEAK ' + type(e).__name__


docs = []
f = copy.deepcopy(base); f['enviroments'] = {'default': {}}; docs.append(('top-level key `enviroments`', f))
f = copy.deepcopy(base); f['components'][0]['override'] = {'hpc': {'command': {'argumnts': 'y'}}}
docs.append(('override.hpc.command.argumnts (hpc not loaded)', f))
bad = 0
for label, f in docs:
    for primitive in (True, False):
        r = load(f, primitive)
        ok = r == 'invalid-configuration'
        bad += not ok
        print('%-50s primitive=%-5s %-22s %s' % (label, primitive, r, 'ok' if ok else 'DEFECT'))
r = load(base, False)
print('%-50s primitive=False %-22s %s' % ('well-formed document', r, 'ok' if r == 'LOADED' else 'REGRESSION'))
bad += r != 'LOADED'
sys.exit(1 if bad else 0)
