"""C12 / key finish-during-restart-hook:migratable-component-restarted

A component that was finished (ComponentState.finish(SHUTDOWN), e.g. by kill_all_components()) WHILE its restart is being
prepared is restarted anyway when it is MIGRATABLE (workflowAttributes.isMigratable: true):
  * Controller.postMortemCheck() holds no lock; its guard `finishCalled and not isAlive()` is evaluated before
    _restartComponent() and again only when the restart was NOT initiated;
  * for an ordinary component finish() shuts the engine down and Engine.restart() refuses (CannotRestartShutdownEngineError
    is raised right before the engine is re-armed); for a migratable component finish() leaves the engine alone, so nothing
    stops Engine.restart(): Engine.run() is called, a task is launched for a component whose state stays SHUTDOWN.
The interleaving is produced deterministically: the restart hook (which runs inside Engine.restart, after the first guard)
calls finish() on the component, as another thread would while the hook is busy.  Only the task launch is replaced (counter).

    /venv/bin/python C12_finish_during_restart_hook_repro.py          exit 1 = defect reproduced
"""
import builtins, logging, os, sys, tempfile, uuid
logging.disable(logging.CRITICAL)
import yaml
import experiment.model.codes as codes
import experiment.model.data
import experiment.model.storage
import experiment.runtime.control
import experiment.runtime.workflow

HOOK = '''
import builtins
import experiment.model.codes
def Restart(workingDirectory, restarts, componentName, log, exitReason, exitCode):
    builtins._c12_while_the_hook_runs()
    return experiment.model.codes.restartContexts["RestartContextRestartPossible"]
'''


def scenario(migratable):
    location = tempfile.mkdtemp(prefix="c12_repro_")
    package = os.path.join(location, "%s.package" % uuid.uuid4().hex[:8])
    os.makedirs(os.path.join(package, "conf"))
    os.makedirs(os.path.join(package, "hooks"))
    wa = {"restartHookOn": ["ResourceExhausted"]}
    if migratable:
        wa["isMigratable"] = True
    with open(os.path.join(package, "conf", "flowir_package.yaml"), "w") as f:
        yaml.safe_dump({"components": [{"name": "comp", "stage": 0, "command": {"executable": "echo", "arguments": "x"},
                                        "workflowAttributes": wa}]}, f)
    for name, text in (("__init__.py", ""), ("restart.py", HOOK)):
        with open(os.path.join(package, "hooks", name), "w") as f:
            f.write(text)
    pkg = experiment.model.storage.ExperimentPackage.packageFromLocation(package)
    exp = experiment.model.data.Experiment.experimentFromPackage(pkg, location=location)
    exp.validateExperiment(checkExecutables=False)
    comp = experiment.runtime.workflow.ComponentState(exp._stages[0].jobs()[0], exp.experimentGraph)
    controller = experiment.runtime.control.Controller(exp)
    controller.initialise(exp._stages[0], type("S", (), {"monitorComponent": lambda *a, **k: None})())
    starts, armed = [0], [False]

    def run(*a, **k):                      # instead of launching `echo x` on a thread (the real run() launches ~6 s later)
        starts[0] += 1
        armed[0] = True
        comp.engine._runCalled = True
    real_kill = comp.engine.kill

    def kill():                            # a kill before the launch abandons it (a repaired runtime may do exactly that)
        if armed[0]:
            armed[0] = False
            starts[0] -= 1
        real_kill()
    comp.engine.run, comp.engine.kill = run, kill
    comp.run()
    comp.engine._setExitReason(codes.exitReasons["ResourceExhausted"])      # the task ends, restartable
    builtins._c12_while_the_hook_runs = lambda: comp.finish(codes.SHUTDOWN_STATE)
    controller.postMortemCheck(comp.state, comp)                           # the handler of the POSTMORTEM notification
    print("isMigratable=%-5s task starts (not abandoned): %d, Engine.restarts: %d, engine shut down: %s, component state: %s" % (
        migratable, starts[0], comp.engine.restarts, comp.engine.isShutdown, comp.state))
    return starts[0], comp.state


ordinary = scenario(False)
migratable = scenario(True)
assert ordinary == (1, codes.SHUTDOWN_STATE), "baseline changed: %r" % (ordinary,)
bad = migratable[0] > 1
print("DEFECT REPRODUCED: the task of a finished (shut down) migratable component was started again" if bad
      else "not reproduced: the finished component was not restarted")
sys.stdout.flush()
os._exit(1 if bad else 0)
