"""Shared by the C12 repro scripts: a one-component experiment + ComponentState + Controller built with the public API
(the same calls as tests/utils.py).  Only the task launch is replaced (engine.run -> counter), nothing else."""
import logging
import os
import sys
import tempfile
import uuid

logging.disable(logging.CRITICAL)
import experiment.model.codes as codes
import experiment.model.data
import experiment.model.storage
import experiment.runtime.control
import experiment.runtime.workflow


def build(workflow_attributes):
    import yaml
    location = tempfile.mkdtemp(prefix="c12_repro_")
    package = os.path.join(location, "%s.package" % uuid.uuid4().hex[:8])
    os.makedirs(os.path.join(package, "conf"))
    flowir = {"components": [{"name": "comp", "stage": 0, "command": {"executable": "echo", "arguments": "x"},
                              "workflowAttributes": workflow_attributes}]}
    with open(os.path.join(package, "conf", "flowir_package.yaml"), "w") as f:
        yaml.safe_dump(flowir, f)
    pkg = experiment.model.storage.ExperimentPackage.packageFromLocation(package)
    exp = experiment.model.data.Experiment.experimentFromPackage(pkg, location=location)
    exp.validateExperiment(checkExecutables=False)
    job = exp._stages[0].jobs()[0]
    comp = experiment.runtime.workflow.ComponentState(job, exp.experimentGraph)
    controller = experiment.runtime.control.Controller(exp)

    class FakeStatus:
        def monitorComponent(self, *a, **k):
            pass
    controller.initialise(exp._stages[0], FakeStatus())
    starts = [0]

    def run(*a, **k):           # instead of launching `echo x` on a thread
        starts[0] += 1
        comp.engine._runCalled = True
    comp.engine.run = run
    comp.run()
    return exp, comp, controller, starts


def finish(ok_message, bad):
    import shutil
    if bad:
        print("DEFECT REPRODUCED: " + bad)
    else:
        print("not reproduced: " + ok_message)
    sys.stdout.flush()
    os._exit(1 if bad else 0)       # rx pools hold idle worker threads
