#!/venv/bin/python
"""C03 repro (plain API): key replicate:aggregate-with-platform-override-of-references

An aggregating component whose `references` are also given in a platform override.  compile_component_aggregate rewrites
every string of the component (also inside `override`) but re-splits only the top-level `references`, so the override keeps
ONE string 'stage0.sim0:ref stage0.sim1:ref'.  Loading the workflow for that platform puts the override on top: the valid
workflow is refused ("Invalid reference ... too many values to unpack").  On the default platform it loads.
Exit 0 = fixed.   PYTHONPATH=<patched tree>/python /venv/bin/python <this file>
"""
import copy
import logging
import sys

logging.disable(logging.CRITICAL)
import experiment.model.frontends.flowir as FL
import experiment.model.graph as G

flowir = {
    'platforms': ['default', 'hpc'],
    'components': [
        {'name': 'sim', 'stage': 0, 'command': {'executable': 'echo', 'arguments': 'x'}, 'workflowAttributes': {'replicate': 2}},
        {'name': 'agg', 'stage': 0, 'command': {'executable': 'cat', 'arguments': 'sim:ref'}, 'references': ['sim:ref'],
         'workflowAttributes': {'aggregate': True},
         'override': {'hpc': {'references': ['sim:ref'], 'command': {'arguments': 'sim:ref'}}}},
    ]}
bad = 0
for plat in ('default', 'hpc'):
    rep = FL.FlowIRConcrete(copy.deepcopy(flowir), plat, {}).replicate(platform=plat, ignore_errors=True)
    agg = [c for c in rep['components'] if c['name'] == 'agg'][0]
    ovr = (agg.get('override') or {}).get('hpc', {}).get('references')
    try:
        wg = G.WorkflowGraph.graphFromFlowIR(copy.deepcopy(flowir), {}, platform=plat, primitive=False)
        got = sorted(wg.graph.predecessors('stage0.agg'))
        res = 'LOADED, agg consumes %s' % got
        ok = got == ['stage0.sim0', 'stage0.sim1']
    except Exception as e:
        res = 'REFUSED %s: %s' % (type(e).__name__, str(e).splitlines()[-1][:120])
        ok = False
    ok = ok and ovr in (None, ['stage0.sim0:ref', 'stage0.sim1:ref'])
    bad += not ok
    print('%-8s override.hpc.references=%s  %s  %s' % (plat, ovr, res, 'ok' if ok else 'DEFECT'))
sys.exit(1 if bad else 0)
