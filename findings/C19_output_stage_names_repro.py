"""C19 / key roundtrip:output.stages:stage-name-identifier
FlowIR accepts stage identifiers in output.<name>.stages as 0, "0" or "stage0" (FlowIR.stage_identifier_to_stage_index, the
schema and the docstring of FlowIRConcrete.get_output); the legacy file itself spells them stage0.  Dosini._dump_output formats
every entry with 'stage%d' and raises TypeError for the documented "stage0" form.
Exit code 1 = defect present."""
import sys
from C19_common_repro import *

doc = {"components": [component()], "output": {"Out": {"data-in": "c/out.csv:ref", "stages": ["stage0"]}}}
inst = instance_of(doc)
try:
    loaded, text = write_and_read(inst)
    print(text["output.conf"])
    print("read back:", loaded["output"])
    sys.exit(0 if loaded["output"]["Out"]["stages"] == [0] else 1)
except TypeError as e:
    print("Dosini._dump_output raised TypeError: %s" % e)
    sys.exit(1)
