"""C14 / key output.json:fidelity:percent
OutputAgent.updateLogs converts output.txt to output.json with configparser.ConfigParser() (value interpolation on): a
key-output whose file name contains '%' makes the conversion raise InterpolationSyntaxError out of
process_stage()/updateLogs(); output.json is not updated (or never created) although output.txt lists the key output.
Run: /venv/bin/python C14_key_output_percent_repro.py   (exit 1 = defect present)"""
import json, os, sys, tempfile, shutil, logging
logging.disable(logging.CRITICAL)
import yaml
import experiment.model.data, experiment.model.storage
import experiment.runtime.output as O

d = tempfile.mkdtemp()
try:
    pkg = os.path.join(d, "p.package"); os.makedirs(os.path.join(pkg, "conf"))
    flowir = {"components": [{"name": "c", "stage": 0, "command": {"executable": "echo", "arguments": "x"}}],
              "output": {"res": {"data-in": "stage0.c/coverage-100%.txt:copy"}}}
    yaml.safe_dump(flowir, open(os.path.join(pkg, "conf", "flowir_package.yaml"), "w"))
    p = experiment.model.storage.ExperimentPackage.packageFromLocation(pkg)
    exp = experiment.model.data.Experiment.experimentFromPackage(p, location=d)
    wd = exp.graph.nodes["stage0.c"]["componentInstance"].directory
    open(os.path.join(wd, "coverage-100%.txt"), "w").write("data")
    agent = O.OutputAgent(exp)
    rc = 0
    try:
        agent.process_stage(0)
    except Exception as e:
        print("process_stage raised %s: %s" % (type(e).__name__, e)); rc = 1
    out = os.path.realpath(exp.instanceDirectory.outputDir)
    print("output.txt :", open(os.path.join(out, "output.txt")).read().split())
    jp = os.path.join(out, "output.json")
    if os.path.exists(jp):
        got = json.load(open(jp))
        print("output.json:", got)
        rc = rc or got.get("res", {}).get("filename") != "coverage-100%.txt"
    else:
        print("output.json: missing"); rc = 1
    print("DEFECT" if rc else "ok"); sys.exit(rc)
finally:
    shutil.rmtree(d, ignore_errors=True)
    shutil.rmtree(getattr(getattr(exp.instanceDirectory, "shadowDir", None), "instancePath", "/nonexistent"), ignore_errors=True)
