"""Plain reproduction (real Controller / ComponentState / engines / StatusMonitor, real threads; no harness) of a defect
found by growth item G03 (spec/ExperimentLifecycle.tla, property Termination, action Hang):

  G03:signal-before-first-stage-hangs-cleanup
      elaunch.py creates the Controller, then (elaunch.yaml, status database, live-patch set-up, ...) calls Run(), which
      starts the status monitor and calls controller.initialise(stage) for the first time.  A SIGINT / SIGTERM / SIGUSR2
      that arrives in between is turned into KeyboardInterrupt; the `finally:` clause then executes
          statusMonitor.kill(); controller.cleanUp(); controller.workflowIsComplete ... controller_join.wait();
          statusMonitor.join(); <final status update>
      (a) Controller.statusDatabase is only set by the first initialise(): kill_all_components() -> _fake_finish_with_state()
          raises AttributeError for EVERY component (`self.statusDatabase.monitorComponent`), the blanket except records
          the component as done and nothing stops it: the engines stay alive, their state streams never complete and
          controller_join.wait() blocks for ever;
      (b) if the signal arrives before statusMonitor.run(), statusMonitor.join() waits for an event only run()'s thread sets.
      The launcher hangs with status.txt at experiment-state=Initialising, exit-status=N/A; a second signal kills it
      without a final status.

Run:  /venv/bin/python out/proposed_fixes/G03_signal_before_first_stage_repro.py
Exit code 1 = reproduced (clean-up still blocked after 20 s), 0 = the clean-up completes.
"""
import logging
import os
import shutil
import sys
import tempfile
import threading

logging.disable(logging.CRITICAL)
sys.path.insert(0, os.path.join(os.path.dirname(os.path.dirname(os.path.dirname(os.path.abspath(__import__("experiment").__file__)))), "tests"))
import utils as test_utils
import experiment.runtime.output

FLOWIR = """
components:
- name: first
  stage: 0
  command:
    executable: sleep
    arguments: "1"
- name: second
  stage: 1
  references: [stage0.first:ref]
  command:
    executable: ls
    arguments: stage0.first:ref
"""


def main():
    d = tempfile.mkdtemp(prefix="g03_early_signal_repro_")
    try:
        exp = test_utils.experiment_from_flowir(FLOWIR, d)
        controller, comps = test_utils.new_controller(exp)          # Controller(...) as elaunch.py builds it; no initialise() yet
        monitor = experiment.runtime.output.StatusMonitor(exp)
        # --- KeyboardInterrupt here: the finally clause of elaunch.py ---
        monitor.kill()
        controller.cleanUp()
        joined = threading.Event()
        controller.workflowIsComplete.subscribe(on_completed=joined.set, on_error=lambda e: joined.set())
        ok_a = joined.wait(20)
        states = {n: (controller.get_compstate(n).state, controller.get_compstate(n).engine.isAlive(), n in controller.comp_done)
                  for n in controller.graph.nodes}
        print("(a) 20 s after cleanUp(): workflowIsComplete %s; component -> (state, engine alive, recorded done): %s" % (
            "completed" if ok_a else "has NOT completed", states))
        t = threading.Thread(target=monitor.join, daemon=True)
        t.start()
        t.join(5)
        ok_b = not t.is_alive()
        print("(b) StatusMonitor.join() of a monitor that was never started %s" % ("returned" if ok_b else "is STILL BLOCKED after 5 s"))
        return 0 if (ok_a and ok_b) else 1
    finally:
        shutil.rmtree(d, ignore_errors=True)


if __name__ == "__main__":
    rc = main()
    print("DEFECT G03:signal-before-first-stage-hangs-cleanup REPRODUCED" if rc == 1 else "the clean-up completes")
    os._exit(rc)
