"""C05 repro: from the 10th extra iteration on, a reference from outside the loop resolves to iteration 9 and
aggregate references list the iterations in the order 0,1,10,11,2,...   Run: /venv/bin/python C05_iteration_order_k10_repro.py
Cause: iteration numbers compared as strings in graph.py (_discover_dowhile_placeholders, looped_reference_to_paths)."""
import os, sys
sys.path.insert(0, os.path.dirname(os.path.abspath(__file__)))
from C05_common_repro import build, cleanup
import experiment.model.graph as G

DOWHILE = """
type: DoWhile
inputBindings: {number: {type: output}}
loopBindings: {number: "add:output"}
condition: "add:output"
components:
- name: add
  command: {executable: echo, arguments: "number:output"}
  references: ["number:output"]
"""
MAIN = """
components:
- {name: gen, stage: 0, command: {executable: echo, arguments: "0"}}
- {name: loop, stage: 1, $import: dowhile.yaml, bindings: {number: "stage0.gen:output"}}
- name: report
  stage: 2
  command: {executable: echo, arguments: "stage1.add:ref stage1.add:loopref"}
  references: ["stage1.add:ref", "stage1.add:loopref"]
"""
exp, root = build(MAIN, DOWHILE)
wg = exp.experimentGraph
doc = wg._documents["DoWhile"]["stage1.loop"]["document"]
bad = 0
for k in range(1, 12):
    wg.instantiate_dowhile_next_iteration(doc, k, True)
    latest = wg._placeholders["stage1.add"]["latest"]
    ref = os.path.basename(G.DataReference("stage1.add:ref").resolve(wg))
    order = [os.path.basename(p).split("#")[0] for p in G.DataReference("stage1.add:loopref").resolve(wg).split()]
    state = wg._documents["DoWhile"]["stage1.loop"]["state"]
    ok = latest == "stage1.%d#add" % k and ref == "%d#add" % k and order == [str(i) for i in range(k + 1)]
    print("k=%2d latest=%-14s :ref->%-7s :loopref order=%s currentIteration=%d %s" % (
        k, latest, ref, ",".join(order), state["currentIteration"], "" if ok else "   <-- WRONG"))
    bad += not ok
cleanup(root)
sys.exit(1 if bad else 0)
