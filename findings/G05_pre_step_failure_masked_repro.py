"""G05 finding: failed-pre-step-does-not-stop-chain   (plain script; real lsf.Task + executors, a stub for the LSF binding)

lsf.Task hands its pre commands to LSF as ONE pre-exec command line, joined with "; " (and AggregatedCommand joins with " ;").
LSF starts the job iff that line exits with 0 -- and the exit status of "a; b; c" is that of c.  The task appends its own steps
(`cat $LSB_AFFINITY_HOSTFILE > .../affinity.txt`, for hybrid jobs the "started" notification) AFTER the caller's, so a failing
stage-in (bstage in ...) is followed by commands that succeed: the pre-exec "succeeds" and main runs without its input data.

The script builds the real Task with a failing first pre command, then lets /bin/sh run the submitted pre-exec line.
Run:  /venv/bin/python G05_pre_step_failure_masked_repro.py        exit code 1 = defect present
"""
import os
import shutil
import subprocess
import sys
import tempfile

sys.path.insert(0, os.path.dirname(os.path.abspath(__file__)))
import G05_common_repro as common

L, stub = common.install()
import experiment.model.executors as X

d = os.path.realpath(tempfile.mkdtemp(prefix="g05_"))
try:
    wd = os.path.join(d, "wd")
    os.makedirs(wd)
    stage_in = X.Command("/bin/sh", "-c 'echo stage-in FAILED >> %s/log; exit 1'" % d, workingDir=wd, environment={}, resolveShellSubstitutions=False)
    second = X.Command("/bin/sh", "-c 'echo second pre step ran >> %s/log'" % d, workingDir=wd, environment={}, resolveShellSubstitutions=False)
    main = X.Command("/bin/echo", "main", workingDir=wd, environment={}, resolvePath=False)
    with open(os.path.join(d, "out"), "w+b") as out:
        task = L.Task(main, preCommands=[stage_in, second], postCommands=[], options={"queue": "normal"},
                      resourceRequest={"numberProcesses": 1, "ranksPerNode": 1, "numberThreads": 1, "threadsPerCore": 1}, stdout=out, stderr=out)
    pre = stub.submitted.preExecCmd
    print("pre-exec command line handed to LSF:\n  ", pre)
    p = subprocess.run(["/bin/sh", "-c", pre], cwd=wd, env={"PATH": "/usr/bin:/bin", "LSB_AFFINITY_HOSTFILE": "/dev/null"})
    print("log:", open(os.path.join(d, "log")).read().strip().replace("\n", " | "))
    print("exit status of the pre-exec line: %d  -> LSF %s" % (p.returncode, "starts main" if p.returncode == 0 else "does not start main"))
    bad = p.returncode == 0
    print("DEFECT PRESENT: the stage-in failure is masked" if bad else "ok")
    sys.exit(1 if bad else 0)
finally:
    shutil.rmtree(d, ignore_errors=True)
