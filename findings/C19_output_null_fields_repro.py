"""C19 / key roundtrip:output:null-description-or-type:second-round
An output entry without description/type is read back by Dosini.parse_output with description=None, type=None.  Writing that
description again (it is an instance like any other) stores the text 'None': _dump_output tests `key in entry`, not the value.
Exit code 1 = defect present."""
import sys
from C19_common_repro import *

doc = {"components": [component()], "output": {"Out": {"data-in": "stage0.c/out.csv:copy"}}}
first, _ = write_and_read(instance_of(doc))
print("first read :", first["output"])
second, text = write_and_read(instance_of(first))
print(text["output.conf"])
print("second read:", second["output"])
sys.exit(0 if second["output"] == first["output"] else 1)
