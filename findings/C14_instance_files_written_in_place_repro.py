"""C14 / keys flowir_instance.yaml:OpenLive, manifest.yaml:OpenLive
FlowIRExperimentConfiguration.store_unreplicated_flowir_to_disk (called after every DoWhile iteration, graph.py:3101) and
_generate_instance_files open conf/flowir_instance.yaml / conf/manifest.yaml with open(path, 'w'): the live file is
truncated and then filled write by write.  A process that dies (or an I/O error) in between leaves a truncated instance
description: the instance no longer loads, or silently loads with fewer components.
The script interrupts the update after k writes (an exception no handler catches = the process dying) for every k.
Run: /venv/bin/python C14_instance_files_written_in_place_repro.py   (exit 1 = defect present)"""
import os, sys, tempfile, shutil, logging, builtins, uuid
logging.disable(logging.CRITICAL)
import yaml
import experiment.model.conf as C
import experiment.model.data, experiment.model.storage

d = tempfile.mkdtemp()
try:
    pkg = os.path.join(d, "p.package"); os.makedirs(os.path.join(pkg, "conf"))
    flowir = {"components": [{"name": "c%d" % i, "stage": 0, "command": {"executable": "echo", "arguments": "x"}} for i in range(3)]}
    yaml.safe_dump(flowir, open(os.path.join(pkg, "conf", "flowir_package.yaml"), "w"))
    p = experiment.model.storage.ExperimentPackage.packageFromLocation(pkg)
    exp = experiment.model.data.Experiment.experimentFromPackage(p, location=d)
    conf = exp.experimentGraph.configuration
    inst = exp.instanceDirectory.location
    live = os.path.join(inst, "conf", "flowir_instance.yaml")

    def components(path):
        c = C.ExperimentConfigurationFactory.configurationForExperiment(path, is_instance=True, createInstanceFiles=False,
                                                                        updateInstanceFiles=False)
        return sorted(x["name"] for x in c.get_unreplicated_flowir().raw()["components"])
    old = components(inst)
    conf._unreplicated.add_component({"stage": 0, "name": "added-by-loop", "command": {"executable": "echo"}})
    new = sorted(old + ["added-by-loop"])

    class Die(BaseException):
        pass

    class Dying:
        def __init__(self, f, k): self.f, self.k = f, k
        def write(self, data):
            if self.k == 0:
                self.f.flush(); raise Die()
            self.k -= 1
            return self.f.write(data)
        def __enter__(self): return self
        def __exit__(self, *a): self.f.close(); return False
        def __getattr__(self, n): return getattr(self.f, n)
    outcomes = {}
    for k in range(0, 400, 7):
        C.open = lambda p_, mode="r", *a, **kw: Dying(builtins.open(p_, mode, *a, **kw), k) if "w" in mode else builtins.open(p_, mode, *a, **kw)
        try:
            conf.store_unreplicated_flowir_to_disk()
            died = False
        except Die:
            died = True
        finally:
            del C.open
        opened_live = not [f for f in os.listdir(os.path.dirname(live)) if f.endswith(".tmp")]
        try:
            got = components(inst)
            what = "old" if got == old else "new" if got == new else "THIRD VERSION %s" % got
        except Exception as e:
            what = "UNLOADABLE (%s)" % type(e).__name__
        outcomes.setdefault(what, []).append(k)
        if not died:
            break
    for what, ks in outcomes.items():
        print("%-40s when the process dies after k writes, k in %s" % (what, ks[:12] + (["..."] if len(ks) > 12 else [])))
    bad = [w for w in outcomes if w not in ("old", "new")]
    print("DEFECT: a crash during the update leaves neither the previous nor the new instance description" if bad else "ok")
    sys.exit(1 if bad else 0)
finally:
    shutil.rmtree(d, ignore_errors=True)
    shutil.rmtree(getattr(getattr(exp.instanceDirectory, "shadowDir", None), "instancePath", "/nonexistent"), ignore_errors=True)
