"""G01 repro (divergence class restart-then-exit-before-any-alive-snapshot of the FakeEngine contract test, behaviour
[.., Restart, Kill] of spec/EngineLifecycle.tla): Engine.restart() re-enters run() without emitting anything.  isAlive=True
reaches the subscribers of stateUpdates only with the next snapshot (the 5 s clock, or the launch 6 s later).  If the
restarted execution ends before that -- a kill() during the start delay -- the stream goes
        {isAlive: False, engineExitReason: ResourceExhausted} ... {isAlive: False, engineExitReason: Killed}
with no isAlive=True in between: a consumer that tracks CHANGES of isAlive (workflow.ComponentState: RUNNING <-> POSTMORTEM,
its own filter drops unchanged states) sees ONE death for two executions, i.e. no POSTMORTEM notification for the second exit.

Real Engine, real thread pools, no harness.   Run:  /venv/bin/python /verif/out/proposed_fixes/G01_silent_reexit_after_restart_repro.py
(the outcome depends on where the 5 s clock stands when restart() is called: the script aligns the restart right after a tick)
"""
import os
import sys
import time

sys.path.insert(0, os.path.dirname(os.path.abspath(__file__)))
from G01_common_repro import StubTask, make_job, lifecycle, engine

import reactivex

exp, job = make_job()
tasks = []


def gen(job):
    tasks.append(StubTask("ResourceExhausted", 24))
    return tasks[-1]


e = engine.Engine(job, gen)
seen = []
stamps = []
e.stateUpdates.subscribe(on_next=lambda x: (seen.append(lifecycle(x[0])), stamps.append(time.time())))
e.run(startObservable=reactivex.just(0))
t0 = time.time()
while not tasks and time.time() - t0 < 20:
    time.sleep(0.05)
tasks[0].finish()
while e.isAlive():
    time.sleep(0.02)
# wait for the next clock tick (it re-emits the clobbered exit reason, see the other G01 repro), then restart right after it
n = len(seen)
t0 = time.time()
while len(seen) == n and time.time() - t0 < 8:
    time.sleep(0.01)
code = e.restart()
e.kill()
t0 = time.time()
while e.isAlive() and time.time() - t0 < 10:
    time.sleep(0.02)
time.sleep(0.5)
print("restart() ->", code, "; engine now:", e.exitReason())
alive_values = [u["isAlive"] for u in seen if "isAlive" in u]
for u in seen:
    if u:
        print("  update:", u)
changes = [v for i, v in enumerate(alive_values) if i == 0 or alive_values[i - 1] != v]
print("isAlive changes seen by a consumer:", changes)
e.shutdown()
time.sleep(0.5)
if code == "RestartInitiated" and e.exitReason() == "Killed" and changes.count(False) == 1:
    print("OBSERVED: two executions ended (ResourceExhausted, then Killed) but the stream shows a single transition to isAlive=False")
    sys.exit(1)
print("not reproduced in this run (a clock tick fell between restart() and kill())")
