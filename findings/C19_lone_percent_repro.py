"""C19 / key roundtrip:value:lone-percent
A value with a '%' that is not a %(name)s reference (date +%Y, awk/printf formats, "100%") is legal in FlowIR and in a legacy
file (the loader reads every option with raw=True), but FlowConfigParser is a ConfigParser with BasicInterpolation, whose
set() validates the syntax: Dosini.dump raises ValueError and no instance file is written.  Same for variables, environment
values, status arguments and output descriptions.
Exit code 1 = defect present."""
import sys
from C19_common_repro import *

rc = 0
docs = {
    "command.arguments": {"components": [component(command={"arguments": "+%Y-%m-%d"})]},
    "a variable": {"components": [component()], "variables": {"default": {"global": {"fmt": "%H:%M"}}}},
    "an environment value": {"components": [component()], "environments": {"default": {"env": {"PS1": "%n@%m"}}}},
    "an output description": {"components": [component()], "output": {"Out": {"data-in": "stage0.c/out:ref", "description": "yield in %"}}},
}
for what, doc in docs.items():
    inst = instance_of(doc)
    try:
        loaded, text = write_and_read(inst)
        same = resolved(inst) == resolved(loaded)
        print("%-22s written and read back, same=%s" % (what, same))
        rc |= 0 if same else 1
    except ValueError as e:
        print("%-22s Dosini.dump raised ValueError: %s" % (what, e))
        rc = 1
# the legacy FILE can carry the value: the loader reads it unchanged
import tempfile, os
d = tempfile.mkdtemp(); os.makedirs(os.path.join(d, "stages.d"))
open(os.path.join(d, "stages.d", "stage0.instance.conf"), "w").write("[c]\nexecutable = date\narguments = +%Y-%m-%d\n")
open(os.path.join(d, "experiment.instance.conf"), "w").write("")
print("loader reads:", dosini.Dosini().load_from_directory(d, [], {}, is_instance=True)["components"][0]["command"])
shutil.rmtree(d)
# production path: a legacy PACKAGE with such a value loads, but its instance files cannot be written
import experiment.model.conf as conf
root = tempfile.mkdtemp(); os.makedirs(os.path.join(root, "conf", "stages.d"))
open(os.path.join(root, "conf", "experiment.conf"), "w").write("")
open(os.path.join(root, "conf", "stages.d", "stage0.conf"), "w").write("[c]\nexecutable = date\narguments = +%Y-%m-%d\n")
try:
    conf.DOSINIExperimentConfiguration(root, "default", [], {}, is_instance=False, createInstanceFiles=True, primitive=True)
    print("DOSINIExperimentConfiguration wrote the instance files")
except ValueError as e:
    print("DOSINIExperimentConfiguration(createInstanceFiles=True) raised ValueError: %s" % e)
    rc = 1
shutil.rmtree(root)
sys.exit(rc)
