#!/venv/bin/python
"""C11 repro (plain API calls): wrongly typed numeric options that load.  /venv/bin/python <this file>
(PYTHONPATH=<patched tree>/python shows the repaired behaviour)

 validate:type:bool-for-int / bool-for-float
     resourceRequest.numberProcesses: true, workflowAttributes.maxRestarts: true, resourceManager.config.walltime: true ...
     load with validation enabled (bool is a subclass of int: int(True) == 1, float(True) == 1.0), while 2.5, "two", [2]
     for the same options are refused.
 validate:type:ffrac-for-int:replicate, validate:type:bool-for-int:replicate
     workflowAttributes.replicate: 2.5 loads and silently becomes 2 copies (FlowIR.apply_replicate converts with int());
     replicate: true becomes 1 copy.  Every other integer option refuses 2.5.
"""
import logging
import sys

logging.disable(logging.CRITICAL)
import experiment.model.errors as E
import experiment.model.graph as G


def load(section, key, value):
    comp = {"name": "p", "stage": 0, "command": {"executable": "echo", "arguments": "-x"}}
    d = comp
    for k in section:
        d = d.setdefault(k, {})
    d[key] = value
    try:
        wg = G.WorkflowGraph.graphFromFlowIR({"components": [comp]}, {}, primitive=False)
        return "LOADED %s" % sorted(wg.graph.nodes)
    except E.ExperimentInvalidConfigurationError:
        return "invalid-configuration"
    except Exception as e:
        return "LEAK %s" % type(e).__name__


bad = 0
for section, key, value in ((("resourceRequest",), "numberProcesses", True), (("workflowAttributes",), "maxRestarts", True),
                            (("resourceManager", "config"), "walltime", True), (("workflowAttributes",), "replicate", 2.5),
                            (("workflowAttributes",), "replicate", True)):
    r = load(section, key, value)
    ok = r == "invalid-configuration"
    bad += not ok
    print("%-36s -> %-40s %s" % ("%s.%s: %r" % (".".join(section), key, value), r, "ok" if ok else "DEFECT"))
for section, key, value in ((("resourceRequest",), "numberProcesses", "2"), (("resourceManager", "config"), "walltime", 2),
                            (("workflowAttributes",), "replicate", "2"), (("workflowAttributes",), "replicate", 2.0)):
    r = load(section, key, value)
    ok = r.startswith("LOADED")
    bad += not ok
    print("%-36s -> %-40s %s" % ("%s.%s: %r" % (".".join(section), key, value), r, "ok (documented conversion)" if ok else "REGRESSION"))
sys.exit(1 if bad else 0)
