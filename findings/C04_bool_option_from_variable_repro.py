#!/venv/bin/python
"""C04 finding (keys typed:bool-false-as-text, typed:bool-option-not-converted).

A boolean option of a component that takes its value from a variable (the schema explicitly allows a variable
reference for workflowAttributes.isMigratable, workflowAttributes.optimizer.disable,
workflowAttributes.memoization.disable.strong / fuzzy) does not end up with the value / type it was given:

 * isMigratable / optimizer.disable: FlowIR.convert_component_types converts with bool(text), and bool("False") is
   True: a variable that is false makes the option TRUE.
 * memoization.disable.strong / fuzzy: not converted at all, the resolved configuration holds the text "True"/"False"
   and the validating loader then rejects the package ("valid choices are variable reference, bool").

Plain API calls, no harness.  Exit code 1 = defect present, 0 = fixed.
"""
import logging
import sys
logging.disable(logging.CRITICAL)
import experiment.model.frontends.flowir as FL
import experiment.model.conf as conf
import experiment.model.errors as E


def resolve(option, value, validate):
    comp = {'name': 'c', 'stage': 0, 'command': {'executable': 'echo', 'arguments': 'x'}, 'variables': {'flag': value}}
    tgt = comp
    path = option.split('.')
    for p in path[:-1]:
        tgt = tgt.setdefault(p, {})
    tgt[path[-1]] = '%(flag)s'
    flowir = {'components': [comp]}
    cf = conf.FlowIRExperimentConfiguration(path=None, platform='default', variable_files=[], system_vars={}, is_instance=False,
                                            createInstanceFiles=False, primitive=True, concrete=FL.FlowIRConcrete(flowir, 'default', {}),
                                            updateInstanceFiles=False, validate=validate)
    r = cf._concrete.get_component_configuration((0, 'c'), raw=False, include_default=True)
    for p in path:
        r = r[p]
    return r


bad = 0
for option in ('workflowAttributes.isMigratable', 'workflowAttributes.optimizer.disable',
               'workflowAttributes.memoization.disable.strong', 'workflowAttributes.memoization.disable.fuzzy', 'command.resolvePath'):
    for value in (True, False, 'true', 'false'):
        want = value if isinstance(value, bool) else value == 'true'
        got = resolve(option, value, validate=False)
        try:
            resolve(option, value, validate=True)
            loader = 'accepted'
        except E.ExperimentInvalidConfigurationError:
            loader = 'REJECTED'
        ok = got is want and loader == 'accepted'
        bad += not ok
        print('%-50s "%%(flag)s" with flag=%-7r -> %-8r loader: %s %s' % (option, value, got, loader, '' if ok else '   <-- wrong'))
print('defect present' if bad else 'ok')
sys.exit(1 if bad else 0)
