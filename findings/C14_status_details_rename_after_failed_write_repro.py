"""C14 / key status_details.json:RenameUnfinished
StatusMonitor.try_generate_status_details writes a temp file and renames it over output/status_details.json EVEN WHEN
THE WRITE FAILED (the rename is not in an `else:` branch): an I/O error (disk full) while dumping replaces the complete
previous file with a truncated one that json.load rejects.
Run: /venv/bin/python C14_status_details_rename_after_failed_write_repro.py   (exit 1 = defect present)"""
import json, os, sys, tempfile, shutil, logging, threading, types, builtins
logging.disable(logging.CRITICAL)
import experiment.runtime.output as O

d = tempfile.mkdtemp()
try:
    out = os.path.join(d, "output"); os.makedirs(out)
    live = os.path.join(out, "status_details.json")
    doc = {"v": 1}
    mon = O.StatusMonitor.__new__(O.StatusMonitor)          # only the attributes the method reads
    mon.mtx_compute_status = threading.RLock()
    mon.log = logging.getLogger("x")
    mon._status_database = types.SimpleNamespace(getWorkflowStatus=lambda json_friendly=True: doc)
    exp = types.SimpleNamespace(instanceDirectory=types.SimpleNamespace(outputDir=out))
    mon.weakExperiment = lambda: exp
    mon.try_generate_status_details()
    print("version 1 on disk:", json.load(open(live)))

    class Failing:                                           # a file whose 3rd write fails (ENOSPC)
        def __init__(self, f): self.f, self.n = f, 0
        def write(self, data):
            self.n += 1
            if self.n == 3:
                self.f.flush(); raise OSError(28, "No space left on device")
            return self.f.write(data)
        def __enter__(self): return self
        def __exit__(self, *a): self.f.close(); return False
        def __getattr__(self, k): return getattr(self.f, k)
    O.open = lambda p, mode="r", *a, **k: Failing(builtins.open(p, mode, *a, **k)) if "w" in mode else builtins.open(p, mode, *a, **k)
    doc = {"v": 2, "more": ["x"] * 5}
    mon.try_generate_status_details()
    del O.open
    raw = open(live).read()
    print("after the failed update the file holds %r" % raw)
    try:
        got = json.loads(raw)
    except ValueError as e:
        print("DEFECT: neither version 1 nor version 2, unloadable:", e); sys.exit(1)
    print("ok" if got in ({"v": 1}, doc) else "DEFECT"); sys.exit(0 if got in ({"v": 1}, doc) else 1)
finally:
    shutil.rmtree(d, ignore_errors=True)
