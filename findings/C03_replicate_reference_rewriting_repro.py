#!/venv/bin/python
"""C03 repro (plain API calls, no harness): replication rewrites references textually, not on reference boundaries.

Four input classes, all valid acyclic workflows; run with  /venv/bin/python <this file>
(PYTHONPATH=<patched tree>/python to see the repaired behaviour).

 1. replicate:ref-to-replicated-producer-is-substring-of-other-ref
      `a` (replicate: 2) next to `ba`; consumer `c` references both  ->  `ba:ref` becomes `bstage0.a0:ref`;
      the valid workflow is rejected ("Unknown reference").
 2. replicate:replicated-producers-named-X-and-Xdigit
      `a` and `a1` both replicate: 2, consumer references them in the absolute spelling -> copy 1 gets
      `stage0.stage0.a11:ref` (the output of one rewrite is rewritten again); rejected.
 3. replicate:same-name-in-other-stage-as-replicated-producer
      stage0.a (replicate: 2) and stage1.a (single); stage1.c references `stage0.a:ref` and `a:ref` (= stage1.a)
      -> LOADS, but `a:ref` was rewritten to `stage0.a<i>:ref`: the edge stage1.a -> c is silently lost.
 4. replicate:aggregator-mentions-replicated-ref-with-two-paths
      aggregating `c` with arguments `a:ref/x.txt a:ref/y.txt` -> LOADS with
      `a0:ref/x.txt a1:ref/x.txt a0:ref/x.txt a1:ref/x.txt`: y.txt is silently replaced by x.txt.
"""
import logging
import sys

logging.disable(logging.CRITICAL)
import experiment.model.graph as G


def comp(name, stage=0, args="x", refs=None, rep=None, agg=None):
    c = {"name": name, "stage": stage, "command": {"executable": "echo", "arguments": args}}
    if refs:
        c["references"] = refs
    wa = {}
    if rep is not None:
        wa["replicate"] = rep
    if agg is not None:
        wa["aggregate"] = agg
    if wa:
        c["workflowAttributes"] = wa
    return c


def load(components):
    try:
        wg = G.WorkflowGraph.graphFromFlowIR({"components": components}, {}, primitive=False)
    except Exception as e:
        return "REJECTED %s: %s" % (type(e).__name__, str(e).splitlines()[-1][:160]), None
    out = {}
    for n in sorted(wg.graph.nodes):
        conf = wg.configurationForNode(n, raw=True)
        out[n] = (sorted(wg.graph.predecessors(n)), conf["references"], conf["command"]["arguments"])
    return "LOADED", out


bad = 0

st, g = load([comp("a", rep=2), comp("ba"), comp("c", args="a:ref ba:ref", refs=["a:ref", "ba:ref"])])
ok = st == "LOADED" and g["stage0.c1"][0] == ["stage0.a1", "stage0.ba"]
print("1 suffix name      :", "ok" if ok else "DEFECT", st)
bad += not ok

st, g = load([comp("a", rep=2), comp("a1", rep=2),
              comp("c", args="stage0.a:ref stage0.a1:ref", refs=["stage0.a:ref", "stage0.a1:ref"])])
ok = st == "LOADED" and g["stage0.c1"][0] == ["stage0.a1", "stage0.a11"]
print("2 X and Xdigit     :", "ok" if ok else "DEFECT", st)
bad += not ok

st, g = load([comp("a", rep=2), comp("a", stage=1),
              comp("c", stage=1, args="stage0.a:ref a:ref", refs=["stage0.a:ref", "a:ref"])])
ok = st == "LOADED" and g["stage1.c0"][0] == ["stage0.a0", "stage1.a"]
print("3 same name/stages :", "ok" if ok else "DEFECT", st, g and g.get("stage1.c0"))
bad += not ok

st, g = load([comp("a", rep=2), comp("c", args="a:ref/x.txt a:ref/y.txt", refs=["a:ref"], agg=True)])
ok = st == "LOADED" and g["stage0.c"][2].split() == ["stage0.a0:ref/x.txt", "stage0.a1:ref/x.txt",
                                                     "stage0.a0:ref/y.txt", "stage0.a1:ref/y.txt"]
print("4 two paths in agg :", "ok" if ok else "DEFECT", st, g and g.get("stage0.c"))
bad += not ok

sys.exit(1 if bad else 0)
