"""C12 / key repeating:maxRestarts-0-not-honoured

workflowAttributes.maxRestarts: 0 means "cannot restart at all" (Engine.restart docstring).  RepeatingEngine.restart never
reads maxRestarts: a repeating component whose last task ended with ResourceExhausted is restarted once anyway.

    /venv/bin/python C12_repeating_maxrestarts0_repro.py
"""
import os, sys, types
sys.path.insert(0, os.path.dirname(os.path.abspath(__file__)))
from C12_common_repro import build, finish, codes
import experiment.runtime.engine as engine_module
import threading

exp, comp, controller, starts = build({"maxRestarts": 0, "repeatInterval": 5})
eng = comp.engine
assert isinstance(eng, engine_module.RepeatingEngine)
# the repeating kernel was told to stop and its last task ended with ResourceExhausted (what RepeatingEngine.exitReason reads)
eng.cancelMonitorEvent.set()
eng.process = types.SimpleNamespace(exitReason=codes.exitReasons["ResourceExhausted"], returncode=1, isAlive=lambda: False)
eng.kernelCompleted = True
assert eng.exitReason() == "ResourceExhausted"
launched = []
real_thread = threading.Thread
engine_module.threading = types.SimpleNamespace(            # do not really launch `echo`: record the restart thread
    Thread=lambda target=None, **k: types.SimpleNamespace(start=lambda: launched.append(target)),
    RLock=threading.RLock, Event=threading.Event, currentThread=threading.current_thread)
code = controller._restartComponent(comp)
print("maxRestarts=0, repeating: _restartComponent -> %s, Engine.restarts=%d, restart threads started=%d" % (
    code, eng.restarts, len(launched)))
finish("a repeating component with maxRestarts 0 is not restarted",
       "restarted although maxRestarts is 0" if code == codes.restartCodes["RestartInitiated"] else "")
