"""C14 / key status.txt:fidelity:error-description:leadblank
Status.__init__ strips every value it is given, also the ones Status.statusFromFile() has just read and un-escaped: an
error description that starts (or ends) with blanks -- e.g. an indented traceback line -- is not read back as written.
Run: /venv/bin/python C14_status_description_blanks_stripped_repro.py   (exit 1 = defect present)"""
import os, sys, tempfile, shutil, logging
logging.disable(logging.CRITICAL)
import experiment.model.data as D

d = tempfile.mkdtemp()
try:
    path = os.path.join(d, "status.txt")
    st = D.Status(path, {}, ["stage0"])
    text = "    raise ValueError('x')  "
    st.setErrorDescription(text)
    assert st.update()
    got = D.Status.statusFromFile(path).data["error-description"]
    print("written  %r\nread back %r" % (text, got))
    print("DEFECT" if got != text else "ok")
    sys.exit(1 if got != text else 0)
finally:
    shutil.rmtree(d, ignore_errors=True)
