"""G06:kill-gives-up-when-a-request-fails-or-two-pods -- kill() is lost when the API hiccups (or the job has two pods).

(a) the API answers 503 while kill() runs: terminate() logs a warning and returns, nothing remembers the request, later polls do
    not retry: the task stays alive and the Job keeps running although the API is healthy again (the Engine calls kill() once and
    then waits for the task to end).
(b) the job has two pods at the moment of kill() (old pod terminating, replacement created): terminate() returns before the
    deletion; after 3 polls the task gives up with SystemIssue and the Job is still in the cluster.
(c) the API server is unreachable (connection refused) at the deletion: a urllib3 MaxRetryError escapes from kill().
Run: /venv/bin/python G06_kill_lost_repro.py      (exit 1 = defect reproduced)
"""
import G06_common_repro as C

cluster = C.install()
bad = []

# (a)
task = C.new_task()
cluster.job_status = dict(C.JOB_ACTIVE)
cluster.pods = [C.POD_RUNNING]
C.watch(task, 0.5, "(a) running:")
cluster.fail = lambda name, n: 503
task.kill()
cluster.fail = lambda name, n: None
C.watch(task, 1.5, "(a) kill() during a 503 outage, then 7 healthy polls:")
print("    job still in the cluster:", cluster.job_status is not None)
if task.isAlive() and cluster.job_status is not None:
    bad.append("(a) kill() during an API outage is forgotten")
cluster.job_status = None       # let the first task end

# (b)
task = C.new_task()
cluster.job_status = dict(C.JOB_ACTIVE)
cluster.pods = [C.POD_RUNNING]
C.watch(task, 0.5, "(b) running:")
cluster.pods = [C.POD_RUNNING, C.POD_PENDING]
task.kill()
C.watch(task, 0.1, "(b) kill() while the job has two pods:")
print("    job still in the cluster:", cluster.job_status is not None)
if cluster.job_status is not None:
    bad.append("(b) kill() does not delete a job that has two pods")
C.watch(task, 1.0, "(b) four polls later:")
print("    job still in the cluster:", cluster.job_status is not None)
cluster.job_status = None

# (c)
task = C.new_task()
cluster.job_status = dict(C.JOB_ACTIVE)
cluster.pods = [C.POD_RUNNING]
C.watch(task, 0.5, "(c) running:")
cluster.fail = lambda name, n: "conn" if name == "delete_job" else None
try:
    task.kill()
    print("(c) kill() returned")
except Exception as e:
    print("(c) kill() raised %s" % type(e).__name__)
    bad.append("(c) %s escapes from kill()" % type(e).__name__)
cluster.fail = lambda name, n: None
C.finish(not bad, "; ".join(bad) if bad else "every kill ended the task")
