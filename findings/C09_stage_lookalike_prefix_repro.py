"""C09 -- a producer name whose first dot-segment merely STARTS with stage<N> is parsed as a stage prefix.

Run:  /venv/bin/python C09_stage_lookalike_prefix_repro.py      (exit 1 while the defect is present)

FlowIR.ParseProducerReference documents "$stageName ... Must be stage$i" but tests the text before the first `.` with
re.match, which only anchors at the start: `stage1x.foo` is read as stage 1, component `foo`.  Printing the parts gives
`stage1.foo:ref`, a different reference; the relative and the absolute spelling of the component `stage1x.foo` name
different producers, and a valid workflow is rejected.
"""
import logging
import sys

logging.disable(logging.CRITICAL)
import experiment.model.errors
import experiment.model.frontends.flowir as FL
import experiment.model.graph as G

F = FL.FlowIR
bad = 0
s = 'stage1x.foo:ref'
parts = F.ParseDataReferenceFull(s, 0)
print("ParseDataReferenceFull(%r, 0) == %r   (expected (0, 'stage1x.foo', None, 'ref'))" % (s, parts))
printed = F.compile_reference(parts[1], parts[2], parts[3], F.ParseProducerReference(F.ParseDataReference(s)[0])[0])
print("printing the parts gives %r   (expected %r)" % (printed, s))
if printed != s:
    bad = 1
rel, ab = G.DataReference(s, 0), G.DataReference('stage0.stage1x.foo:ref', 0)
print("relative spelling names %r, absolute spelling names %r" % (rel.producerIdentifier.identifier, ab.producerIdentifier.identifier))
if rel.producerIdentifier.identifier != ab.producerIdentifier.identifier:
    bad = 1
doc = {'components': [
    {'name': 'stage1x.foo', 'stage': 0, 'command': {'executable': 'echo', 'arguments': 'hi'}},
    {'name': 'consumer', 'stage': 0, 'references': [s], 'command': {'executable': 'ls', 'arguments': s}}]}
errors = FL.FlowIRConcrete(doc, 'default', {}).validate()
print("validate():", [str(e)[:150] for e in errors] or "accepted")
if errors:
    bad = 1
sys.exit(bad)
