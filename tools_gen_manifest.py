#!/venv/bin/python
"""Regenerates MANIFEST.json from the table below (single source of truth for the registered checks)."""
import json, os
HERE = os.path.dirname(os.path.abspath(__file__))
BASE = "cd /repo && /venv/bin/python -m pytest -ra -q -p no:cacheprovider --timeout=900 --continue-on-collection-errors"

SCHED_NOTE = "Trusted: TLC; the fake task below Engine.restart (exits injected by the harness), harness/world.py replacing threads/timers by one deterministic queue (no repository hook); schedules of the real code are sampled, the model is exhaustive for the listed shapes."
CHECKS = {
 "C01": dict(engine="Scheduler", technique="TLC model checking of spec/Scheduler.tla (LaunchSafe action property, all interleavings/scan orders); trace validation of recorded runs of the real Controller against SchedulerTrace.tla with LaunchSafe evaluated on logged real states",
             text="The scheduler is specified as a state machine (one action per critical section of Controller/ComponentState); TLC checks the launch-safety action property exhaustively for small workflow shapes x fault sequences; every deterministic run of the real Controller (seeded schedules) is validated step by step against the specification by TLC, so a premature launch is either a rejected trace or a false action property on real states.",
             note=SCHED_NOTE, ref="4/C01"),
 "C02": dict(engine="Scheduler", technique="TLC exhaustive exploration of spec/Scheduler.tla: terminal states per case compared with the declarative rule, deadlock + fairness-based termination; real Controller runs trace-validated and their terminal states required to be reachable in the specification",
             text="Confluence and termination are decided by exhaustive enumeration of interleavings per (shape, fault sequence) on the model; the binding runs the real Controller under seeded schedules, validates every run against the specification, detects runs that never reach quiescence and checks each real terminal state against the set TLC computed and against the documented rule.",
             note=SCHED_NOTE, ref="4/C02"),
 "C05": dict(engine="DoWhile", technique="TLC model checking of spec/DoWhile.tla (document family x unrolling state machine, k <= 12 / 21); every reachable state replayed on the real WorkflowGraph after each instantiate_dowhile_next_iteration call",
             text="TLC checks all C05 clauses (instances 0..k, loop-carried inputs from i-1 without stage drift, outside references to the numerically highest iteration, aggregate order, condition of iteration k) for 173 document shapes up to 12 (thorough 21) iterations; the binding unrolls each shape on a real instance and compares wiring, placeholders, resolve() of :ref/:output/:loopref/:loopoutput, producers and loop state with the spec after every call.",
             note="Trusted: TLC. Looped instances are not executed (the harness writes their stdout); edges into outside consumers are only bounded; quick unrolls part of the shapes 3 times only; at most 2 looped components, no nested loops.",
             ref="4/C05"),
 "C06": dict(engine="Dsl", technique="TLC exhaustive on an executable function specification (spec/Dsl.tla: recursive instantiation with parameter environments, Flatten / Rejected) over a bounded namespace family; every state replayed on the real namespace_to_flowir and matched by bijection search",
             text="For every namespace of the family (depth <= 3, template reuse, forwarded/defaulted/overridden/embedded parameters, references in all spellings crossing levels, colliding step names, 22 single-fault mutations) the compiled FlowIR must have one uniquely named component per reachable component step whose arguments, references and graph edges equal the specified ones and which validates; invalid namespaces must raise DSLInvalidError covering the specified locations (a hang is cut by a CPU timer and reported).",
             note="Trusted: TLC. Component names are free (only uniqueness/consistency required); the family is bounded (4 component templates, methods ref/output, <= 2 instances of a workflow template per level); environments, key outputs, replicate/aggregate are not varied.",
             ref="4/C06"),
 "C07": dict(engine="InstanceStore", technique="TLC model checking of spec/InstanceStore.tla (Create/Iterate/Patch/Store/Load histories over 24 package shapes); one real execution per abstract transition along a shortest history with the full projection compared at every Load",
             text="The spec is the oracle for what must survive a store/load cycle (layered variables, platform, replica count, loop iterations, patches); the driver executes every transition TLC finds on real instance directories and additionally compares the complete real projection (nodes, dataflow, resolved and raw configuration, environments, placeholders, DoWhile state) before store and after reload, and the stored YAML before and after load+store.",
             note="Trusted: TLC. Platform passed explicitly on reload (as elaunch does); stored description compared as parsed YAML; loop iterations <= 2; transition coverage, not all paths.",
             ref="4/C07"),
 "C19": dict(engine="Dosini", technique="TLC model checking of spec/Dosini.tla (Dump;Load;Redump;Reload over abstract instances and an abstract sectioned file system, keyword tables as explicit constants, named translation faults as witnesses); every TLC-emitted instance written and read twice by the real Dosini frontend and compared with the spec",
             text="TLC enumerates every (option, value class) atom x 5 backends x component/stage/global blueprint x both instance flavours, all option pairs within a section (thorough: across sections), all variable scope subsets, environment shapes, status and output forms; the driver executes all ~4k (thorough ~17k) cases on the real dump/load and on DOSINIExperimentConfiguration with the spec's expected view as oracle.",
             note="Trusted: TLC, the hand-written option catalogue (guarded against drift from FlowIR.default_component_structure and Dosini.known_flowir_options: drift = exit 2). Outside the quantifier: options without a legacy keyword, empty lists, typed variable values, reserved section names.",
             ref="4/C19"),
 "C20": dict(engine="Progress", technique="TLC model checking of spec/Progress.tla (weight normalisation + progress state machine); every TLC-emitted case/state replayed into FlowIRConcrete and the real StatusMonitor.CheckStatus and compared with the spec",
             text="TLC exhaustively checks the normalisation rule and the progress state machine for <=3 (thorough 4) stages over a truncation-sensitive weight grid; the binding executes every emitted weight vector through the real loader and every reachable progress state through the real StatusMonitor with the spec as oracle.",
             note="Trusted: TLC, the stub controller that imposes the model state on StatusMonitor (Controller.get_stage_status itself is real); weights with more than 4 decimals are outside the grid.",
             ref="4/C20"),
}
NOT_APPLICABLE = {p: 'check under construction in this round (specification planned in DESIGN.md section 4); not yet claimed' for p in ['C%02d' % i for i in range(1, 21)] if p not in CHECKS}

def main():
    m = {"version": 1,
         "setup_cmd": "mkdir -p /verif/out /verif/evidence && /venv/bin/python -c 'import experiment, jsonschema, yaml' && java -cp /opt/veriftools/tla/tla2tools.jar tlc2.TLC -h >/dev/null 2>&1; true",
         "hooks": {"guard": "ST4SD_RUNTIME_CORE_VERIF", "enable": "no source hooks exist: observation/control is done from the harness process by replacing module attributes (DESIGN.md 3.8); nothing to enable",
                   "baseline_off_cmd": BASE, "source_commits": [], "add_only": True},
         "engines": [], "checks": [], "not_applicable": [],
         "notes": "All checks: ./check <id> --tier quick|thorough; exit 0 held / 1 VIOLATION / 2 machinery failure. See DESIGN.md."}
    engines = {}
    for pid in sorted(CHECKS):
        c = CHECKS[pid]
        engines.setdefault(c["engine"], []).append(pid)
        m["checks"].append({"property_id": pid, "quick_cmd": "./check %s --tier quick" % pid, "thorough_cmd": "./check %s --tier thorough" % pid,
                            "evidence_file": "/verif/evidence/%s.json" % pid, "replay_cmd_template": "./check %s --replay {path}" % pid,
                            "engine": c["engine"], "level_claimed": {"category": "model_checking", "text": c["text"], "design_ref": c["ref"]},
                            "level_note": c["note"], "technique": c["technique"]})
    for e, pids in sorted(engines.items()):
        m["engines"].append({"name": e, "path": "/verif/spec/%s.tla" % e, "serves_properties": pids, "kind_free_text": "TLA+ specification checked with TLC, bound to the implementation by harness/checks/*.py"})
    for pid in sorted(NOT_APPLICABLE):
        m["not_applicable"].append({"property_id": pid, "reason": NOT_APPLICABLE[pid]})
    with open(os.path.join(HERE, "MANIFEST.json"), "w") as f:
        json.dump(m, f, indent=1)
    import jsonschema
    jsonschema.validate(m, json.load(open("/root/.vp/MANIFEST.schema.json")))
    print("MANIFEST.json: %d checks, %d not applicable" % (len(m["checks"]), len(m["not_applicable"])))

if __name__ == "__main__":
    main()
