#!/venv/bin/python
"""Regenerates MANIFEST.json from the table below (single source of truth for the registered checks)."""
import json, os
HERE = os.path.dirname(os.path.abspath(__file__))
BASE = "cd /repo && /venv/bin/python -m pytest -ra -q -p no:cacheprovider --timeout=900 --continue-on-collection-errors"

SCHED_NOTE = "Trusted: TLC; the fake task below Engine.restart (exits injected by the harness), harness/world.py replacing threads/timers by one deterministic queue (no repository hook); schedules of the real code are sampled, the model is exhaustive for the listed shapes."
CHECKS = {
 "C01": dict(engine="Scheduler", technique="TLC model checking of spec/Scheduler.tla (LaunchSafe action property, all interleavings/scan orders); trace validation of recorded runs of the real Controller against SchedulerTrace.tla with LaunchSafe evaluated on logged real states",
             text="The scheduler is specified as a state machine (one action per critical section of Controller/ComponentState); TLC checks the launch-safety action property exhaustively for small workflow shapes x fault sequences; every deterministic run of the real Controller (seeded schedules) is validated step by step against the specification by TLC, so a premature launch is either a rejected trace or a false action property on real states.",
             note=SCHED_NOTE, ref="4/C01"),
 "C02": dict(engine="Scheduler", technique="TLC exhaustive exploration of spec/Scheduler.tla: terminal states per case compared with the declarative rule, deadlock + fairness-based termination; real Controller runs trace-validated and their terminal states required to be reachable in the specification",
             text="Confluence and termination are decided by exhaustive enumeration of interleavings per (shape, fault sequence) on the model; the binding runs the real Controller under seeded schedules, validates every run against the specification, detects runs that never reach quiescence and checks each real terminal state against the set TLC computed and against the documented rule.",
             note=SCHED_NOTE, ref="4/C02"),
 "C03": dict(engine="Replicate", technique="TLC model checking of spec/Replicate.tla (declarative replication region = operational propagation, expansion invariants); every expanded state replayed into FlowIRConcrete.replicate and WorkflowGraph.graphFromFlowIR(primitive=False) and compared node by node",
             text="Exhaustive for up to 3 (thorough 4) components over adversarial name alphabets (a/ba/ab, a/a0/a1, dotted/dashed, same name in two stages), replica counts 1-3 and 11 (literal or via a variable at global/stage/component scope), both spellings, paths, methods, argument styles and document orders; the spec's Expansion is the oracle for nodes, edges, references, argument tokens and the replica variable.",
             note="Trusted: TLC and the harness reference parser. Outside the family: an aggregating component that also replicates, replicate 0, DoWhile placeholders, :copyout mentioned in arguments; big slices go through the graph path for every k-th case only.",
             ref="4/C03"),
 "C04": dict(engine="Layering", technique="TLC model checking of spec/Layering.tla (every subset of definition layers x decoys x platform, chains, typed options); every state rendered to FlowIR + user variable files and resolved by the real FlowIRExperimentConfiguration/FlowIRConcrete for active x queried platform",
             text="TLC proves Fold = Top (sequential override in the documented order equals the declarative maximum), no decoy value in any result, no reference left and decoy-irrelevance on the model; the binding executes all 5.4k (thorough 48k) states x4 plus the typed-option catalogue on the real resolver and loader with the spec as oracle (values, Python types, error classes).",
             note="Trusted: TLC and the rendering bijection; same-scope conflicts between two user files are C15's subject; chains <= 4; built-in values are read from the code and only their rank is checked.",
             ref="4/C04"),
 "C08": dict(engine="ConfigCache", technique="TLC model checking of an explicit cache-protocol spec (spec/ConfigCache.tla: description, cache, handed copy; one action per configuration-interface call), bound both ways: edge cover + -simulate behaviours replayed on live FlowIRConcrete/FlowIRExperimentConfiguration with a from-scratch real-code oracle after every call, and recorded histories followed by TLC (ConfigCache_trace.tla)",
             text="For every history of <= 3 calls (exhaustive) and sampled histories up to 60 calls over 16 mutator kinds x call paths x 7 query flavours x 2 platforms x 2 components in 6 name worlds, every query equals both the spec's Resolve(D) and a brand-new FlowIRConcrete(raw()), every cache entry is coherent after every call, and scribbling over returned dicts changes neither the description nor the cache.",
             note="Trusted: TLC. Per-component invalidation (Hits) is probed from the real code at run time; spec-versus-code drift without a violation is exit 2. One variable, two options, two platforms, no override layer, no DoWhile documents.",
             ref="4/C08"),
 "C09": dict(engine="References", technique="TLC model checking of spec/References.tla (token-level grammar of data references and the life cycle authored->written->read->expanded->re-expanded); every emitted (reference, consumer stage, package context) case executed on the real parse/print/expand/classify functions, Manifest.top_level_folders and FlowIRConcrete.validate",
             text="TLC exhaustively checks round trip, agreement of relative and absolute spellings, idempotent expansion and classification-as-stated over adversarial names (dots, dashes, loop prefixes, stage and folder look-alikes), nested files and globs, all methods, stages none/0/1/12 and contexts with nested manifest keys, application dependencies and known-component sets; all 31.8k quick / 149k thorough emitted cases run on the real API with the spec as oracle.",
             note="Trusted: TLC and the token rendering (a string is the concatenation of its tokens). Classification compared only for direct and known-component references; names equal to package folders, leading-zero stages and uid escaping are outside the grammar.",
             ref="4/C09"),
 "C10": dict(engine="Subst", technique="TLC model checking of spec/Subst.tla (exact one-pass substitution against the named deviation 'sequential str.replace'); every resolved TLC state becomes a consumer component of a real instantiated experiment and resolveArguments()/checkDataReferences() are compared with the spec",
             text="TLC proves Exact equals the structural expectation and is permutation-independent for <= 3 references over names that contain one another or are equal across stages, all usages, three command-line styles, unused/undeclared faults and values that look like references; 1.7k quick / 14.9k thorough cases are executed on real experiments.",
             note="Trusted: TLC and the letter-level token model. Producers are not executed (the harness writes their out.txt); :loopref/:loopoutput and direct references are not explored.",
             ref="4/C10"),
 "C11": dict(engine="Validate", technique="TLC model checking of spec/Validate.tla (declarative Valid = operational Verdict on every single-fault mutant of the Replicate.tla workflow family); every mutant loaded through graphFromFlowIR and, sampled, through a package directory with validateExperiment, under an alarm",
             text="Every fault kind (drop, rename, restage, cycle, duplicate, unknown key, wrong type, removed variable) at every position of every base workflow of up to 3 (thorough 4) components: accept implies DAG, unique ids, resolvable references and resolvable configuration; reject implies ExperimentInvalidConfigurationError (a typed FlowIR error on the in-memory path); validity-preserving mutations must load; a hang is a violation.",
             note="Trusted: TLC. Wrongly typed values are unconvertible ones; executables are not checked; base names are well separated so replication naming defects stay out of this family.",
             ref="4/C11"),
 "C12": dict(engine="Restart", technique="TLC on spec/Restart.tla (design invariants, action properties, witness runs per named deviation); exhaustive edge cover of the spec's state graph replayed on the real Controller/ComponentState/Engine/RepeatingEngine; seeded random traces of the real code validated by TLC against Restart_trace.tla",
             text="For every configuration of the family (maxRestarts, hook file named/unset/''/missing, restartHookOn sets, backend, engine kind, stable/unstable system) and every (Engine.restarts, resubmissions, exit reason, hook answer) the real restart decision, counters, task starts and final state equal the specification, whose invariants are the C12 statement.",
             note="Trusted: TLC; task launch is replaced by a counter and rx emissions are not delivered (harness/world_c12.py). Budgets above 3 and hook behaviours beyond 17 classes are not explored.",
             ref="4/C12"),
 "C13": dict(engine="Repeating", technique="TLC model checking of spec/Repeating.tla (poll loop + EngineTaskController + environment with half-second event placement); every terminated TLC behaviour replayed in lock-step on the real RepeatingEngine/CreateMonitor under a virtual clock, plus seeded random schedules trace-validated by TLC (Repeating_trace.tla)",
             text="TLC checks the three clauses as invariants plus producersDone ~> dead exhaustively for small intervals, retries, kill delays, producer kinds and durations; the binding executes every emitted behaviour (~2k quick, ~27k thorough) on the real engine and validates 250 (quick) / 3000 (thorough) random runs code->spec.",
             note="Trusted: TLC and the lock-step world (rx lanes, gated monitor thread, virtual datetime, fake task; harness/world_c13.py). Producer output checks run on real files with controlled mtimes. Task durations are whole seconds; output predating run() and raising task generators are out of scope.",
             ref="4/C13"),
 "C14": dict(engine="AtomicFile", technique="TLC model checking of spec/AtomicFile.tla (temp-file-then-rename protocol under I/O errors and crashes, fidelity over update histories); file-system operations of the 5 real writers recorded and validated by TLC against AtomicFile_trace.tla; every crash and I/O-error point enumerated by TLC realised on the real code and read back with the real loaders",
             text="TLC exhaustively checks Atomic/OldOrNew/CommitIsAtomic/Fidelity for <= 2 (thorough 3) updates of 2 files with every operation failing or the process dying; the binding validates the recorded operation traces of Status.update, OutputAgent.updateLogs, try_generate_status_details, store_unreplicated_flowir_to_disk and _generate_instance_files, realises every crash/I/O-error boundary and ~4.6k (thorough ~22k) value-class histories.",
             note="Trusted: TLC, the operation recorder harness/fsrec.py (writes flushed one by one; fsync/rename durability not modelled), one representative string per value class.",
             ref="4/C14"),
 "C15": dict(engine="UserVars", technique="TLC model checking of spec/UserVars.tla (layering loop, last-definer-wins, order-free oracle); every emitted (shapes, list) case plus 5 rich packages loaded in separate processes with different PYTHONHASHSEED, shuffled document keys and shuffled directory listings; compared with the spec and byte-wise across processes",
             text="Exhaustive over lists of length <= 3 with repetitions over 3 files and 4 shapes in quick (7 in thorough), through 2-5 entry points, in 4 processes in quick (8 in thorough); the rich packages (replication, aggregation, platforms, DSL with duplicate step names) are dumped (nodes, edges, configurations, environments, memoization hashes) and compared across processes.",
             note="TLC cannot vary a hash seed: its role is the order-free oracle and the enumeration of file orders; nondeterminism is found only if it shows among the seeds used.",
             ref="4/C15"),
 "C16": dict(engine="Memo", technique="TLC model checking of spec/Memo.tla (pair generator: base worlds x single-aspect perturbations, two independent formulations of the hash identity); every emitted pair instantiated as two real experiments and the strong and fuzzy hash of every chain component compared",
             text="TLC checks that the constructive identities Strong/Fuzzy agree with the aspect classification taken from the property on all pairs (chain <= 3); the binding executes 1033 pairs in quick and 7653 in thorough on the real ComponentSpecification, requiring equal <=> equal and None <=> undefined.",
             note="Trusted: TLC and the rendering of worlds to FlowIR and files. The content of a directory reference is identified with the producer's hash, as the code does; one perturbation per pair.",
             ref="4/C16"),
 "C17": dict(engine="Env", technique="TLC model checking of spec/Env.tla (selection x spelling x platform x interpreter x key subsets of named/default environments on default/p1); every state executed through WorkflowGraph.environmentForNode under a controlled os.environ",
             text="NoLeak, error-iff-undefined, platform-over-default, own-before-launch and irrelevance of foreign environments are checked on every state; 13k (thorough 51k) real calls are compared by dictionary equality.",
             note="Trusted: TLC. Values reference other variables at depth 1 plus the PATH idiom; system variables and own keys are disjoint; expansion modelled as the two single passes the property states.",
             ref="4/C17"),
 "C18": dict(engine="Confine", technique="TLC model checking of spec/Confine.tla (POSIX path-resolution model of tar extraction, manifest deployment and staging sequences; the specified guard confines, the old prefix guard is refuted); every emitted input built for real and run through StageReference, Job.stageIn and expandPackageToDirectory with a file-system diff of everything outside the target",
             text="Confined/NoOverRejection/RunAgrees checked exhaustively for archives of <= 2 members (file/dir/symlink/hardlink, names over {a, b, .., absolute}), 3-member families, manifests of <= 2 entries and staging sequences of <= 2 (thorough 3) operations; 4.7k (thorough 31.7k) inputs executed on the real code.",
             note="Trusted: TLC and the sandbox diff (type, mode, size, mtime, inode, link target), nested 19 directories deep inside the scratch dir; permissions, devices and pax headers are not modelled.",
             ref="4/C18"),
 "C05": dict(engine="DoWhile", technique="TLC model checking of spec/DoWhile.tla (document family x unrolling state machine, k <= 12 / 21); every reachable state replayed on the real WorkflowGraph after each instantiate_dowhile_next_iteration call",
             text="TLC checks all C05 clauses (instances 0..k, loop-carried inputs from i-1 without stage drift, outside references to the numerically highest iteration, aggregate order, condition of iteration k) for 173 document shapes up to 12 (thorough 21) iterations; the binding unrolls each shape on a real instance and compares wiring, placeholders, resolve() of :ref/:output/:loopref/:loopoutput, producers and loop state with the spec after every call.",
             note="Trusted: TLC. Looped instances are not executed (the harness writes their stdout); edges into outside consumers are only bounded; quick unrolls part of the shapes 3 times only; at most 2 looped components, no nested loops.",
             ref="4/C05"),
 "C06": dict(engine="Dsl", technique="TLC exhaustive on an executable function specification (spec/Dsl.tla: recursive instantiation with parameter environments, Flatten / Rejected) over a bounded namespace family; every state replayed on the real namespace_to_flowir and matched by bijection search",
             text="For every namespace of the family (depth <= 3, template reuse, forwarded/defaulted/overridden/embedded parameters, references in all spellings crossing levels, colliding step names, 22 single-fault mutations) the compiled FlowIR must have one uniquely named component per reachable component step whose arguments, references and graph edges equal the specified ones and which validates; invalid namespaces must raise DSLInvalidError covering the specified locations (a hang is cut by a CPU timer and reported).",
             note="Trusted: TLC. Component names are free (only uniqueness/consistency required); the family is bounded (4 component templates, methods ref/output, <= 2 instances of a workflow template per level); environments, key outputs, replicate/aggregate are not varied.",
             ref="4/C06"),
 "C07": dict(engine="InstanceStore", technique="TLC model checking of spec/InstanceStore.tla (Create/Iterate/Patch/Store/Load histories over 24 package shapes); one real execution per abstract transition along a shortest history with the full projection compared at every Load",
             text="The spec is the oracle for what must survive a store/load cycle (layered variables, platform, replica count, loop iterations, patches); the driver executes every transition TLC finds on real instance directories and additionally compares the complete real projection (nodes, dataflow, resolved and raw configuration, environments, placeholders, DoWhile state) before store and after reload, and the stored YAML before and after load+store.",
             note="Trusted: TLC. Platform passed explicitly on reload (as elaunch does); stored description compared as parsed YAML; loop iterations <= 2; transition coverage, not all paths.",
             ref="4/C07"),
 "C19": dict(engine="Dosini", technique="TLC model checking of spec/Dosini.tla (Dump;Load;Redump;Reload over abstract instances and an abstract sectioned file system, keyword tables as explicit constants, named translation faults as witnesses); every TLC-emitted instance written and read twice by the real Dosini frontend and compared with the spec",
             text="TLC enumerates every (option, value class) atom x 5 backends x component/stage/global blueprint x both instance flavours, all option pairs within a section (thorough: across sections), all variable scope subsets, environment shapes, status and output forms; the driver executes all ~4k (thorough ~17k) cases on the real dump/load and on DOSINIExperimentConfiguration with the spec's expected view as oracle.",
             note="Trusted: TLC, the hand-written option catalogue (guarded against drift from FlowIR.default_component_structure and Dosini.known_flowir_options: drift = exit 2). Outside the quantifier: options without a legacy keyword, empty lists, typed variable values, reserved section names.",
             ref="4/C19"),
 "C20": dict(engine="Progress", technique="TLC model checking of spec/Progress.tla (weight normalisation + progress state machine); every TLC-emitted case/state replayed into FlowIRConcrete and the real StatusMonitor.CheckStatus and compared with the spec",
             text="TLC exhaustively checks the normalisation rule and the progress state machine for <=3 (thorough 4) stages over a truncation-sensitive weight grid; the binding executes every emitted weight vector through the real loader and every reachable progress state through the real StatusMonitor with the spec as oracle.",
             note="Trusted: TLC, the stub controller that imposes the model state on StatusMonitor (Controller.get_stage_status itself is real); weights with more than 4 decimals are outside the grid.",
             ref="4/C20"),
}
NOT_APPLICABLE = {p: 'check under construction in this round (specification planned in DESIGN.md section 4); not yet claimed' for p in ['C%02d' % i for i in range(1, 21)] if p not in CHECKS}

EXTRA_ENGINES = [
 {"name": "EngineLifecycle", "path": "/verif/spec/EngineLifecycle.tla", "serves_properties": ["C01", "C02", "C12"],
  "kind_free_text": "growth beyond the listed properties: TLA+ specification of the real Engine launch/termination/emission pipeline (run, kill at every point, launch failure, task exit, restart, shutdown, snapshot overtaking), checked with TLC and bound both ways to the real experiment.runtime.engine.Engine on a deterministic rx world; also contract-tests harness/ctl.py's FakeEngine (the trust base of C01/C02) against the real Engine. Run with ./check G01 --tier quick|thorough (evidence/G01.json); not a property check."},
 {"name": "SchedulerGrowth", "path": "/verif/spec/Scheduler.tla", "serves_properties": ["C01", "C02", "C05", "C12", "C16"],
  "kind_free_text": "growth of Scheduler.tla beyond the listed properties: ExternalKill (killController/cleanUp at any time), restart from a later stage, sleep/wake-up (postponed finishedChecks replayed in order), memoization answers, DoWhile at run time (iteration slots, placeholders, condition true/false/garbage); 16 further invariants / action properties model-checked by TLC; real Controller runs in which the environment kills, sleeps and wakes at random turns (also inside postMortemCheck / Engine.restart) are trace-validated. Run with ./check G02 --tier quick|thorough (evidence/G02.json); C01/C02 run a second model with ExternalKill and kill one real schedule in five."},
 {"name": "ExperimentLifecycle", "path": "/verif/spec/ExperimentLifecycle.tla", "serves_properties": ["C14", "C20"],
  "kind_free_text": "growth beyond the listed properties (G03): TLA+ state machine of elaunch's Setup/Run/finalisation and the status.txt document; TLC model checking (safety + liveness, repaired vs. code variants, named deviations); the real elaunch.py __main__ block executed from its AST on a deterministic world, every status version recorded and trace-validated under 16 repair combinations, TLC terminal outcomes compared with the real final status. Run with ./check G03 --tier quick|thorough (evidence/G03.json); not a property check."},
 {"name": "ExecutorChain", "path": "/verif/spec/ExecutorChain.tla", "serves_properties": ["C10", "C17"],
  "kind_free_text": "growth beyond the listed properties (G05): TLA+ function specs of executable resolution and command-line rendering executed case by case on the real executors classes, and through packages into real processes; a TLA+ state machine of the pre/main/post chain replayed on the real lsf.Task over a lock-stepped /bin/sh batch daemon, plus TLC trace validation of recorded random runs. Run with ./check G05 --tier quick|thorough (evidence/G05.json); not a property check."},
 {"name": "TaskLifecycle", "path": "/verif/spec/TaskLifecycle.tla", "serves_properties": ["C12", "C13"],
  "kind_free_text": "growth beyond the listed properties (G04): TLA+/TLC state machines of LocalTask (Popen + waiter thread on a modelled kernel), SimulatorTask and the monitor primitives (CreateMonitor / CreateDeathAction / CreateEventAction / MonitorExceptionTracker); every model transition replayed on the real classes in a lock-step thread world (scheduling points down to single source lines, virtual clock), random line-level interleavings trace-validated, returncode->exitReason table and exception tracker as function specifications. Run with ./check G04 --tier quick|thorough (evidence/G04.json); not a property check."},
 {"name": "DataStaging", "path": "/verif/spec/DataStaging.tla", "serves_properties": ["C18", "C10"],
  "kind_free_text": "growth beyond the listed properties (G07): TLC model of stage-in / task writes / source changes / restart with and without restaging / loop iteration over an abstract file system; every enumerated behaviour replayed on the real Job / ComponentState / StageReference of real experiment instances and compared step by step, random histories trace-validated (DataStaging_trace.tla), real elaunch end-to-end. Run with ./check G07 --tier quick|thorough (evidence/G07.json); not a property check."},
 {"name": "K8sTask", "path": "/verif/spec/K8sTask.tla", "serves_properties": ["C12"],
  "kind_free_text": "growth beyond the listed properties (G06): the real NativeScheduledTask (via KubernetesTaskGenerator) over a scripted cluster below the real kubernetes client; HTTP-request-level TLA+ state machine with API failure scripts, bound by transition-cover replay (full projection incl. request sequence, hidden memory and clock), no-hidden-state trace validation of random runs (K8sTask_trace.tla), and function specifications of _getTaskState / exitReason. Run with ./check G06 --tier quick|thorough (evidence/G06.json); not a property check."},
]


def main():
    m = {"version": 1,
         "setup_cmd": "mkdir -p /verif/out /verif/evidence && /venv/bin/python -c 'import experiment, jsonschema, yaml' && java -cp /opt/veriftools/tla/tla2tools.jar tlc2.TLC -h >/dev/null 2>&1; true",
         "hooks": {"guard": "ST4SD_RUNTIME_CORE_VERIF", "enable": "no source hooks exist: observation/control is done from the harness process by replacing module attributes (DESIGN.md 3.8); nothing to enable",
                   "baseline_off_cmd": BASE, "source_commits": [], "add_only": True},
         "engines": [], "checks": [], "not_applicable": [],
         "notes": "All checks: ./check <id> --tier quick|thorough; exit 0 held / 1 VIOLATION / 2 machinery failure. See DESIGN.md. Growth checks beyond the listed properties: ./check G01 (EngineLifecycle), ./check G02 (Scheduler extensions), ./check G03 (ExperimentLifecycle), further G0x as listed under engines."}
    engines = {}
    for pid in sorted(CHECKS):
        c = dict(CHECKS[pid])
        # texts refreshed by the owners of the checks after the seeding rounds (manifest_text/<ID>.json), when present
        tp = os.path.join(HERE, "manifest_text", pid + ".json")
        if os.path.exists(tp):
            t = json.load(open(tp))
            for k in ("technique", "text", "note"):
                if isinstance(t.get(k), str) and t[k].strip():
                    c[k] = t[k].strip()
        engines.setdefault(c["engine"], []).append(pid)
        m["checks"].append({"property_id": pid, "quick_cmd": "./check %s --tier quick" % pid, "thorough_cmd": "./check %s --tier thorough" % pid,
                            "evidence_file": "/verif/evidence/%s.json" % pid, "replay_cmd_template": "./check %s --replay {path}" % pid,
                            "engine": c["engine"], "level_claimed": {"category": "model_checking", "text": c["text"], "design_ref": c["ref"]},
                            "level_note": c["note"], "technique": c["technique"]})
    for e, pids in sorted(engines.items()):
        m["engines"].append({"name": e, "path": "/verif/spec/%s.tla" % e, "serves_properties": pids, "kind_free_text": "TLA+ specification checked with TLC, bound to the implementation by harness/checks/*.py"})
    for e in EXTRA_ENGINES:
        m["engines"].append(e)
    for pid in sorted(NOT_APPLICABLE):
        m["not_applicable"].append({"property_id": pid, "reason": NOT_APPLICABLE[pid]})
    with open(os.path.join(HERE, "MANIFEST.json"), "w") as f:
        json.dump(m, f, indent=1)
    import jsonschema
    jsonschema.validate(m, json.load(open("/root/.vp/MANIFEST.schema.json")))
    print("MANIFEST.json: %d checks, %d not applicable" % (len(m["checks"]), len(m["not_applicable"])))

if __name__ == "__main__":
    main()
