#!/bin/bash
# tools_reconfirm.sh <seed-id> [property]  -- re-runs a stored seed (seeded/<id>/patch.diff + its demo) in the shared scratch
# worktree /tmp/confirm_wt (created on demand, detached at /repo HEAD) and rewrites seeded/<id>/confirm.json.
set -u
SID=$1; PROP=${2:-$(echo $SID | cut -c1-3)}
D=/verif/seeded/$SID
SLOT=${SLOT:-}
WT=/tmp/confirm_wt$SLOT
[ -d $WT ] || git -C /repo worktree add -q --detach $WT HEAD
DEMO=$(ls $D | grep -E '^demo.*\.py$' | head -1)
[ -n "$DEMO" ] || { echo "no demo in $D"; exit 2; }
cd $WT || exit 2
git checkout -q -- . ; git clean -qfd
git checkout -q --detach $(git -C /repo rev-parse HEAD) || exit 2
cp $D/$DEMO $WT/$DEMO
PYTHONPATH=$WT/python timeout 900 /venv/bin/python -W ignore $DEMO > /tmp/_re${SLOT}_clean.log 2>&1; RC_CLEAN=$?
git apply $D/patch.diff || { echo "patch does not apply at HEAD"; exit 2; }
PYTHONPATH=$WT/python timeout 900 /venv/bin/python -W ignore $DEMO > /tmp/_re${SLOT}_patched.log 2>&1; RC_PATCHED=$?
echo "$SID demo: clean rc=$RC_CLEAN patched rc=$RC_PATCHED"
cp /verif/evidence/$PROP.json /tmp/_ev_backup_$PROP.json 2>/dev/null; cd /verif && PYTHONPATH=$WT/python timeout 3000 ./check $PROP --tier quick > /tmp/_re${SLOT}_check.log 2>&1; CRC=$?
grep -E "^VIOLATION|tier=" /tmp/_re${SLOT}_check.log | head -2 | cut -c1-200
echo "$SID check $PROP rc=$CRC"; cp /tmp/_ev_backup_$PROP.json /verif/evidence/$PROP.json 2>/dev/null
cat > $D/confirm.json <<J
{"seed": "$SID", "property": "$PROP", "demo_rc_clean": $RC_CLEAN, "demo_rc_patched": $RC_PATCHED, "repo_tests": "", "repo_tests_rc": "skipped", "quick_check_rc_on_patched_tree": $CRC}
J
cd $WT && git checkout -q -- . && git clean -qfd
