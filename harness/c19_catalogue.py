"""C19 -- the option catalogue of the legacy sectioned-file (DOSINI) format, hand-written.

This table is the specification's view of the legacy format: which FlowIR component option is written under which
legacy keyword, what its declared type is, and which representative values ("classes") the model explores.
It is rendered into spec/gen/DosiniCatalogue.tla (EXTENDed by spec/Dosini.tla) and it renders abstract cases
emitted by TLC into real FlowIR documents.  The driver compares it at run time with the code
(FlowIR.default_component_structure(), Dosini.known_flowir_options()): a difference is spec drift (exit 2),
never a violation.

Nothing here is derived from dosini.py's own tables: that is the point (an option dumped under one keyword and
parsed under another is only visible against an independent table).
"""
import copy

# ---------------------------------------------------------------------------------------------------------------
# value classes per declared type.  First class listed for an option is its "primary" class (used in pairs).
#   str      plain | punct (spaces : = $ quotes) | varref (%(refVarN)s, mixed-case variable name)
#   text     as str + twolines (continuation line) + percent (a lone '%': legal in FlowIR and in a legacy file)
#   enum     plain (the one non-default member) [+ varref]
#   int      small | big (>= 10) | varref
#   float    frac (has a fractional part) | whole (x.0) | intval (an int literal given to a float option) | varref
#   bool     flip (opposite of the default) | varref (lower-case variable name) | varrefMixed (mixed-case name)
#   strlist  one | two | empty
#   memory   unit ('512Mi') | bytes (int) | varref
STR = ("plain", "punct", "varref")
TEXT = ("plain", "punct", "varref", "twolines")
INT = ("small", "big", "varref")
FLOAT = ("frac", "whole", "intval", "varref")
BOOL = ("flip", "varref", "varrefMixed")
BOOL_NOREF = ("flip",)                         # schema: plain bool only
LIST = ("one", "two", "empty")
MEM = ("unit", "bytes", "varref")

# (path, legacy keyword, type, section, default, classes)
# section = the group inside which "all pairs" are enumerated in the quick tier
CATALOGUE = [
    ("command.executable", "executable", "str", "command", None, STR),
    ("command.arguments", "arguments", "text", "command", "", TEXT + ("percent",)),
    ("command.environment", "environment", "envname", "command", None, ("plain", "varref")),
    ("command.resolvePath", "resolvePath", "bool", "command", True, BOOL),
    ("command.interpreter", "interpreter", "enum", "command", None, ("plain",)),
    ("command.expandArguments", "expandArguments", "enum", "command", "double-quote", ("plain", "varref")),

    ("references", "references", "reflist", "references", [], LIST),

    ("workflowAttributes.restartHookFile", "restart-hook-file", "str", "workflowAttributes", None, ("plain", "punct")),
    ("workflowAttributes.aggregate", "aggregate", "bool", "workflowAttributes", False, BOOL_NOREF),
    ("workflowAttributes.replicate", "replicate", "int", "workflowAttributes", None, INT),
    ("workflowAttributes.isMigratable", "isMigratable", "bool", "workflowAttributes", False, BOOL),
    ("workflowAttributes.repeatInterval", "repeat-interval", "float", "workflowAttributes", None, FLOAT),
    ("workflowAttributes.repeatRetries", "repeatRetries", "int", "workflowAttributes", 3, INT),
    ("workflowAttributes.maxRestarts", "max-restarts", "int", "workflowAttributes", None, INT),
    ("workflowAttributes.shutdownOn", "shutdown-on", "strlist", "workflowAttributes", [], LIST),
    ("workflowAttributes.restartHookOn", "restart-hook-on", "strlist", "workflowAttributes", ["ResourceExhausted"], LIST),
    ("workflowAttributes.memoization.disable.strong", "memoization-disable-strong", "bool", "workflowAttributes", False, BOOL),
    ("workflowAttributes.memoization.disable.fuzzy", "memoization-disable-fuzzy", "bool", "workflowAttributes", False, BOOL),
    ("workflowAttributes.memoization.embeddingFunction", "memoization-embedding-function", "text", "workflowAttributes", None, TEXT),
    ("workflowAttributes.optimizer.disable", "optimizerDisable", "bool", "workflowAttributes", False, BOOL),
    ("workflowAttributes.optimizer.exploitChance", "optimizerExploitChance", "float01", "workflowAttributes", 0.9, ("frac", "whole", "varref")),
    ("workflowAttributes.optimizer.exploitTarget", "optimizerExploitTarget", "float01", "workflowAttributes", 0.75, ("frac", "whole", "varref")),
    ("workflowAttributes.optimizer.exploitTargetLow", "optimizerExploitTargetLow", "float01", "workflowAttributes", 0.25, ("frac", "whole", "varref")),
    ("workflowAttributes.optimizer.exploitTargetHigh", "optimizerExploitTargetHigh", "float01", "workflowAttributes", 0.5, ("frac", "whole", "varref")),

    ("resourceManager.config.walltime", "walltime", "float", "resourceManager.config", 60.0, FLOAT),

    ("resourceManager.lsf.statusRequestInterval", "statusRequestInterval", "float", "resourceManager.lsf", 20, FLOAT),
    ("resourceManager.lsf.queue", "queue", "str", "resourceManager.lsf", "normal", STR),
    ("resourceManager.lsf.reservation", "reservation", "str", "resourceManager.lsf", None, STR),
    ("resourceManager.lsf.resourceString", "resourceString", "str", "resourceManager.lsf", None, STR),
    ("resourceManager.lsf.dockerImage", "lsf-docker-image", "str", "resourceManager.lsf", None, STR),
    ("resourceManager.lsf.dockerProfileApp", "lsf-docker-profile-app", "str", "resourceManager.lsf", None, STR),
    ("resourceManager.lsf.dockerOptions", "lsf-docker-options", "str", "resourceManager.lsf", None, STR),

    ("resourceManager.kubernetes.image", "k8s-image", "str", "resourceManager.kubernetes", None, STR),
    ("resourceManager.kubernetes.image-pull-secret", "k8s-image-pull-secret", "str", "resourceManager.kubernetes", None, STR),
    ("resourceManager.kubernetes.namespace", "k8s-namespace", "str", "resourceManager.kubernetes", "default", STR),
    ("resourceManager.kubernetes.api-key-var", "k8s-api-key-var", "str", "resourceManager.kubernetes", None, STR),
    ("resourceManager.kubernetes.host", "k8s-host", "str", "resourceManager.kubernetes", "http://localhost:8080", STR),
    ("resourceManager.kubernetes.cpuUnitsPerCore", "k8s-cpu-units-per-core", "float", "resourceManager.kubernetes", None, FLOAT),
    ("resourceManager.kubernetes.gracePeriod", "k8s-grace-period", "int", "resourceManager.kubernetes", None, INT),

    ("resourceRequest.numberProcesses", "numberProcesses", "int", "resourceRequest", 1, INT),
    ("resourceRequest.numberThreads", "numberThreads", "int", "resourceRequest", 1, INT),
    ("resourceRequest.ranksPerNode", "ranksPerNode", "int", "resourceRequest", 1, INT),
    ("resourceRequest.threadsPerCore", "threadsPerCore", "int", "resourceRequest", 1, INT),
    ("resourceRequest.memory", "memory", "memory", "resourceRequest", None, MEM),

    # executors: the legacy format knows exactly one pre, one post and one main (docker) executor
    ("executors.pre", "rstage-in", "payload-pre", "executors", [], ("plain", "punct")),
    ("executors.post", "rstage-out", "payload-post", "executors", [], ("plain", "punct")),
    ("executors.main.docker-image", "docker-image", "docker", "executors", None, ("plain", "punct")),
    ("executors.main.docker-args", "docker-args", "docker", "executors", None, ("plain", "punct")),
]

# the backend is a dimension of every case (legacy keyword job-type), not an atom
BACKEND = ("resourceManager.config.backend", "job-type")
BACKENDS = ("local", "lsf", "kubernetes", "docker", "simulator")

# (path, class): a value the legacy format has no text for.  Not part of the property's quantifier; executed and
# reported in the evidence as an observation only.
INEXPRESSIBLE = {
    ("workflowAttributes.restartHookOn", "empty"):
        "an empty list has no legacy text distinct from an absent option (the loader drops empty collections, the "
        "default [ResourceExhausted] comes back)",
}

# keys of FlowIR.default_component_structure() which the legacy format has no keyword for (Dosini._known_flowir /
# Dosini._translate_map do not list one and no _comp_*_to_* writer emits them): outside the property's quantifier.
UNSUPPORTED = {
    "workflowAttributes.isMigrated": "no legacy keyword (set by the runtime when a component is migrated, never by a package)",
    "workflowAttributes.isRepeat": "derived on load from repeat-interval (FlowIR.inject_default_values_to_component recomputes it)",
    "resourceManager.kubernetes.qos": "no legacy keyword (option added after the legacy format was frozen)",
    "resourceManager.kubernetes.podSpec": "no legacy keyword (a dictionary cannot be written in a flat option)",
    "resourceManager.docker.image": "no legacy keyword (docker resource manager postdates the legacy format; legacy uses docker-image/docker-args executors)",
    "resourceManager.docker.imagePullPolicy": "no legacy keyword (docker resource manager postdates the legacy format)",
    "resourceManager.docker.platform": "no legacy keyword (docker resource manager postdates the legacy format)",
    "resourceRequest.gpus": "no legacy keyword (option added after the legacy format was frozen)",
}
# paths of default_component_structure() that are structure, not options
STRUCTURAL = {"stage", "variables", "executors.main"}

# names used by the shape families (constants of the spec; adversarial relations are the point)
VAR_NAMES = ("v", "V")                       # differ only by case: legacy option names are case-sensitive
VAR_SCOPES = ("global", "stage0", "stage1", "comp:prod", "comp:c")
ENV_NAMES = ("env1", "MyEnv", "environment")  # mixed case (lower-cased by FlowIR); 'environment' is a legacy section name
ENV_VAR_NAMES = ("PATH", "Path")
RESERVED_SECTION_NAMES = ("default", "meta", "sandbox")   # cannot name a component / an environment in the legacy format

# ---------------------------------------------------------------------------------------------------------------
# THE NAME ALPHABET (family "names" of spec/Dosini.tla).  The legacy format turns names into section headers
# ([ENV-<NAME>], [<component>], [<output>], [STAGE<k>]) and option names (variables, environment variables); every
# character class the format allows but the section / keyword syntax could mangle is represented, together with the
# relations between names that matter: one name a prefix of another, a name that contains the section prefix, names
# that differ only by case.  TLC enumerates every single name and every PAIR of names of a kind.
NAME_ALPHABET = (
    "gcc", "gcc-7",          # prefix of each other, hyphen + digit
    "env", "env-2",          # the section prefix as a name, and a prefix of another name
    "ENV",                   # the section prefix in its own case (same environment as 'env': never paired with it)
    "env-env", "ENV-x",      # contains / starts with the section prefix
    "py3.9",                 # dot, digits
    "python_lsf",            # underscore
    "7zip",                  # leading digit
    "MyEnv",                 # mixed case
)
# ':' and '=' are option delimiters: legal inside a section header only (environment and output names)
NAMES_SECTION_ONLY = ("a:b", "a=b")
ENV_NAME_POOL = NAME_ALPHABET + NAMES_SECTION_ONLY + ("environment", "env1", "sandbox-2")     # reserved words as name / prefix
COMP_NAME_POOL = NAME_ALPHABET + ("C", "metadata", "default-x", "stage0")                      # 'c' exists: case pair; reserved words as prefix
VAR_NAME_POOL = NAME_ALPHABET + ("v", "V", "Queue", "WALLTIME", "job_type", "k8s-image2")     # keywords in another case / spelling
ENV_VAR_NAME_POOL = ("PATH", "Path", "LD_LIBRARY_PATH", "my.var", "my-var", "X1", "9X", "DEFAULTS", "applications")
OUT_NAME_POOL = NAME_ALPHABET + NAMES_SECTION_ONLY + ("Out", "out", "stage0", "Meta-x")
MANY_STAGES = 11                                 # stage indices >= 10 (STAGE10, stage10.instance.conf)


def env_lower(name):
    return name.lower()


def env_section(name):
    """the section header the legacy format uses for an environment"""
    return "ENV-" + name.upper()


def env_name_cut_at_hyphen(section):
    """named fault 'env-name-cut-at-hyphen': the name recovered with split('-')[1] instead of [4:]"""
    return section.split("-")[1].lower()


def all_env_names():
    names = list(ENV_NAMES) + [n for n in ENV_NAME_POOL if n not in ENV_NAMES]
    return names + sorted({n.lower() for n in names} - set(names))


def atoms():
    """All (option, class) atoms in a fixed order; idx is the identity TLC and the driver share."""
    out = []
    idx = 0
    for path, key, typ, section, default, classes in CATALOGUE:
        for n, cls in enumerate(classes):
            idx += 1
            out.append({"idx": idx, "path": path, "key": key, "type": typ, "section": section, "cls": cls,
                        "primary": n == 0, "expr": (path, cls) not in INEXPRESSIBLE,
                        "dflt": default is not None, "default": default})
    return out


def tla_str(s):
    return '"%s"' % s.replace("\\", "\\\\").replace('"', '\\"')


def tla_set(items):
    return "{" + ", ".join(items) + "}"


def generate_tla(path):
    """Write the generated catalogue module."""
    at = atoms()
    lines = ["---------------------------- MODULE DosiniCatalogue ----------------------------",
             "(* GENERATED by harness/c19_catalogue.py from its hand-written table -- do not edit.            *)",
             "(* One record per (option, value class) atom.  path = FlowIR option, key = legacy keyword,       *)",
             "(* section = pairing group, primary = first class of the option, expr = the legacy format has a  *)",
             "(* text for this value, dflt = FlowIR supplies a non-null default for the option.                *)",
             "Atoms == {"]
    recs = []
    for a in at:
        recs.append('  [idx |-> %d, path |-> %s, key |-> %s, type |-> %s, section |-> %s, cls |-> %s, primary |-> %s, expr |-> %s, dflt |-> %s]' % (
            a["idx"], tla_str(a["path"]), tla_str(a["key"]), tla_str(a["type"]), tla_str(a["section"]), tla_str(a["cls"]),
            "TRUE" if a["primary"] else "FALSE", "TRUE" if a["expr"] else "FALSE", "TRUE" if a["dflt"] else "FALSE"))
    lines.append(",\n".join(recs))
    lines.append("}")
    lines.append("BackendKey == %s" % tla_str(BACKEND[1]))
    lines.append("BackendPath == %s" % tla_str(BACKEND[0]))
    lines.append("AllBackends == %s" % tla_set(tla_str(b) for b in BACKENDS))
    lines.append("UnsupportedPaths == %s" % tla_set(tla_str(p) for p in sorted(UNSUPPORTED)))
    lines.append("VarNames == %s" % tla_set(tla_str(v) for v in VAR_NAMES))
    lines.append("EnvNames == %s" % tla_set(tla_str(v) for v in ENV_NAMES))
    lines.append("EnvVarNames == %s" % tla_set(tla_str(v) for v in ENV_VAR_NAMES))
    lines.append("(* the name alphabet of family \"names\" *)")
    lines.append("EnvNamePool == %s" % tla_set(tla_str(v) for v in ENV_NAME_POOL))
    lines.append("CompNamePool == %s" % tla_set(tla_str(v) for v in COMP_NAME_POOL))
    lines.append("VarNamePool == %s" % tla_set(tla_str(v) for v in VAR_NAME_POOL))
    lines.append("EnvVarNamePool == %s" % tla_set(tla_str(v) for v in ENV_VAR_NAME_POOL))
    lines.append("OutNamePool == %s" % tla_set(tla_str(v) for v in OUT_NAME_POOL))
    lines.append("ManyStages == %d" % MANY_STAGES)
    names = all_env_names()
    lines.append("(* environment names are case-insensitive (lower-case in FlowIR); the legacy section is ENV-<NAME IN UPPER CASE> *)")
    lines.append("EnvLower(n) == CASE " + "\n    [] ".join("n = %s -> %s" % (tla_str(k), tla_str(env_lower(k))) for k in names))
    lines.append("EnvSection(n) == CASE " + "\n    [] ".join("n = %s -> %s" % (tla_str(k), tla_str(env_section(k))) for k in names))
    sections = sorted({env_section(k) for k in names})
    lines.append("(* the reader: the name is what follows the 4 characters of the prefix *)")
    lines.append("EnvNameOfSection(s) == CASE " + "\n    [] ".join("s = %s -> %s" % (tla_str(k), tla_str(k[4:].lower())) for k in sections))
    lines.append("(* named fault: the name recovered by splitting at hyphens *)")
    lines.append("EnvNameCutAtHyphen(s) == CASE " + "\n    [] ".join("s = %s -> %s" % (tla_str(k), tla_str(env_name_cut_at_hyphen(k))) for k in sections))
    lines.append("ReservedSections == %s" % tla_set(tla_str(v) for v in RESERVED_SECTION_NAMES))
    lines.append("=============================================================================")
    text = "\n".join(lines) + "\n"
    with open(path, "w") as f:
        f.write(text)
    return at


# ---------------------------------------------------------------------------------------------------------------
# rendering of atoms to concrete FlowIR values

def ref_var(atom, lower=False):
    return ("flag%d" if lower else "refVar%d") % atom["idx"]


def render_atom(atom):
    """-> (value put into the FlowIR document, {global variables needed}, value expected in the RESOLVED configuration)"""
    typ, cls, path = atom["type"], atom["cls"], atom["path"]
    leaf = path.split(".")[-1]
    gv = {}

    def ref(text, lower=False):
        name = ref_var(atom, lower)
        gv[name] = text
        return "%%(%s)s" % name

    if typ in ("str", "text"):
        if cls == "plain":
            v = "%s-val" % leaf
            return v, gv, v
        if cls == "punct":
            v = 'v a:b=c $X "q r" [x] ; # end'
            if typ == "str" and leaf == "restartHookFile":
                v = "restart hook v=2.py"
            return v, gv, v
        if cls == "varref":
            return "pre-" + ref("ref val") + "-post", gv, "pre-ref val-post"
        if cls == "twolines":
            v = "line one\nline two x=1"
            return v, gv, v
        if cls == "percent":
            v = "+%Y-%m 100% done"
            return v, gv, v
    if typ == "envname":
        if cls == "plain":
            return "MyEnv", gv, "MyEnv"
        return ref("MyEnv"), gv, "MyEnv"
    if typ == "enum":
        member = {"interpreter": "bash", "expandArguments": "none"}[leaf]
        if cls == "plain":
            return member, gv, member
        return ref(member), gv, member
    if typ == "int":
        if cls == "small":
            return 2, gv, 2
        if cls == "big":
            return 17, gv, 17
        return ref("12"), gv, 12
    if typ == "float":
        if cls == "frac":
            return 1.5, gv, 1.5
        if cls == "whole":
            return 3.0, gv, 3.0
        if cls == "intval":
            return 30, gv, 30.0
        return ref("12"), gv, 12.0
    if typ == "float01":
        if cls == "frac":
            return 0.15, gv, 0.15
        if cls == "whole":
            return 1.0, gv, 1.0
        return ref("0.35"), gv, 0.35
    if typ == "bool":
        flipped = not atom["default"]
        if cls == "flip":
            return flipped, gv, flipped
        text = str(flipped).lower()
        # (FlowIR.convert_component_types converts memoization.disable.* like every other boolean since the C04 fix)
        return ref(text, lower=(cls == "varref")), gv, flipped
    if typ == "strlist":
        pool = {"shutdownOn": ["KnownIssue", "SystemIssue"], "restartHookOn": ["UnknownIssue", "SubmissionFailed"]}[leaf]
        n = {"empty": 0, "one": 1, "two": 2}[cls]
        return pool[:n], gv, pool[:n]
    if typ == "reflist":
        pool = ["stage0.prod:ref", "stage0.prod/out.txt:copy"]
        n = {"empty": 0, "one": 1, "two": 2}[cls]
        return pool[:n], gv, pool[:n]
    if typ == "memory":
        if cls == "unit":
            return "512Mi", gv, 512 * 1024 * 1024
        if cls == "bytes":
            return 1048576, gv, 1048576
        return ref("2Gi"), gv, 2 * 1024 * 1024 * 1024
    if typ in ("payload-pre", "payload-post"):
        name = "lsf-dm-in" if typ == "payload-pre" else "lsf-dm-out"
        payload = "all" if cls == "plain" else "a.txt b:c=d.txt"
        v = [{"name": name, "payload": payload}]
        return v, gv, v
    if typ == "docker":
        v = {"docker-image": "reg.io/org/img:1.0", "docker-args": "--rm"}[leaf] if cls == "plain" else \
            {"docker-image": "reg.io:5000/my img:v=1", "docker-args": "--rm -v /a:/b -e X=1 --name \"q r\""}[leaf]
        return v, gv, v
    raise ValueError("cannot render %r" % (atom,))


def set_path(doc, path, value):
    """Insert value at a dotted option path of a component/blueprint dictionary."""
    if path.startswith("executors.main."):
        main = doc.setdefault("executors", {}).setdefault("main", [])
        if not main:
            main.append({"name": "docker"})
        main[0][path.split(".")[-1]] = value
        return
    parts = path.split(".")
    d = doc
    for p in parts[:-1]:
        d = d.setdefault(p, {})
    d[parts[-1]] = value


def get_path(doc, path, missing="<absent>"):
    if path.startswith("executors.main."):
        main = [e for e in (doc.get("executors", {}) or {}).get("main", []) or [] if e.get("name") == "docker"]
        if not main:
            return missing
        return main[0].get(path.split(".")[-1], missing)
    d = doc
    for p in path.split("."):
        if not isinstance(d, dict) or p not in d:
            return missing
        d = d[p]
    return d


def flatten(x, prefix=""):
    """dict -> {dotted path: leaf}; lists are leaves; an empty dict is a leaf"""
    if isinstance(x, dict) and x:
        out = {}
        for k in x:
            out.update(flatten(x[k], "%s.%s" % (prefix, k) if prefix else str(k)))
        return out
    return {prefix: x}


def leaf_paths_of_default_structure(default_structure):
    return set(flatten(copy.deepcopy(default_structure)).keys())
