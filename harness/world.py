"""Deterministic single-threaded execution of the real st4sd Controller / ComponentState (DESIGN.md 3.4).

The runtime is written against rx schedulers, thread pools, interval timers.  Here every scheduler is a `Lane`
that parks scheduled work in one global queue of the `World`; nothing runs until the harness pops an item, so the
harness chooses the interleaving of every observe_on hop, notification delivery and timer tick, in virtual time.
No thread is ever created.
"""
import datetime
import heapq
import itertools
import logging
import threading

import reactivex
import reactivex.scheduler
import reactivex.subject
from reactivex.disposable import Disposable, SingleAssignmentDisposable, CompositeDisposable
from reactivex.scheduler.periodicscheduler import PeriodicScheduler

EPOCH = datetime.datetime(2030, 1, 1)


class Item:
    __slots__ = ("lane", "due", "seq", "fn", "dead", "tag")

    def __init__(self, lane, due, seq, fn, tag):
        self.lane, self.due, self.seq, self.fn, self.dead, self.tag = lane, due, seq, fn, False, tag

    def __repr__(self):
        return "<%s@%.1f #%d %s>" % (self.lane, self.due, self.seq, self.tag or "")


class World:
    def __init__(self):
        self.now = 0.0
        self.items = []
        self.seq = itertools.count()
        self.nrun = 0

    def push(self, lane, due, fn, tag=None):
        it = Item(lane, due, next(self.seq), fn, tag)
        self.items.append(it)
        return it

    def pending(self, lanes=None, include_timers=False):
        """Items that may run now.  Timer items (due in the future) only when include_timers."""
        self.items = [i for i in self.items if not i.dead]
        out = [i for i in self.items if (i.due <= self.now or include_timers)]
        if lanes is not None:
            out = [i for i in out if i.lane in lanes]
        return sorted(out, key=lambda i: (i.due, i.seq))

    def next_timer(self):
        self.items = [i for i in self.items if not i.dead]
        fut = [i for i in self.items if i.due > self.now]
        return min(fut, key=lambda i: (i.due, i.seq)) if fut else None

    def run(self, item):
        if item.dead:
            return
        item.dead = True
        if item.due > self.now:
            self.now = item.due
        self.nrun += 1
        item.fn()

    def advance_to_next_timer(self):
        it = self.next_timer()
        if it is None:
            return False
        self.now = it.due
        return True


class Lane(PeriodicScheduler):
    """An rx scheduler whose work is parked in the World."""

    def __init__(self, world, name):
        super().__init__()
        self.world = world
        self.name = name

    @property
    def now(self):
        return EPOCH + datetime.timedelta(seconds=self.world.now)

    def _push(self, due, action, state):
        sad = SingleAssignmentDisposable()

        def fn():
            if not sad.is_disposed:
                sad.disposable = self.invoke_action(action, state)
        item = self.world.push(self.name, due, fn, getattr(action, "__qualname__", None))

        def dispose():
            item.dead = True
        return CompositeDisposable(sad, Disposable(dispose))

    def schedule(self, action, state=None):
        return self._push(self.world.now, action, state)

    def schedule_relative(self, duetime, action, state=None):
        secs = max(0.0, self.to_seconds(duetime))
        return self._push(self.world.now + secs, action, state)

    def schedule_absolute(self, duetime, action, state=None):
        dt = self.to_datetime(duetime)
        return self._push(max(self.world.now, (dt - EPOCH).total_seconds()), action, state)


class Installed:
    """Replaces the environment (thread pools, new-thread schedulers, timers) by lanes of one World."""

    def __init__(self, world):
        self.world = world
        self.saved = []

    def _set(self, obj, attr, value):
        self.saved.append((obj, attr, getattr(obj, attr)))
        setattr(obj, attr, value)

    def __enter__(self):
        import experiment.runtime.utilities.rx as urx
        import experiment.runtime.workflow as workflow
        import experiment.runtime.engine as engine
        import experiment.runtime.control as control
        import reactivex.scheduler.timeoutscheduler as ts
        w = self.world
        pools = {}

        def get_pool(cls_or_pool, pool=None):
            p = pool if pool is not None else cls_or_pool
            name = "pool:" + p.value
            if name not in pools:
                pools[name] = Lane(w, name)
            return pools[name]
        self._set(urx.ThreadPoolGenerator, "get_pool", staticmethod(lambda pool: get_pool(pool)))
        counter = itertools.count()
        self._set(reactivex.scheduler, "NewThreadScheduler", lambda *a, **k: Lane(w, "newthread"))
        self._set(reactivex.scheduler, "ThreadPoolScheduler", lambda *a, **k: Lane(w, "tp%d" % next(counter)))
        timeout = Lane(w, "timeout")
        self._set(ts.TimeoutScheduler, "singleton", classmethod(lambda cls: timeout))
        self._set(workflow.ComponentState, "componentScheduler", None)
        self._set(engine.Engine, "enginePoolScheduler", None)
        self._set(engine.Engine, "triggerPoolScheduler", None)
        self._set(engine.Engine, "taskPoolScheduler", None)
        # neutralise real sleeps of the controller (virtual time)
        self._set(control, "WaitOnStability", lambda *a, **k: True)
        return self

    def __exit__(self, *exc):
        for obj, attr, val in reversed(self.saved):
            setattr(obj, attr, val)
        return False


def assert_no_threads(baseline):
    extra = [t for t in threading.enumerate() if t not in baseline and t.is_alive()]
    return extra
