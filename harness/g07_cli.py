"""G07: one end-to-end scenario on the REAL scripts/elaunch.py (a process: real Controller, engines, local tasks), run in the
background while the check does its main work.  It binds the one thing the in-process binding takes from reading control.py:
stage-in happens BEFORE the launch, a component whose stage-in fails with missing files is FAILED and never launched, and a
restart without --restageData launches without touching what was staged.

  stage0.p     touch a                        (creates p/a)
  stage1.good  references stage0.p/a:copy  data/d:link  stage0.p:link        runs `ls -1`  -> out.stdout = what the task FOUND
  stage2.bad   references stage1.good/nosuch:copy                              runs `ls -1`  -> must never run
"""
import os
import shutil
import subprocess
import sys

FLOWIR = """
components:
- name: p
  stage: 0
  command: {executable: touch, arguments: a}
- name: good
  stage: 1
  references: [stage0.p/a:copy, data/d:link, stage0.p:link]
  command: {executable: ls, arguments: "-1"}
- name: bad
  stage: 2
  references: [stage1.good/nosuch:copy]
  command: {executable: ls, arguments: "-1"}
"""


def _script(root, restart):
    import experiment
    elaunch = os.path.normpath(os.path.join(os.path.dirname(experiment.__file__), "..", "..", "scripts", "elaunch.py"))
    cmd = "%s %s --nostamp --failSafeDelays=no -l 40" % (sys.executable, elaunch)
    lines = ["cd %s" % root, "%s wf.package > run1.log 2>&1; echo $? > run1.rc" % cmd,
             "stat -c '%i %Y %s' wf.instance/stages/stage1/good/a > a.before 2>&1",
             "stat -c '%i %y' wf.instance/stages/stage1/good/out.stdout > o.before 2>&1"]
    if restart:
        lines += ["sleep 1.1", "%s -r 1 wf.instance > run2.log 2>&1; echo $? > run2.rc" % cmd,
                  "stat -c '%i %Y %s' wf.instance/stages/stage1/good/a > a.after 2>&1",
                  "stat -c '%i %y' wf.instance/stages/stage1/good/out.stdout > o.after 2>&1"]
    return "\n".join(lines) + "\n"


def start(scratch, restart):
    root = os.path.join(scratch, "cli")
    shutil.rmtree(root, ignore_errors=True)
    os.makedirs(os.path.join(root, "wf.package", "conf"))
    os.makedirs(os.path.join(root, "wf.package", "data", "d"))
    with open(os.path.join(root, "wf.package", "data", "d", "x"), "w") as f:
        f.write("x\n")
    with open(os.path.join(root, "wf.package", "conf", "flowir_package.yaml"), "w") as f:
        f.write(FLOWIR)
    with open(os.path.join(root, "run.sh"), "w") as f:
        f.write(_script(root, restart))
    env = dict(os.environ, LOGNAME="%s-cli" % os.environ.get("LOGNAME", "verif"))
    env.pop("PYTHONHASHSEED", None)
    return root, restart, subprocess.Popen(["/bin/sh", os.path.join(root, "run.sh")], env=env, stdout=subprocess.DEVNULL, stderr=subprocess.DEVNULL)


def _read(p):
    try:
        with open(p) as f:
            return f.read()
    except OSError:
        return None


def finish(handle):
    """-> list of (key, what) problems; raises RuntimeError when the scenario could not be run at all"""
    root, restart, proc = handle
    try:
        proc.wait(timeout=1500)
    except subprocess.TimeoutExpired:
        proc.kill()
        raise RuntimeError("the elaunch scenario did not end within 25 minutes")
    inst = os.path.join(root, "wf.instance")
    if not os.path.isdir(os.path.join(inst, "stages")):
        raise RuntimeError("elaunch did not create an instance:\n%s" % (_read(os.path.join(root, "run1.log")) or "")[-1500:])
    problems = []
    good = os.path.join(inst, "stages", "stage1", "good")
    bad = os.path.join(inst, "stages", "stage2", "bad")
    found = (_read(os.path.join(good, "out.stdout")) or "").split()
    if not {"a", "d", "p"} <= set(found):
        problems.append(("cli:launched-before-staged", "stage1.good ran `ls -1` in its working directory; it must find a (copy), d (link), p (link) there when it "
                         "starts; its stdout lists %s" % found))
    if not (os.path.islink(os.path.join(good, "d")) and os.path.islink(os.path.join(good, "p")) and os.path.isfile(os.path.join(good, "a"))
            and not os.path.islink(os.path.join(good, "a"))):
        problems.append(("cli:staged-kinds", "stage1.good: a must be a private file, d and p links; found %s" % sorted(os.listdir(good))))
    if os.path.exists(os.path.join(bad, "out.stdout")) or (os.path.isdir(bad) and [n for n in os.listdir(bad) if n != "nosuch"]):
        problems.append(("cli:launched-with-missing-source", "stage2.bad references stage1.good/nosuch:copy, which does not exist: it must not be launched; "
                         "its working directory holds %s" % sorted(os.listdir(bad))))
    if (_read(os.path.join(root, "run1.rc")) or "").strip() == "0":
        problems.append(("cli:missing-source-not-fatal", "the experiment succeeded although stage2.bad could not be staged"))
    if restart:
        b, a = _read(os.path.join(root, "a.before")), _read(os.path.join(root, "a.after"))
        if not b or b != a:
            problems.append(("cli:restart-without-restage-touched-inputs", "elaunch -r 1 (no --restageData): the staged copy stage1/good/a changed "
                             "(inode mtime size before: %s after: %s)" % (b, a)))
        ob, oa = _read(os.path.join(root, "o.before")), _read(os.path.join(root, "o.after"))
        if not ob or not oa or ob == oa:
            problems.append(("cli:restart-did-not-launch", "elaunch -r 1: stage1.good must be launched again (a new out.stdout); before: %s after: %s\n%s" % (
                ob, oa, (_read(os.path.join(root, "run2.log")) or "")[-800:])))
    shutil.rmtree(root, ignore_errors=True)
    return problems
