"""G07, code -> spec: seeded random histories on the real staging code, validated by TLC with spec/DataStaging_trace.tla."""
import json
import multiprocessing
import os
import random
import re
import shutil

from .common import MachineryError, SPEC
from . import tlc

LOCS = ["in", "da", "ap", "apd", "pa", "pd", "pl", "pm", "pt", "pp", "pg", "qa", "qd", "sa", "wa", "w0", "w1"]
METHODS = ["copy", "link", "ref", "copyout", "extract", "output", "loopref", "loopoutput"]
VIRTUAL = ("pp", "pg", "wa")
PCHILD = ["pa", "pd", "pl", "pm", "pt"]
WRITES = ["o", "a", "l", "d/a", "d/o", "p/a", "p/l", "p/m"]
TRACE_ACTIONS = ["begin", "again", "step", "end", "mut", "write", "restart", "iter"]
T_INV = ["TypeOK", "LinksNameSources", "MissingFails", "MissingNotLaunched", "StagedIsCurrent", "StillADirectory", "InputsAreStaged", "LaunchedIsStaged"]
T_PROP = ["TStagingLeavesSources", "TSourceChangeInvisible", "TRefStagesNothing", "TUpdChangesNoFile", "TRestartKeeps", "TOwnOutputsSurvive"]


def valid(m, l):
    if l in ("w0", "w1") or (m in ("loopref", "loopoutput") and l != "wa"):
        return False
    if m == "extract" and l not in ("pt", "pa", "pd"):
        return False
    if l == "pg" and m not in ("copy", "link", "ref"):
        return False
    if m == "output" and l in ("pp", "pd", "qd", "apd", "pg"):
        return False
    return True


UNIVERSE = [(m, l) for m in METHODS for l in LOCS if valid(m, l)]


def natural(l):
    return "dir" if l in ("apd", "pd", "qd") else "file"


def random_header(rnd, force_loop=False):
    if force_loop:
        refs = [rnd.choice([u for u in UNIVERSE if u[1] == "wa"])] + rnd.sample([u for u in UNIVERSE if u[1] != "wa"], rnd.choice([0, 1]))
        rnd.shuffle(refs)
        hd = {"refs": [{"m": m, "l": l} for m, l in refs], "rep": rnd.random() < 0.3, "mig": False}
    elif rnd.random() < 0.07:
        hd = {"refs": [{"m": "link", "l": "pp"}], "rep": False, "mig": True}
    else:
        n = rnd.choice([1, 2, 2, 3])
        refs = rnd.sample(UNIVERSE, n)
        hd = {"refs": [{"m": m, "l": l} for m, l in refs], "rep": rnd.random() < 0.3, "mig": False}
    rl = {r["l"] for r in hd["refs"]}
    rel = set(rl)
    if "pp" in rl:
        rel |= {"pa", "pd"} | ({"pl", "pm", "qa"} if rnd.random() < 0.5 else set()) | ({"pt"} if rnd.random() < 0.3 else set())
    if "pl" in rl or "pg" in rl:
        rel |= {"pa"}
    if "pm" in rl:
        rel |= {"qa"}
    if "wa" in rl:
        rel |= {"w0", "w1"}
    src = {}
    cinit = {"in": 1, "da": 2, "ap": 3, "apd": 4, "pa": 5, "pd": 6, "pt": 7, "qa": 8, "qd": 9, "sa": 10, "w0": 11, "w1": 12}
    for l in LOCS:
        if l in VIRTUAL:
            continue
        ent = {"k": "none", "c": 0, "to": ""}
        if l in rel:
            if l in ("pl", "pm"):
                ent = {"k": "link", "c": 0, "to": "pa" if l == "pl" else "qa"}
            else:
                x = rnd.random()
                k = natural(l) if x < 0.65 else "none" if x < 0.85 else ("dir" if natural(l) == "file" else "file")
                if l == "pt" and k == "dir":
                    k = "none"
                if k != "none":
                    ent = {"k": k, "c": cinit[l], "to": ""}
        src[l] = ent
    return hd, src, sorted(rel - {"pp", "pg", "pl", "pm", "wa"})


def final_kind(proj, l):
    """kind of what source location l finally is (following the links pl -> pa, pm -> qa)"""
    if l == "pp":
        return "tree"
    if l not in proj["src"]:
        return "none"
    k, _c, to = proj["src"][l]
    if k == "link":
        return final_kind(proj, to) if to in proj["src"] else "none"
    return k


def can_write(proj, t):
    """the writes the specification can express (WriteAt of DataStaging.tla), judged on the REAL projection"""
    wd = {p: (k, c, to) for p, k, c, to in proj["wd"]}
    parts = tuple(t.split("/"))
    if proj["wl"]:
        return t == "a" and final_kind(proj, "pa") in ("file", "none")
    if len(parts) == 1:
        e = wd.get(parts)
        if e is None or e[0] == "file":
            return True
        if e[0] == "link":
            return e[2] in proj["src"] and final_kind(proj, e[2]) in ("file", "none")
        return False
    top = wd.get(parts[:1])
    if top is None:
        return False
    if top[0] == "dir":
        e = wd.get(parts)
        if e is None or e[0] == "file":
            return True
        if e[0] == "link":
            if e[2] == "rel:a":
                x = wd.get((parts[0], "a"))
                return x is None or x[0] == "file"
            return e[2] in proj["src"] and final_kind(proj, e[2]) in ("file", "none")
        return False
    if top[0] == "link" and parts[1] == "a" and top[2] != "pp":
        return final_kind(proj, top[2]) == "dir"
    return False


def drive(W, world, hd, src0, mutable, rnd):
    world.reset(src0)
    trace = []

    def do(lab):
        steps, box = world.apply(lab)
        for rl, rp in steps:
            trace.append({"lab": {"e": rl[0], "a": rl[1], "b": rl[2], "n": rl[3]},
                          "wd": [{"p": list(p), "k": k, "c": c, "to": to} for p, k, c, to in rp["wd"]],
                          "src": {l: {"k": v[0], "c": v[1], "to": v[2]} for l, v in rp["src"].items()},
                          "inp": list(rp["inp"]), "wl": rp["wl"], "st": rp["st"], "res": rp["res"], "launch": rp["launch"], "ni": rp["ni"]})
        return steps[-1][1]

    proj = do(("begin", "", "", 0))
    for _ in range(rnd.randint(3, 9)):
        x = rnd.random()
        if x < 0.3 and mutable:
            l = rnd.choice(mutable)
            k = proj["src"][l][0]
            if k in ("file", "dir"):
                how = "mod" if (l == "pt" or rnd.random() < 0.6) else "rm"
            else:
                how = "mkfile" if (l == "pt" or rnd.random() < 0.6) else "mkdir"
            proj = do(("mut", l, how, 0))
        elif x < 0.55:
            cands = [t for t in WRITES if can_write(proj, t)]
            if cands:
                proj = do(("write", rnd.choice(cands), "", 0))
        elif world.loop and proj["ni"] == 1 and x < 0.72:
            proj = do(("iter", "", "", 0))
        elif x < 0.7 and proj["ni"] == 1:
            proj = do(("restart", "keep", "", 0))
        elif x < 0.88 and proj["ni"] == 1:
            proj = do(("restart", "restage", "", 0))
        else:
            proj = do(("again", "", "", 0))
    return trace


def _chunk(args):
    seeds, root = args
    from . import world_g07 as W
    out = []
    for s in seeds:
        world = None
        try:
            rnd = random.Random(s)
            hd, src0, mutable = random_header(rnd, force_loop=(s % 8 == 5))        # every 8th run is about a loop placeholder
            world = W.World(os.path.join(root, "t%d" % s), hd)
            out.append((s, hd, src0, drive(W, world, hd, src0, mutable, rnd), None))
        except Exception as e:      # noqa
            import traceback
            out.append((s, {}, {}, [], "%s: %s\n%s" % (type(e).__name__, e, traceback.format_exc()[-1000:])))
        finally:
            if world is not None:
                world.close()
    shutil.rmtree(root, ignore_errors=True)
    return out


def split(xs, n):
    k = max(1, (len(xs) + n - 1) // n)
    return [xs[i:i + k] for i in range(0, len(xs), k)]


def validate(chk, tag, runs, variant, GEN, cfg, props=True):
    """runs: [(header, src0, steps)] -> ({index: furthest position}, violated property or None, tlc result)"""
    nd = os.path.join(GEN, "traces_%s.ndjson" % tag)
    with open(nd, "w") as f:
        for hd, src0, steps in runs:
            f.write(json.dumps({"refs": hd["refs"], "rep": bool(hd["rep"]), "mig": bool(hd["mig"]), "src0": src0, "steps": steps}) + "\n")
    consts = dict(Iterates="TRUE", MutLocs="{%s}" % ", ".join('"%s"' % l for l in LOCS if l not in ("pp", "pg", "pl", "pm", "wa")), MutHows='{"mod", "rm", "mkfile", "mkdir"}',
                  WriteTargets="{%s}" % ", ".join('"%s"' % t for t in WRITES), MaxMut=99, MaxWrite=99, MaxRestart=99, MaxAgain=99, MaxEvents=99,
                  Restages="{TRUE, FALSE}", FixSkip="TRUE" if variant["skip"] else "FALSE", FixRestage="TRUE" if variant["restage"] else "FALSE",
                  TraceFile='"%s"' % nd)
    body = "SPECIFICATION TraceSpec\nINVARIANT TraceEmit\n"
    if props:
        body += "".join("INVARIANT %s\n" % i for i in T_INV) + "".join("PROPERTY %s\n" % p for p in T_PROP)
    c = cfg("trace_%s" % tag, consts, body)
    r = tlc.run_tlc("DataStaging_trace", c, specdir=GEN, workers=1, timeout=1500, expect_violation=True, jvm=["-Xss16m"])
    chk.add_tlc(r)
    reached = {}
    for o in r["cases"]:
        if isinstance(o, dict) and "tid" in o:
            reached[o["tid"] - 1] = max(reached.get(o["tid"] - 1, 0), o["pos"])
    prop = None
    if not r["ok"]:
        m = re.search(r"Invariant (\w+) is violated|Action property (\w+) is violated|property (\w+) was violated", r["out"])
        if m:
            prop = m.group(1) or m.group(2) or m.group(3)
        else:
            raise MachineryError("trace validation failed to run:\n%s" % r["out"][-3000:])
    return reached, prop, r


def code_to_spec(chk, tier, variant, GEN, cfg, seeds=None):
    n = 160 if tier == "quick" else 1200
    seeds = seeds or [chk.seed * 100000 + i for i in range(n)]
    ctx = multiprocessing.get_context("fork")
    chunks = [(ch, os.path.join(chk.scratch, "tr_%d" % i)) for i, ch in enumerate(split(seeds, 14))]
    with ctx.Pool(len(chunks)) as p:
        res = p.map(_chunk, chunks)
    runs = []
    for chunk in res:
        for sd, hd, src0, trace, problem in chunk:
            if problem:
                chk.violation("trace:exception", "seed %d: the real code / harness raised: %s" % (sd, problem), {"kind": "trace", "seed": sd})
            else:
                runs.append((sd, hd, src0, trace))
    reached, prop, r = validate(chk, "random", [(hd, s0, tr) for _sd, hd, s0, tr in runs], variant, GEN, cfg)
    if prop:
        chk.violation("trace:property:%s" % prop, "a recorded run of the real code violates %s:\n%s" % (prop, r["out"][-1500:]), {"kind": "trace-batch"})
    events = set()
    ok = 0
    for i, (sd, hd, s0, tr) in enumerate(runs):
        chk.evaluated(("trace", sd))
        got = reached.get(i, 0)
        if got < len(tr) and not prop:
            s = tr[got]
            lab = s["lab"]
            chk.violation("trace:no-action-explains:%s%s" % (lab["e"], ":" + lab["a"] if lab["e"] in ("step", "restart") else ""),
                          "seed %d [references %s, repeating %s, migrated %s]: step %d (%s) of the recorded run is not a step of the specification; "
                          "recorded after it: wd %s inputs %s staged %s res %s launch %s; history %s" % (
                              sd, ["%s:%s" % (x["l"], x["m"]) for x in hd["refs"]], hd["rep"], hd["mig"], got + 1, lab,
                              [("/".join(e["p"]), e["k"], e["c"], e["to"]) for e in s["wd"]], s["inp"], s["st"], s["res"], s["launch"],
                              [list(x["lab"].values()) for x in tr[:got]]), {"kind": "trace", "seed": sd})
        elif got >= len(tr):
            ok += 1
            chk.trace_validated()
            events |= {s["lab"]["e"] for s in tr}
    missing = set(TRACE_ACTIONS) - events
    if missing and not chk.violations:
        raise MachineryError("no validated recorded run takes the trace-spec action(s) %s" % sorted(missing))
    chk.cov["recorded_runs_validated"] = ok
    chk.cov["recorded_steps"] = sum(len(tr) for _sd, _hd, _s0, tr in runs)
    # self-test of the binding: corrupt one recorded field, the trace must be rejected
    good = [(hd, s0, tr) for i, (_sd, hd, s0, tr) in enumerate(runs) if reached.get(i, 0) >= len(tr)]
    bad = []
    for hd, s0, tr in good:
        k = next((j for j, s in enumerate(tr) if any(e["k"] == "file" for e in s["wd"])), None)
        if k is None:
            continue
        tr2 = json.loads(json.dumps(tr))
        e = next(e for e in tr2[k]["wd"] if e["k"] == "file")
        e["c"] += 1                                  # the content of one staged file
        bad.append((hd, s0, tr2, k))
        if len(bad) == 2:
            break
    for hd, s0, tr in good:
        k = next((j for j, s in enumerate(tr) if s["lab"]["e"] == "end" and s["st"]), None)
        if k is not None:
            tr2 = json.loads(json.dumps(tr))
            tr2[k]["st"] = False                     # Job.isStaged
            bad.append((hd, s0, tr2, k))
            break
    for hd, s0, tr in good:
        k = next((j for j, s in enumerate(tr) if s["inp"]), None)
        if k is not None:
            tr2 = json.loads(json.dumps(tr))
            tr2[k]["inp"] = tr2[k]["inp"][:-1]       # WorkingDirectory.inputs
            bad.append((hd, s0, tr2, k))
            break
    if len(bad) < 3:
        raise MachineryError("no recorded run suitable for the corruption self-test")
    reached2, _prop2, _r2 = validate(chk, "corrupt", [(hd, s0, tr) for hd, s0, tr, _k in bad], variant, GEN, cfg, props=False)
    accepted = [i for i, (_hd, _s0, tr, k) in enumerate(bad) if reached2.get(i, 0) > k]
    if accepted:
        raise MachineryError("self-test: %d of %d corrupted traces were accepted by DataStaging_trace.tla" % (len(accepted), len(bad)))
    chk.cov["corrupted_traces_rejected"] = len(bad)


def replay(rp):
    from .common import Check
    from .checks import g07
    chk = Check("G07", "quick")
    os.makedirs(g07.GEN, exist_ok=True)
    try:
        variant = g07.probe_variant(chk)
        if "seed" not in rp:
            print("re-run ./check G07")
            return chk.finish()
        (sd, hd, s0, tr, problem), = _chunk(([rp["seed"]], os.path.join(chk.scratch, "tr")))
        chk.evaluated(("trace", sd))
        if problem:
            chk.violation("trace:exception", problem, rp)
        else:
            reached, prop, _r = validate(chk, "replay", [(hd, s0, tr)], variant, g07.GEN, g07.cfg)
            if prop:
                chk.violation("trace:property:%s" % prop, "the recorded run violates %s" % prop, rp)
            elif reached.get(0, 0) < len(tr):
                chk.violation("trace:no-action-explains:%s" % tr[reached.get(0, 0)]["lab"]["e"], "seed %d: step %d is not a step of the specification" % (sd, reached.get(0, 0) + 1), rp)
            else:
                chk.trace_validated()
        return chk.finish()
    finally:
        shutil.rmtree(g07.GEN, ignore_errors=True)
