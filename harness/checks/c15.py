"""C15 -- Loading a package is deterministic.  Spec: spec/UserVars.tla  (worker: harness/c15_worker.py)

1. TLC: the loop of layer_many_variable_files (one LayerFile action per file of the list) computes "the last definer
   wins" for every prefix of every list over three files (repetitions included) and every assignment of shapes;
   the oracle does not read the presentation of the input (PresentationIrrelevant); the result does depend on the
   order of the list (OrderNeverMatters must be VIOLATED -- vacuity guard).
2. spec -> code: every (shapes, list) case emitted by TLC is loaded by the real code in SEPARATE PROCESSES with
   different PYTHONHASHSEED, each process reading its own variant of the same documents (mapping keys in a different
   order) through a shuffled os.listdir/os.scandir/glob:
     (i)  the command lines of the stage-0 / stage-1 components and the layered user variables must be the spec's;
          entry points, every case: FlowIRExperimentConfiguration.__init__ (parsed package document) and .parametrize of a
          loaded package; every k-th order-sensitive case in addition: ExperimentConfigurationFactory.configurationForExperiment
          on the package directory, WorkflowGraph.graphFromPackage and Experiment.experimentFromPackage (new instance);
     (ii) the canonical dumps must be byte-identical across the processes.
3. a sample of richer packages (replication + aggregation, platforms, environments, a DSL 2 namespace with duplicate step
   names, memoization chain with input/data files) is instantiated in every process: component names, edges, resolved
   configurations, environments, command lines, memoization hashes must be byte-identical (no oracle needed).
4. environment key-order family: a package whose environments refer to their own keys in chains of depth >= 2, to launch
   variables, with DEFAULTS lists and platform-over-default layering; for EVERY mapping of the document every key order
   (all permutations up to 4 keys, identity/reverse/samples beyond) is a separate package, loaded in every process for both
   platforms; environmentWithName (expanded and raw) and environmentForNode must be byte-identical to those of the document
   as written (key = the mapping whose order mattered).
5. scoping family (spec/UserVarsScope.tla): one stage, three components that define / inherit `prefix` (component > stage > global)
   and chain through it (label = "%(prefix)s-x"); TLC checks Scoping, NoLeak, OrderFree over every visiting order; every emitted case
   is loaded NON-primitively (replicate() -> FlowIRConcrete.instance(), in memory; every k-th also from disk with instance-file
   generation) in every process: resolved variables and command lines must be the spec's and equal across hash seeds.
"""
import copy
import json
import os
import random
import subprocess
import sys

import yaml

from ..common import Check, MachineryError, SPEC, VERIF, seed as verif_seed
from .. import tlc

PID = "C15"
WORKER = os.path.join(VERIF, "harness", "c15_worker.py")
INVARIANTS = ["TypeOK", "LastDefinerWins", "NothingLostNothingInvented", "RepetitionKeepsLast"]

TIERS = {
    "quick": dict(shapes=["none", "gv", "sv", "gv+gw", "sw"], maxlen=3, nseeds=4, slices=4, e3_every=4, scope_instance_every=6),
    "thorough": dict(shapes=["none", "gv", "sv", "gv+sv", "gv+gw", "sw", "sv+sw"], maxlen=3, nseeds=6, slices=3, e3_every=3, scope_instance_every=2),
}
KEYS_OF = {"none": [], "gv": ["gv"], "sv": ["sv"], "gv+sv": ["gv", "sv"], "gw": ["gw"], "gv+gw": ["gv", "gw"], "sv+gw": ["sv", "gw"],
           "sw": ["sw"], "sv+sw": ["sv", "sw"]}


def hash_seeds(n):
    derived = [(verif_seed() * 2654435761 + 40503 * (i + 1)) % 4294967295 for i in range(8)]
    base = [0, 1, 2] + derived[:1] + [3, 4, 5] + derived[1:]
    out = []
    for s in base:
        if s not in out:
            out.append(s)
    return out[:n]


def write_cfg(path, t, emit, invariants, props=()):
    body = "CONSTANTS\n  Shapes = {%s}\n  MaxLen = %d\n  NumPres = %d\n  Emit = %s\nSPECIFICATION Spec\n" % (
        ", ".join('"%s"' % s for s in t["shapes"]), t["maxlen"], 1 if emit else 2, "TRUE" if emit else "FALSE")
    body += "".join("INVARIANT %s\n" % i for i in invariants) + "".join("PROPERTY %s\n" % p for p in props) + "CHECK_DEADLOCK FALSE\n"
    tmp = "%s.%d.tmp" % (path, os.getpid())
    with open(tmp, "w") as f:
        f.write(body)
    os.replace(tmp, path)
    return path


# ---------------------------------------------------------------------------------------------------------------
# documents

def shuffled(obj, rng):
    """the same document with every mapping's keys in another order (lists keep their order: it is meaningful)"""
    if isinstance(obj, dict):
        keys = list(obj)
        rng.shuffle(keys)
        return {k: shuffled(obj[k], rng) for k in keys}
    if isinstance(obj, list):
        return [shuffled(x, rng) for x in obj]
    return obj


UV_PACKAGE = {
    "variables": {"default": {"global": {"v": "pkg.v", "w": "pkg.w", "unused": "x"}},
                  "other": {"global": {"v": "other.v"}}},
    "platforms": ["default", "other"],
    "components": [
        {"name": "c0", "stage": 0, "command": {"executable": "echo", "arguments": "%(v)s %(w)s"}},
        {"name": "c1", "stage": 1, "command": {"executable": "echo", "arguments": "%(v)s %(w)s"}, "references": ["stage0.c0:ref"]},
    ]}


def var_file_doc(f, shape):
    """file f (1..3) of the given shape: the value of key k is "f<f>.<k>" as in UserVars.tla; plus a private variable"""
    doc = {"global": {"private%d" % f: "p"}}
    for k in KEYS_OF[shape]:
        if k == "gv":
            doc["global"]["v"] = "f%d.gv" % f
        elif k == "gw":
            doc["global"]["w"] = "f%d.gw" % f
        elif k == "sv":
            doc.setdefault("stages", {}).setdefault(0, {})["v"] = "f%d.sv" % f
        else:
            doc.setdefault("stages", {}).setdefault(0, {})["w"] = "f%d.sw" % f
    return doc


RICH_FLOWIR = {
    "variables": {"default": {"global": {"n": 3, "greeting": "hello", "zeta": "z", "alpha": "a"},
                              "stages": {1: {"extra": "s1"}}},
                  "fast": {"global": {"greeting": "hi", "n": 2}, "stages": {0: {"alpha": "a0"}}}},
    "platforms": ["default", "fast"],
    # dict-valued options that ONLY the stage blueprints define; ba and solo refine them differently, gen/agg/a inherit them
    "blueprint": {"default": {"global": {"resourceManager": {"lsf": {"queue": "blueprint-queue"}}},
                              "stages": {0: {"resourceManager": {"kubernetes": {"podSpec": {"nodeSelector": {"pool": "default-stage0"},
                                                                                             "schedulerName": "stage0"}}}},
                                         1: {"resourceManager": {"kubernetes": {"podSpec": {"nodeSelector": {"pool": "default-stage1"}}}}}}},
                  "fast": {"stages": {0: {"resourceManager": {"kubernetes": {"podSpec": {"nodeSelector": {"pool": "fast-stage0"},
                                                                                          "priorityClassName": "fast"}}}}}}},
    "environments": {"default": {"envA": {"DEFAULTS": "PATH:LD_LIBRARY_PATH", "A": "1", "B": "%(greeting)s", "Z": "26",
                                          "R_BIN": "$R_HOME/bin", "R_HOME": "$R_ROOT/home", "R_ROOT": "/r/$A", "PATH": "$R_BIN:$PATH"},
                                 "envB": {"X": "y", "W": "%(alpha)s"},
                                 "environment": {"GLOBAL_ONE": "1", "GLOBAL_TWO": "2"}},
                     "fast": {"envA": {"A": "2", "C": "3"}}},
    "components": [
        {"name": "gen", "stage": 0, "command": {"executable": "echo", "arguments": "%(greeting)s %(replica)s input/in.txt:ref data/d.txt:ref",
                                               "environment": "envA"},
         "references": ["input/in.txt:ref", "data/d.txt:ref"], "workflowAttributes": {"replicate": "%(n)s"},
         "variables": {"local": "l", "alpha": "component-alpha"}},
        {"name": "ba", "stage": 0, "command": {"executable": "cat", "arguments": "gen/out.txt:ref %(alpha)s %(tag)s", "environment": "envB"},
         "references": ["gen/out.txt:ref"], "variables": {"tag": "%(alpha)s-%(zeta)s-tag", "mine": "m"},
         "resourceManager": {"kubernetes": {"podSpec": {"nodeSelector": {"pool": "ba", "zone": "ba-zone"}}}}},
        # names that differ only by trailing digits, different programs, the longer one replicates (replicas sim10, sim11):
        # "sim10" reads as sim1 + "0" and as sim + "10"
        {"name": "sim", "stage": 0, "command": {"executable": "sort", "arguments": "-r"}},
        {"name": "sim1", "stage": 0, "command": {"executable": "uniq", "arguments": "-c %(replica)s"}, "workflowAttributes": {"replicate": 2}},
        {"name": "solo", "stage": 0, "command": {"executable": "echo", "arguments": "%(label)s %(local)s"},
         "variables": {"label": "%(greeting)s-%(alpha)s", "local": "solo-local", "zeta": "solo-zeta"},
         "resourceManager": {"kubernetes": {"podSpec": {"tolerations": [{"key": "solo"}], "nodeSelector": {"disk": "ssd", "pool": "solo"}}}}},
        {"name": "a", "stage": 1, "command": {"executable": "cat", "arguments": "stage0.ba/res.txt:output %(extra)s", "environment": "none"},
         "references": ["stage0.ba/res.txt:output", "data/e.txt:copy"]},
        {"name": "agg", "stage": 1, "command": {"executable": "cat", "arguments": "a:ref stage0.gen:ref"},
         "references": ["a:ref", "stage0.gen:ref"], "workflowAttributes": {"aggregate": True},
         "resourceManager": {"config": {"backend": "lsf"}, "lsf": {"queue": "normal", "dockerImage": "registry.example.com/x:1"}}},
        {"name": "last", "stage": 2, "command": {"executable": "ls", "arguments": "stage1.agg:ref input/in.txt:ref"},
         "references": ["stage1.agg:ref", "input/in.txt:ref"]},
    ]}

RICH_DSL = {
    "entrypoint": {"entry-instance": "main", "execute": [{"target": "<entry-instance>", "args": {"foo": "world", "bar": "moon"}}]},
    "workflows": [
        {"signature": {"name": "main", "parameters": [{"name": "foo"}, {"name": "bar", "default": "b"}]},
         "steps": {"first": "inner", "second": "inner", "greetings": "echo", "zz": "shout"},
         "execute": [{"target": "<first>", "args": {"foo": "%(foo)s"}},
                     {"target": "<second>", "args": {"foo": "%(bar)s"}},
                     {"target": "<greetings>", "args": {"message": "top", "other": "<first/greetings>/out.txt:ref"}},
                     {"target": "<zz>", "args": {"message": "<second/greetings>:ref", "other": "<greetings>:ref"}}]},
        {"signature": {"name": "inner", "parameters": [{"name": "foo"}]},
         "steps": {"greetings": "echo", "again": "echo"},
         "execute": [{"target": "<greetings>", "args": {"message": "hello", "other": "%(foo)s"}},
                     {"target": "<again>", "args": {"message": "<greetings>:ref", "other": "%(foo)s"}}]},
    ],
    "components": [
        {"signature": {"name": "echo", "parameters": [{"name": "message"}, {"name": "other", "default": "a default value"},
                                                      {"name": "environment", "default": {"DEFAULTS": "PATH:LD_LIBRARY_PATH", "AN_ENV_VAR": "ITS_VALUE",
                                                                                          "B_VAR": "b", "C_VAR": "c"}}]},
         "command": {"environment": "%(environment)s", "executable": "echo", "arguments": "%(message)s %(other)s"},
         "variables": {"k1": "v1", "k2": "v2"}},
        # the environment of this template EQUALS the one of `echo` as a dictionary, its keys are listed in another order
        {"signature": {"name": "shout", "parameters": [{"name": "message"}, {"name": "other", "default": "another default"},
                                                       {"name": "environment", "default": {"C_VAR": "c", "B_VAR": "b", "AN_ENV_VAR": "ITS_VALUE",
                                                                                           "DEFAULTS": "PATH:LD_LIBRARY_PATH"}}]},
         "command": {"environment": "%(environment)s", "executable": "printf", "arguments": "%(message)s %(other)s"},
         "variables": {"k3": "v3", "k1": "v1"}},
    ]}


# Environments whose variables refer to each other (chains of depth >= 2), to launch variables of the process ($VERIF_LAUNCH,
# $PATH), with DEFAULTS lists, and layered platform-over-default.  None of APP_*, L?, G? is set in the workers' shell.
ENV_PACKAGE = {
    "platforms": ["default", "hpc"],
    "variables": {"default": {"global": {"root": "/opt/demo", "tool": "tool"}}, "hpc": {"global": {"root": "/opt/hpc"}}},
    "environments": {
        "default": {
            "chain": {"APP_BIN": "$APP_HOME/bin", "APP_HOME": "${APP_ROOT}/app", "APP_ROOT": "%(root)s", "TOOL": "$VERIF_LAUNCH/%(tool)s:$APP_BIN"},
            "layered": {"DEFAULTS": "PATH:VERIF_LAUNCH", "LA": "$LB/a", "LB": "$LC/b", "LC": "/c", "PATH": "$LA:$PATH", "LAUNCHED": "$VERIF_LAUNCH/l"},
            "environment": {"GA": "$GB/ga", "GB": "$GC/gb", "GC": "/gc"},
            # the same name twice, in different case, with different contents (names are case-insensitive)
            "solver": {"SOLVER": "lower", "ONLY_LOWER": "1"}, "Solver": {"SOLVER": "mixed", "ONLY_MIXED": "1"}},
        "hpc": {"layered": {"LB": "$LD/hpcb", "LD": "/d"}, "chain": {"APP_ROOT": "/hpc/root", "EXTRA": "$APP_BIN/x"}}},
    "components": [
        {"name": "c0", "stage": 0, "command": {"executable": "echo", "arguments": "x", "environment": "chain"}},
        {"name": "c1", "stage": 0, "command": {"executable": "echo", "arguments": "x", "environment": "layered"}},
        {"name": "c2", "stage": 1, "command": {"executable": "echo", "arguments": "x"}},
        {"name": "c3", "stage": 1, "command": {"executable": "echo", "arguments": "x", "environment": "none"}},
        {"name": "c4", "stage": 1, "command": {"executable": "echo", "arguments": "x", "environment": "solver"}}]}
ENV_NAMES = ["chain", "layered", "environment", "solver", "none", None]
ENV_UNSET = ["APP_BIN", "APP_HOME", "APP_ROOT", "TOOL", "EXTRA", "LA", "LB", "LC", "LD", "LAUNCHED", "GA", "GB", "GC"]
ALL_PERMS_UPTO = 4        # mappings with at most this many keys are presented in ALL their key orders
SAMPLED_PERMS = 8         # larger mappings: identity, reverse and seeded samples


def mapping_paths(doc, path=()):
    """paths of all mappings of the document with at least two keys"""
    out = []
    if isinstance(doc, dict):
        if len(doc) >= 2:
            out.append(path)
        for k in doc:
            out += mapping_paths(doc[k], path + (k,))
    elif isinstance(doc, list):
        for i, x in enumerate(doc):
            out += mapping_paths(x, path + (i,))
    return out


def env_family():
    """[(id, mapping path, key order)]: every mapping of ENV_PACKAGE x its key orders (all of them for small mappings)"""
    return key_order_family(ENV_PACKAGE, "env", lambda path: True)


def dsl_family():
    """the same for every mapping inside the component templates of RICH_DSL (signatures, parameter defaults such as the
    `environment` dictionaries, command, variables)"""
    return key_order_family(RICH_DSL, "dsl", lambda path: len(path) >= 2 and path[0] == "components")


def key_order_family(document, prefix, wanted):
    import itertools
    fam = []
    rng = random.Random(verif_seed() * 104729 + 7)
    for path in mapping_paths(document):
        if not wanted(path):
            continue
        m = document
        for k in path:
            m = m[k]
        keys = list(m)
        if len(keys) <= ALL_PERMS_UPTO:
            orders = list(itertools.permutations(keys))
        else:
            orders = [tuple(keys), tuple(reversed(keys))]
            while len(orders) < SAMPLED_PERMS:
                o = keys[:]
                rng.shuffle(o)
                if tuple(o) not in orders:
                    orders.append(tuple(o))
        name = ".".join(str(k) for k in path) or "document"
        for n, o in enumerate(orders):
            fam.append(("%s:%s:%d" % (prefix, name, n), path, list(o)))
    return fam


def with_key_order(doc, path, order, rng):
    """ENV_PACKAGE with the mapping at `path` in the given key order and every other mapping shuffled by rng (None: as written)"""
    def rec(obj, here):
        if isinstance(obj, dict):
            if here == tuple(path):
                keys = list(order)
            else:
                keys = list(obj)
                if rng is not None:
                    rng.shuffle(keys)
            return {k: rec(obj[k], here + (k,)) for k in keys}
        if isinstance(obj, list):
            return [rec(x, here + (i,)) for i, x in enumerate(obj)]
        return obj
    return rec(copy.deepcopy(doc), ())


def env_cases(vdir):
    return [{"id": eid, "kind": "envfamily", "package": os.path.join(vdir, "envfam", "p%d.package" % n), "platforms": [None, "hpc"],
             "names": ENV_NAMES, "nodes": ["stage0.c0", "stage0.c1", "stage1.c2", "stage1.c3", "stage1.c4"]}
            for n, (eid, path, order) in enumerate(env_family())] + \
           [{"id": eid, "kind": "envfamily", "dsl": True, "package": os.path.join(vdir, "dslfam", "p%d.package" % n)}
            for n, (eid, path, order) in enumerate(dsl_family())]


# ---- scoping family (spec/UserVarsScope.tla): component > stage > global, nothing leaks between the components of a stage
SCOPE_NAMES = ["c1", "c2", "c3"]


def scope_doc(c):
    comps = []
    for i, name in enumerate(SCOPE_NAMES):
        variables = {"own%d" % i: "o"}
        if c["pdef"][i] == "literal":
            variables["prefix"] = name
        elif c["pdef"][i] == "viaglobal":
            variables["prefix"] = "%(root)s-" + name
        args = "%(prefix)s"
        if c["ldef"][i] == "ref":
            variables["label"] = "%(prefix)s-x"
            args += " %(label)s"
        comps.append({"name": name, "stage": 0, "command": {"executable": "echo", "arguments": args}, "variables": variables})
    comps.append({"name": "later", "stage": 1, "command": {"executable": "echo", "arguments": "%(prefix)s"}, "references": ["stage0.c1:ref"]})
    doc = {"variables": {"default": {"global": {"root": "R", "prefix": "g"}}}, "components": comps}
    if c["stage"]:
        doc["variables"]["default"]["stages"] = {0: {"prefix": "s"}}
    return doc


def scope_id(c):
    return "scope:%s:%s:%s" % (",".join(c["pdef"]), ",".join(c["ldef"]), "stage" if c["stage"] else "nostage")


def write_variant(vdir, k, t):
    """everything the processes of variant k read; the same documents for every k, keys ordered differently"""
    rng = random.Random(verif_seed() * 1000 + k)
    sh = (lambda d: shuffled(copy.deepcopy(d), rng)) if k else (lambda d: copy.deepcopy(d))

    def dump(path, doc):
        os.makedirs(os.path.dirname(path), exist_ok=True)
        with open(path, "w") as f:
            yaml.safe_dump(doc, f, sort_keys=False)

    def text(path, s):
        os.makedirs(os.path.dirname(path), exist_ok=True)
        with open(path, "w") as f:
            f.write(s)
    dump(os.path.join(vdir, "uv.package", "conf", "flowir_package.yaml"), sh(UV_PACKAGE))
    for f in (1, 2, 3):
        for shape in t["shapes"]:
            dump(os.path.join(vdir, "vars", "u%d_%s.yaml" % (f, shape.replace("+", "_"))), sh(var_file_doc(f, shape)))
    rich = os.path.join(vdir, "rich.package")
    dump(os.path.join(rich, "conf", "flowir_package.yaml"), sh(RICH_FLOWIR))
    for name in ("d.txt", "e.txt", "zzz.txt", "aaa.txt", "m.txt"):
        text(os.path.join(rich, "data", name), "data file %s\n" % name)
    text(os.path.join(rich, "hooks", "__init__.py"), "")
    text(os.path.join(vdir, "in.txt"), "the input\n")
    dump(os.path.join(vdir, "rich_vars_1.yaml"), sh({"global": {"greeting": "bonjour", "alpha": "user-alpha"}, "stages": {1: {"extra": "user-s1"}}}))
    dump(os.path.join(vdir, "rich_vars_2.yaml"), sh({"global": {"greeting": "hola"}, "stages": {0: {"zeta": "user-z0"}}}))
    dsl = os.path.join(vdir, "dsl.package")
    dump(os.path.join(dsl, "conf", "dsl.yaml"), sh(RICH_DSL))
    for n, (eid, path, order) in enumerate(env_family()):
        dump(os.path.join(vdir, "envfam", "p%d.package" % n, "conf", "flowir_package.yaml"),
             # only the named mapping changes its key order (so that a difference is attributed to it); documents with ALL
             # mappings shuffled per process are the rich packages above
             with_key_order(ENV_PACKAGE, path, order, None))
    for n, (eid, path, order) in enumerate(dsl_family()):
        dump(os.path.join(vdir, "dslfam", "p%d.package" % n, "conf", "dsl.yaml"), with_key_order(RICH_DSL, path, order, None))


def var_path(vdir, f, shape):
    return os.path.join(vdir, "vars", "u%d_%s.yaml" % (f, shape.replace("+", "_")))


def rich_cases(vdir):
    outs = {}
    for r in range(3):
        outs["stage0.gen%d/out.txt" % r] = "out of gen %d\n" % r
        outs["stage0.ba%d/res.txt" % r] = "res of ba %d\n" % r
    rich = os.path.join(vdir, "rich.package")
    inp = [os.path.join(vdir, "in.txt")]
    v1, v2 = os.path.join(vdir, "rich_vars_1.yaml"), os.path.join(vdir, "rich_vars_2.yaml")
    outs_fast = {k: v for k, v in outs.items() if not k.split("/")[0].endswith("2")}
    return [
        {"id": "rich:flowir:default", "kind": "rich", "package": rich, "platform": None, "inputs": inp, "outputs": outs},
        {"id": "rich:flowir:fast", "kind": "rich", "package": rich, "platform": "fast", "inputs": inp, "outputs": outs_fast},
        {"id": "rich:flowir:default+vars12", "kind": "rich", "package": rich, "platform": None, "inputs": inp, "outputs": outs, "variable_files": [v1, v2]},
        {"id": "rich:flowir:fast+vars21", "kind": "rich", "package": rich, "platform": "fast", "inputs": inp, "outputs": outs_fast, "variable_files": [v2, v1]},
        {"id": "rich:dsl:duplicate-steps", "kind": "rich", "package": os.path.join(vdir, "dsl.package"), "platform": None},
    ]


# ---------------------------------------------------------------------------------------------------------------

def case_id(c):
    return "uv:%s:%s" % (",".join(c["shape"]), "".join(str(x) for x in c["order"]))


def run_processes(chk, t, cases, seeds, with_rich=True, scope_cases=()):
    """-> {seed: {case id: dump}}"""
    jobs = []
    import shutil
    for k, s in enumerate(seeds):
        vdir0 = os.path.join(chk.scratch, "variant%d" % k)
        write_variant(vdir0, k, t)
        nsl = max(1, min(t["slices"], max(len(cases), len(scope_cases))))
        srng = random.Random(verif_seed() * 1000003 + k)
        for j in range(nsl):
            # every worker process gets its own copy of the variant (package directories included): loading a package writes
            # instance files into its conf directory, so processes sharing one package directory would disturb each other
            vdir = vdir0 if j == 0 else os.path.join(chk.scratch, "variant%d_s%d" % (k, j))
            if j:
                shutil.copytree(vdir0, vdir, symlinks=True)
        for j in range(nsl):
            vdir = vdir0 if j == 0 else os.path.join(chk.scratch, "variant%d_s%d" % (k, j))
            mine = []
            for c in cases[j::nsl]:
                mine.append({"id": case_id(c), "kind": "uservars", "package": os.path.join(vdir, "uv.package"),
                             # relative to the worker's cwd (the variant directory): the order in which the unfixed code layers the
                             # files depends on the hash of these very strings, they must not contain the pid of this run
                             "variable_files": [os.path.relpath(var_path(vdir, f, c["shape"][f - 1]), vdir) for f in c["order"]],
                             "instantiate": c.get("instantiate", False)})
            extra = (rich_cases(vdir) + env_cases(vdir)) if (with_rich and j == 0) else []
            for c in list(scope_cases)[j::nsl]:
                doc = scope_doc(c)
                mine.append({"id": scope_id(c), "kind": "scope", "names": SCOPE_NAMES, "instantiate": c.get("instantiate", False),
                             "doc_yaml": yaml.safe_dump(shuffled(doc, srng) if k else doc, sort_keys=False)})
            part = mine + extra
            job = {"scratch": os.path.join(chk.scratch, "w%d_%d" % (k, j)), "cwd": vdir, "listing_seed": verif_seed() * 7919 + 31 * k + j + 1, "cases": part}
            jp = os.path.join(chk.scratch, "job_%d_%d.json" % (k, j))
            with open(jp, "w") as f:
                json.dump(job, f)
            jobs.append((s, jp, jp.replace("job_", "out_")))
    procs = []
    for (s, jp, op) in jobs:
        env = dict(os.environ)
        env["PYTHONHASHSEED"] = str(s)
        env["VERIF_NO_REEXEC"] = "1"
        # instance creation makes a "shadow" directory /tmp/chpc-<user>-shadow/<package>-<timestamp>.shadow: parallel workers that
        # instantiate equally named packages in the same microsecond would collide there; give every worker its own user name
        env["LOGNAME"] = "%s-c15-%s" % (os.environ.get("LOGNAME", "verif"), os.path.basename(jp).replace("job_", "").replace(".json", ""))
        env["VERIF_LAUNCH"] = "/launch/dir"          # a launch variable the environments refer to
        for name in ENV_UNSET:
            env.pop(name, None)
        procs.append((s, jp, op, subprocess.Popen([sys.executable, "-W", "ignore", WORKER, jp, op], env=env, cwd=VERIF,
                                                  stdout=subprocess.PIPE, stderr=subprocess.STDOUT, text=True)))
    result = {}
    for (s, jp, op, p) in procs:
        out, _ = p.communicate(timeout=1500)
        if p.returncode != 0 or not os.path.exists(op):
            raise MachineryError("worker for PYTHONHASHSEED=%s failed (rc=%s):\n%s" % (s, p.returncode, out[-2000:]))
        d = json.load(open(op))
        if str(d["hashseed"]) != str(s):
            raise MachineryError("worker ran with PYTHONHASHSEED=%r instead of %r" % (d["hashseed"], s))
        result.setdefault(s, {}).update(d["dumps"])
    return result


def flatten_user(user):
    """get_user_variables() document -> the three keys of the spec (everything else a file defines is private)"""
    if not isinstance(user, dict):
        return {"?": user}
    g = user.get("global", {}) or {}
    s0 = (user.get("stages", {}) or {}).get("0", {}) or {}
    return {"gv": g.get("v", "undefined"), "gw": g.get("w", "undefined"), "sv": s0.get("v", "undefined"), "sw": s0.get("w", "undefined")}


ENTRY = {"e1": "init", "e1d": "init", "e2": "parametrize", "e2g": "parametrize", "e3": "experimentFromPackage"}


def defined_keys(c):
    return "+".join(k for k in ("gv", "sv", "gw", "sw") if c["expected"]["layered"][k] != "undefined") or "nothing"


def judge(chk, cases, seeds, result, index=None):
    """index: {(shapes, list) -> expected} of the whole emitted family, used to name the class of a failure: a result that
    is the specified result of ANOTHER ordering of the same files means "the files were layered in another order"."""
    import itertools
    index = index or {}
    for c in cases:
        cid = case_id(c)
        exp = c["expected"]
        replay = {"case": c, "seeds": seeds,
                  "other_orders": [[list(k[1]), v] for k, v in index.items() if k[0] == tuple(c["shape"]) and set(k[1]) == set(c["order"])
                                   and len(k[1]) == len(set(k[1]))]}
        per_seed = {s: result[s].get(cid) for s in seeds}
        if any(v is None for v in per_seed.values()):
            raise MachineryError("case %s missing from a worker's output" % cid)
        chk.evaluated(("uv", cid), nontrivial=len(c["order"]) > 1)
        want = {"c0": exp["c0"], "c1": exp["c1"], "user": exp["layered"]}
        others = []
        for perm in itertools.permutations(sorted(set(c["order"]))):
            e2 = index.get((tuple(c["shape"]), tuple(perm)))
            if e2 is not None:
                others.append({"c0": e2["c0"], "c1": e2["c1"], "user": e2["layered"]})
        for e in ("e1", "e2", "e1d", "e2g", "e3"):
            if not all(e in per_seed[s] for s in seeds):
                continue
            wrong, permuted = [], True
            for s in seeds:
                got = per_seed[s][e]
                if "exception" in got:
                    wrong.append((s, "raised %s: %s" % (got["exception"], got["text"])))
                    permuted = False
                    continue
                have = {"c0": got["c0"], "c1": got["c1"], "user": flatten_user(got["user"])}
                if have != want:
                    wrong.append((s, "c0=%r c1=%r user=%r" % (have["c0"], have["c1"], have["user"])))
                    permuted = permuted and have in others
            if wrong:
                key = "uservars:%s:files-layered-in-another-order" % ENTRY[e] if permuted else \
                      "uservars:%s:wrong-result:defined=%s" % (ENTRY[e], defined_keys(c))
                chk.violation(key, "files %s given in the order %s: specified c0=%r c1=%r layered=%r; %s" % (
                                  c["shape"], c["order"], exp["c0"], exp["c1"], exp["layered"],
                                  "; ".join("PYTHONHASHSEED=%s -> %s" % w for w in wrong[:4])), replay)
                continue
            texts = {s: json.dumps(per_seed[s][e], sort_keys=True) for s in seeds}
            if len(set(texts.values())) > 1:
                chk.violation("nondeterministic:uservars:%s" % ENTRY[e],
                              "files %s order %s: dumps differ between processes: %s" % (c["shape"], c["order"], texts), replay)
        chk.sample({"shape": c["shape"], "order": c["order"], "expected": exp,
                    "observed": {str(s): {e: per_seed[s][e].get("c0") for e in per_seed[s]} for s in seeds}}, limit=3)


def diff_paths(a, b, path=""):
    if type(a) != type(b):
        return [path or "/"]
    if isinstance(a, dict):
        out = []
        for k in sorted(set(a) | set(b)):
            if k not in a or k not in b:
                out.append("%s/%s" % (path, k))
            else:
                out += diff_paths(a[k], b[k], "%s/%s" % (path, k))
        return out
    if isinstance(a, list):
        if len(a) != len(b):
            return [path + "[len]"]
        out = []
        for i, (x, y) in enumerate(zip(a, b)):
            out += diff_paths(x, y, "%s[%d]" % (path, i))
        return out
    return [] if a == b else [path]


def field_of(path):
    """/components/<node>/<field>... -> <field>;  /<top>... -> <top>   (list indices dropped)"""
    parts = [p.split("[")[0] for p in path.strip("/").split("/")]
    return parts[2] if parts[0] == "components" and len(parts) > 2 else parts[0]


def judge_rich(chk, seeds, result, ids):
    for rid in ids:
        dumps = {s: result[s].get(rid) for s in seeds}
        if any(v is None for v in dumps.values()):
            raise MachineryError("rich case %s missing from a worker's output" % rid)
        for s in seeds:
            if "exception" in dumps[s] and "nodes" not in dumps[s]:
                raise MachineryError("rich package %s cannot be loaded (PYTHONHASHSEED=%s): %s" % (rid, s, dumps[s]))
        ref = dumps[seeds[0]]
        if len(ref["nodes"]) < 4 or any(m[0] is None for c in ref["components"].values() for m in [c["memoization"]]) and "flowir" in rid:
            raise MachineryError("rich package %s lost its substance: %s" % (rid, {n: c["memoization"] for n, c in ref["components"].items()}))
        chk.evaluated(("rich", rid))
        chk.trace_validated()
        if rid.startswith("rich:flowir"):
            # scoping oracle for the option only the stage blueprints define: component > stage blueprint of the active platform >
            # stage blueprint of the default platform; nothing a sibling sets may show up
            fast = ":fast" in rid
            want = {"stage0.gen": "fast-stage0" if fast else "default-stage0", "stage0.ba": "ba", "stage0.solo": "solo",
                    "stage1.a": "default-stage1", "stage1.agg": "default-stage1"}
            for s in seeds:
                prim = dumps[s].get("primitive", {})
                got = {}
                for n in want:
                    try:
                        got[n] = prim[n]["resourceManager"]["kubernetes"]["podSpec"]["nodeSelector"]["pool"]
                    except Exception:
                        got[n] = "<missing>"
                repl = {}
                for n, c in dumps[s]["components"].items():
                    base = n.rstrip("0123456789") if n.rstrip("0123456789") in want else n
                    if base in want:
                        try:
                            repl[n] = (base, c["configuration"]["resourceManager"]["kubernetes"]["podSpec"]["nodeSelector"]["pool"])
                        except Exception:
                            repl[n] = (base, "<missing>")
                bad = {n: v for n, v in got.items() if v != want[n]}
                bad.update({n: v for n, (b, v) in repl.items() if v != want[b]})
                if bad:
                    chk.violation("blueprint-scoping:%s" % rid,
                                  "PYTHONHASHSEED=%s: podSpec.nodeSelector.pool (defined by the stage blueprints, refined by ba and solo) is %s, specified %s" % (
                                      s, bad, want), {"rich": rid, "seeds": seeds})
                    break
        texts = {s: json.dumps(dumps[s], sort_keys=True) for s in seeds}
        for s in seeds[1:]:
            if texts[s] != texts[seeds[0]]:
                where = diff_paths(ref, dumps[s])[:6]
                kind = sorted({field_of(w) for w in where})
                chk.violation("nondeterministic:%s:%s" % (rid, "+".join(kind)),
                              "dumps of PYTHONHASHSEED=%s and %s differ at %s" % (seeds[0], s, where),
                              {"rich": rid, "seeds": seeds})
                break
        chk.sample({"rich": rid, "nodes": ref["nodes"], "memoization": {n: c["memoization"] for n, c in ref["components"].items()}}, limit=5)


def judge_scope(chk, scope_cases, seeds, result):
    for c in scope_cases:
        sid = scope_id(c)
        replay = {"scope": c, "seeds": seeds}
        per_seed = {s: result[s].get(sid) for s in seeds}
        if any(v is None for v in per_seed.values()):
            raise MachineryError("scope case %s missing from a worker's output" % sid)
        chk.evaluated(("scope", sid))
        reported = False
        for e in ("memory", "instance"):
            if not all(e in per_seed[s] for s in seeds):
                continue
            for s in seeds:
                got = per_seed[s][e]
                if "exception" in got:
                    chk.violation("scope:%s:exception:%s" % (e, got["exception"]), "%s raised %s: %s" % (sid, got["exception"], got["text"]), replay)
                    reported = True
                    break
                bad = []
                for i, name in enumerate(SCOPE_NAMES):
                    exp = c["expected"][i]
                    have = got[name]
                    want = {"line": exp["line"], "prefix": exp["prefix"]}
                    if c["ldef"][i] == "ref":
                        want["label"] = exp["label"]
                    seen = {k: have.get(k) for k in want}
                    if seen != want:
                        cls = ("own-prefix" if c["pdef"][i] != "absent" else "inherits-stage" if c["stage"] else "inherits-global") + \
                              ("+label" if c["ldef"][i] == "ref" else "")
                        bad.append((cls, "%s: %r, specified %r" % (name, seen, want)))
                if bad:
                    chk.violation("scope:%s:%s" % (e, bad[0][0]),
                                  "prefix defined %s (stage: %s), label %s; PYTHONHASHSEED=%s: %s" % (
                                      c["pdef"], c["stage"], c["ldef"], s, "; ".join(b[1] for b in bad)), replay)
                    reported = True
                    break
        if not reported and len({json.dumps(per_seed[s], sort_keys=True) for s in seeds}) > 1:
            chk.violation("nondeterministic:scope", "%s: dumps differ between processes: %s" % (sid, per_seed), replay)
    if scope_cases:
        c = scope_cases[len(scope_cases) // 2]
        chk.sample({"scope case": scope_id(c), "expected": c["expected"], "observed": result[seeds[0]].get(scope_id(c))}, limit=7)


def judge_env(chk, seeds, result):
    """every key order of every mapping, in every process: one and the same resolved environments"""
    fam = env_family()
    ref_id = fam[0][0]
    ref = result[seeds[0]].get(ref_id)
    if ref is None or "exception" in ref:
        raise MachineryError("environment family: reference case %s failed: %s" % (ref_id, ref))
    chain = ref["default"]["named"]["chain"]
    if not (isinstance(chain, dict) and "APP_BIN" in chain and "/launch/dir" in str(chain.get("TOOL"))):
        raise MachineryError("environment family lost its substance: %s" % chain)
    judge_family(chk, seeds, result, fam, ref, "")
    dfam = dsl_family()
    dref = result[seeds[0]].get(dfam[0][0])
    if dref is None or "exception" in dref or len(dref.get("environments", {})) < 1 or len(dref.get("components", {})) < 6:
        raise MachineryError("DSL key-order family: reference case failed or lost its substance: %s" % str(dref)[:500])
    judge_family(chk, seeds, result, dfam, dref, "dsl:")
    chk.sample({"environment family": len(fam), "dsl family": len(dfam), "chain (default platform)": chain,
                "dsl environments": dref["environments"]}, limit=6)


def judge_family(chk, seeds, result, fam, ref, label):
    ref_text = json.dumps(ref, sort_keys=True)
    for (eid, path, order) in fam:
        name = label + (".".join(str(k) for k in path) or "document")
        chk.evaluated(("env", eid))
        for s in seeds:
            got = result[s].get(eid)
            if got is None:
                raise MachineryError("environment case %s missing from the output of PYTHONHASHSEED=%s" % (eid, s))
            if json.dumps(got, sort_keys=True) != ref_text:
                where = diff_paths(ref, got)[:5]
                chk.violation("order-dependent:mapping=%s" % name,
                              "keys of %s listed as %s (PYTHONHASHSEED=%s): resolved environments differ from those of the document as written at %s; e.g. %s" % (
                                  name, order, s, where, describe_diff(ref, got, where[:1])), {"envfamily": name, "seeds": seeds})
                break


def describe_diff(a, b, paths):
    out = []
    for p in paths:
        x, y = a, b
        try:
            for k in [q for q in p.strip("/").split("/") if q]:
                x, y = x[k], y[k]
            out.append("%s: %r vs %r" % (p, x, y))
        except Exception:
            out.append(p)
    return "; ".join(out)


def scope_family(chk, gen, tier, t):
    """TLC on spec/UserVarsScope.tla: invariants over every visiting order; -> the emitted cases"""
    def cfg(name, emit, invs):
        path = os.path.join(gen, "UserVarsScope_%s_%s.cfg" % (name, tier))
        body = 'CONSTANTS\n  PrefixShapes = {"absent", "literal", "viaglobal"}\n  LabelShapes = {"absent", "ref"}\n  Emit = %s\nSPECIFICATION Spec\n' % (
            "TRUE" if emit else "FALSE")
        body += "".join("INVARIANT %s\n" % i for i in invs) + "CHECK_DEADLOCK FALSE\n"
        tmp = "%s.%d.tmp" % (path, os.getpid())
        with open(tmp, "w") as f:
            f.write(body)
        os.replace(tmp, path)
        return path
    r = tlc.run_tlc("UserVarsScope", cfg("mc", False, ["TypeOK", "Scoping", "NoLeak", "OrderFree"]), workers=8, timeout=600, coverage=True)
    if not r["ok"]:
        raise MachineryError("UserVarsScope.tla: %s fails on the model:\n%s" % (r["violated"], r["out"][-3000:]))
    if not r["coverage"].get("Visit"):
        raise MachineryError("action Visit of UserVarsScope.tla never taken: %s" % r["coverage"])
    chk.add_tlc(r)
    rw = tlc.run_tlc("UserVarsScope", cfg("witness", False, ["AlwaysOwn"]), workers=4, timeout=600, expect_violation=True)
    if rw["violated"] != "AlwaysOwn":
        raise MachineryError("vacuity guard: no component of UserVarsScope.tla inherits a variable (%s)" % rw["violated"])
    r2 = tlc.run_tlc("UserVarsScope", cfg("emit", True, ["EmitCase"]), workers=1, timeout=600)
    cases = r2["cases"]
    if len(cases) != 6 ** 3 * 2:
        raise MachineryError("UserVarsScope.tla emitted %d cases, expected %d" % (len(cases), 6 ** 3 * 2))
    cases.sort(key=scope_id)
    for n, c in enumerate(cases):
        c["instantiate"] = (n % t["scope_instance_every"] == 0)
    return cases


def run(tier):
    chk = Check(PID, tier)
    gen = os.path.join(SPEC, "gen")
    os.makedirs(gen, exist_ok=True)
    t = TIERS[tier]
    # 1. design
    c1 = write_cfg(os.path.join(gen, "UserVars_mc_%s.cfg" % tier), t, False, INVARIANTS, ["PresentationIrrelevant"])
    r = tlc.run_tlc("UserVars", c1, workers=8, timeout=600, coverage=True)
    if not r["ok"]:
        raise MachineryError("UserVars.tla: %s fails on the model:\n%s" % (r["violated"], r["out"][-3000:]))
    for act in ("LayerFile", "Represent"):
        if not r["coverage"].get(act):
            raise MachineryError("action %s of UserVars.tla never taken: %s" % (act, r["coverage"]))
    chk.add_tlc(r)
    cw = write_cfg(os.path.join(gen, "UserVars_witness_%s.cfg" % tier), t, False, ["OrderNeverMatters"])
    rw = tlc.run_tlc("UserVars", cw, workers=4, timeout=600, expect_violation=True)
    if rw["violated"] != "OrderNeverMatters":
        raise MachineryError("vacuity guard: no case of UserVars.tla depends on the order of the list (%s)" % rw["violated"])
    # 2. cases
    c2 = write_cfg(os.path.join(gen, "UserVars_emit_%s.cfg" % tier), t, True, ["EmitCase"])
    r2 = tlc.run_tlc("UserVars", c2, workers=1, timeout=600)
    cases = r2["cases"]
    import itertools
    want = sum(len(t["shapes"]) ** len(set(o)) for l in range(1, t["maxlen"] + 1) for o in itertools.product((1, 2, 3), repeat=l))
    if len(cases) != want:
        raise MachineryError("TLC emitted %d cases, expected %d" % (len(cases), want))
    cases.sort(key=case_id)
    nsens = 0
    for i, c in enumerate(cases):
        if c["sensitive"]:
            nsens += 1
            c["instantiate"] = (nsens % t["e3_every"] == 0)
    if nsens < 100:
        raise MachineryError("only %d order-sensitive cases" % nsens)
    scope_cases = scope_family(chk, gen, tier, t)
    seeds = hash_seeds(t["nseeds"])
    result = run_processes(chk, t, cases, seeds, scope_cases=scope_cases)
    index = {(tuple(c["shape"]), tuple(c["order"])): c["expected"] for c in cases}
    judge(chk, cases, seeds, result, index)
    judge_rich(chk, seeds, result, [c["id"] for c in rich_cases("x")])
    judge_env(chk, seeds, result)
    judge_scope(chk, scope_cases, seeds, result)
    chk.cov["scope_family"] = len(scope_cases)
    chk.cov["env_family"] = len(env_family())
    chk.cov["dsl_family"] = len(dsl_family())
    chk.cov["rule"] = ("user-variable family: every assignment of %d shapes to the files of the list x every list of length <= %d over the files (repetitions "
                       "included), each loaded through 2-3 entry points in %d processes (PYTHONHASHSEED %s), variants of the documents with shuffled "
                       "mapping keys, shuffled directory listings; rich packages: %d, all processes" % (
                           len(t["shapes"]), t["maxlen"], len(seeds), seeds, len(rich_cases("x"))))
    chk.cov["exhaustive"] = True
    chk.cov["order_sensitive_cases"] = nsens
    chk.cov["hash_seeds"] = seeds
    chk.assumptions += [
        "TLC cannot vary a hash seed: nondeterminism is searched by comparing %d processes; a dependence that needs a seed outside this set is missed" % len(seeds),
        "the scoping rule stage-over-global applied after layering is modelled as the code does it (property only fixes the layering of files)",
        "a file named twice in the list counts at its last position (layering semantics); variable files are YAML",
        "determinism of the rich packages is checked on the projection named by the property (names, edges, resolved configurations, environments, "
        "command lines, memoization hashes), not on the bytes of generated instance files"]
    return chk.finish()


def replay(path):
    d = json.load(open(path))
    chk = Check(PID, "quick")
    t = dict(TIERS["thorough"])
    t["shapes"] = sorted(KEYS_OF)
    rp = d["replay"]
    if "case" in rp:
        c = rp["case"]
        c["instantiate"] = True
        result = run_processes(chk, t, [c], rp["seeds"], with_rich=False)
        index = {(tuple(c["shape"]), tuple(o)): e for (o, e) in rp.get("other_orders", [])}
        judge(chk, [c], rp["seeds"], result, index)
    else:
        result = run_processes(chk, t, [], rp["seeds"], with_rich=True)
        if "scope" in rp:
            c = rp["scope"]
            c["instantiate"] = True
            result = run_processes(chk, t, [], rp["seeds"], with_rich=False, scope_cases=[c])
            judge_scope(chk, [c], rp["seeds"], result)
        elif "envfamily" in rp:
            judge_env(chk, rp["seeds"], result)
        else:
            judge_rich(chk, rp["seeds"], result, [rp["rich"]])
    return chk.finish()
