"""C02 -- Stage outcome does not depend on the ordering of notifications.   Spec: spec/Scheduler.tla

1. TLC explores every interleaving of task exits, notification deliveries, controller callbacks and scheduler passes
   for a family of workflow shapes x fault sequences x scan orders.  It prints every terminal (quiescent) state with
   the state the documented rule gives each component (operator Rule, computed from the shape and the fault
   sequences only).  The driver groups them per case and evaluates the property: recoverable case -> every ordering
   ends in exactly the rule state with all stages ok; unrecoverable -> some component failed, its stage is reported
   failed, every other component in its rule state or shut down.  Termination: deadlock check (a state without
   successor must be quiescent) + PROPERTY Termination under fairness.
2. code -> spec: the REAL Controller runs every case under seeded schedules; each run must terminate (quiescence
   detector), be a behaviour of the specification (trace validation by TLC), end in a terminal state TLC found for
   that case, and satisfy the property itself.
Since the growth item G02 the model has the environment action ExternalKill: termination (deadlock check) is also checked
with it switched on, and one real schedule in five kills the controller at a random turn; those runs must terminate and be
behaviours of the specification, the confluence judgement (rule, terminal states) applies to the runs that were not killed.
"""
import collections
import json
import os
import random

from ..common import Check, MachineryError
from .. import sched_check as SC
from .. import sched_shapes as SS
from .c01 import INVS, ACTIONS, FIXOBS, describe, key_for_trace, kill_env

PID = "C02"
PM_SHAPES = ["chain2", "restart", "obs", "fanin"]      # shapes whose tasks are restarted / fail next to running siblings
FINAL = ("finished", "failed", "shutdown")


def case_features(shape_name, rule):
    """Features of a case used to classify a violation (input side)."""
    nodes = SS.expand(SS.BASE_SHAPES[shape_name])
    idx = {n["node"]: i for i, n in enumerate(nodes)}
    feats = set()
    for i, n in enumerate(nodes):
        if n["repeat"]:
            for p in n["prods"]:
                pn = nodes[idx[p]]
                if pn["stage"] == n["stage"] and rule[idx[p]] in ("shutdown", "failed"):
                    feats.add("observer-with-subject-that-shuts-down-or-fails")
    return feats


def judge(shape_name, rule, unrec, cs, verdict):
    """The property on one terminal state.  Returns list of complaints."""
    nodes = SS.expand(SS.BASE_SHAPES[shape_name])
    bad = []
    if any(s not in FINAL for s in cs):
        bad.append("component not in a final state: %s" % (cs,))
    if not unrec:
        if list(cs) != list(rule):
            bad.append("final states %s differ from the rule %s" % (list(cs), list(rule)))
        if any(v == "failed" for v in verdict):
            bad.append("a stage is reported failed although no task exits unrecoverably: %s" % (verdict,))
    else:
        failed = [i for i, s in enumerate(cs) if s == "failed"]
        if not failed:
            bad.append("unrecoverable exit but no component failed: %s" % (cs,))
        elif not any(nodes[i]["stage"] < len(verdict) and verdict[nodes[i]["stage"]] == "failed" for i in failed):
            bad.append("no stage containing a failed component is reported failed: cs=%s verdict=%s" % (cs, verdict))
        for i, s in enumerate(cs):
            if s != "failed" and s not in (rule[i], "shutdown"):
                bad.append("component %s ends %s, neither its rule state %s nor shut down" % (nodes[i]["node"], s, rule[i]))
    return bad


def key_for(shape_name, rule, complaint_kind):
    feats = case_features(shape_name, rule)
    if "observer-with-subject-that-shuts-down-or-fails" in feats:
        return "outcome:observer-with-subject-that-shuts-down-or-fails"
    return "outcome:%s:%s" % (shape_name, complaint_kind)


def run(tier):
    chk = Check(PID, tier)
    thorough = tier == "thorough"
    shapes = SS.THOROUGH if thorough else SS.QUICK
    rnd = random.Random(chk.seed)
    # 1a. termination on the model: no deadlock except quiescence; liveness under fairness
    r = SC.model_check("c02dl" + tier, shapes, [], INVS, fixobs=FIXOBS, deadlock=True)
    if r["violated"]:
        raise MachineryError("Scheduler.tla: %s on the model (a non-quiescent state without successor = a stage that never ends):\n%s" % (
            r["violated"], r["out"][-3000:]))
    for a in ACTIONS:
        if not r["coverage"].get(a):
            raise MachineryError("action %s never taken (vacuous model run): %s" % (a, r["coverage"]))
    chk.add_tlc(r)
    # termination with the environment allowed to kill the controller at any time during a stage (two scan orders per shape)
    r = SC.model_check("c02dlkill" + tier, shapes, [], INVS + ["KillReachesAll"], fixobs=FIXOBS, deadlock=True, kill=True, all_orders=False)
    if r["violated"]:
        raise MachineryError("Scheduler.tla with ExternalKill: %s on the model:\n%s" % (r["violated"], r["out"][-3000:]))
    if not r["coverage"].get("ExternalKill"):
        raise MachineryError("action ExternalKill never taken: %s" % r["coverage"])
    chk.add_tlc(r)
    live_shapes = shapes if thorough else shapes[:6]
    r = SC.model_check("c02live" + tier, live_shapes, ["Termination"], [], fixobs=FIXOBS, coverage=False, liveness=True)
    if r["violated"]:
        raise MachineryError("Scheduler.tla: Termination fails under fairness:\n%s" % r["out"][-3000:])
    chk.add_tlc(r)
    # 1b. terminal states per case
    r = SC.emit_terminals("c02" + tier, shapes, fixobs=FIXOBS)
    chk.add_tlc(r)
    terms = collections.defaultdict(set)
    meta = {}
    for t in r["cases"]:
        k = (t["sid"], tuple(t["oa"]))
        terms[k].add((tuple(t["cs"]), tuple(t["verdict"])))
        meta[k] = (t["rule"], t["unrecoverable"])
    if len(terms) < 20:
        raise MachineryError("TLC emitted terminal states for only %d cases" % len(terms))
    model_bad = 0
    for k in sorted(terms):
        sn = shapes[k[0] - 1]
        rule, unrec = meta[k]
        for cs, verdict in sorted(terms[k]):
            for complaint in judge(sn, rule, unrec, cs, verdict):
                model_bad += 1
                chk.violation(key_for(sn, rule, "model"), "model (all orderings): %s outcomes=%s: %s" % (sn, list(k[1]), complaint),
                              dict(kind="model", shape=sn, oa=list(k[1]), terminal=[list(cs), list(verdict)]))
        chk.evaluated(("model", sn, k[1]))
    chk.cov["model_cases"] = len(terms)
    chk.cov["model_terminal_states"] = sum(len(v) for v in terms.values())
    # 2. real runs
    cases = SC.all_cases(shapes, None if thorough else 14, rnd)
    nsched = 14 if thorough else 4
    runs = SC.run_real(cases, nsched, chk.scratch, chk.seed + 7, per_shape_budget=120 if thorough else 40, env_for=kill_env)
    results, tl = SC.validate_traces("c02" + tier, shapes, runs, fixobs=FIXOBS)
    for t in tl:
        chk.add_tlc(t)
    per_case = collections.defaultdict(set)
    killed_runs = 0
    for h, res in zip(runs, results):
        chk.evaluated((h.shape_name, tuple(h.oa), h.sched))
        rp = dict(kind="real", shape=h.shape_name, oa=h.oa, sched=h.sched)
        k = (h.sid, tuple(h.oa))
        if h.stuck or not h.quiescent:
            chk.violation("stuck:%s" % h.shape_name, "%s outcomes=%s schedule=%s never reaches quiescence: %s; last events %s" % (
                h.shape_name, h.oa, h.sched, h.stuck, json.dumps(describe(h, len(h.trace) - 2))[:1200]), rp)
            continue
        if res is not None:
            chk.violation(key_for_trace(h, res), "%s outcomes=%s schedule=%s: %s at step %s: %s" % (
                h.shape_name, h.oa, h.sched, res["kind"], res.get("step"), json.dumps(describe(h, res.get("step")))[:1200]), rp)
            continue
        chk.trace_validated()
        if h.killed:
            killed_runs += 1          # terminated and is a behaviour of the specification; no confluence claim for killed runs
            continue
        nodes = [h.ref(n) for n in h.nodes]
        cs = tuple(h.final["comps"][r_]["cs"] for r_ in nodes)
        verdict = tuple(h.final["verdict"])
        per_case[k].add((cs, verdict))
        if k not in terms:
            raise MachineryError("case %s not explored by TLC" % (k,))
        rule, unrec = meta[k]
        if (cs, verdict) not in terms[k]:
            chk.violation("outcome-not-reachable-in-spec:%s" % h.shape_name, "%s outcomes=%s schedule=%s ends %s %s; the specification allows %s" % (
                h.shape_name, h.oa, h.sched, cs, verdict, sorted(terms[k])), rp)
        for complaint in judge(h.shape_name, rule, unrec, cs, verdict):
            chk.violation(key_for(h.shape_name, rule, "real"), "real run: %s outcomes=%s schedule=%s: %s" % (h.shape_name, h.oa, h.sched, complaint), rp)
    # 2b. restart from a later stage (Controller.initialise(k > 0)), a slice of what the growth check G02 runs: every such run must
    #     terminate and be a behaviour of the specification (the rule itself is judged for these cases by G02)
    rruns = SC.run_real(SC.restart_cases(), 8 if thorough else 3, chk.scratch, chk.seed + 9, env_for=kill_env)
    rres, tl = SC.validate_traces("c02rs" + tier, SC.RESTART_SHAPES, rruns, fixobs=FIXOBS)
    for t in tl:
        chk.add_tlc(t)
    for h, res in zip(rruns, rres):
        chk.evaluated((h.shape_name, tuple(h.oa), h.start, h.sched))
        rp = dict(kind="real", shape=h.shape_name, oa=h.oa, sched=h.sched, extra=h.extra)
        if h.stuck or not h.quiescent:
            chk.violation("stuck:restart:%s" % h.shape_name, "%s outcomes=%s start=%d schedule=%s never reaches quiescence: %s" % (
                h.shape_name, h.oa, h.start, h.sched, h.stuck), rp)
        elif res is not None:
            chk.violation(key_for_trace(h, res), "%s outcomes=%s start=%d schedule=%s: %s at step %s: %s" % (
                h.shape_name, h.oa, h.start, h.sched, res["kind"], res.get("step"), json.dumps(describe(h, res.get("step")))[:1200]), rp)
        else:
            chk.trace_validated()
    chk.cov["real_runs_restarted_from_a_later_stage"] = len(rruns)
    runs = runs + rruns
    # 2c. the environment acts INSIDE postMortemCheck (which holds no lock): killController() - i.e. finish(SHUTDOWN) on every
    #     component - lands after the POSTMORTEM notification passed the finishCalled filter, either before the body of
    #     postMortemCheck or while _restartComponent / Engine.restart is preparing the restart (pre-emption points of
    #     harness/ctl.py, as in G02).  The runs are matched against the model that has the named deviation LatePostMortem, so a
    #     final state that changes after it was set shows as FinalAbsorbing / NoRunAfterFinal false on the logged real states.
    pm_cases = SC.all_cases(PM_SHAPES, None if thorough else 8, random.Random(chk.seed + 4))
    pm_envs = [dict(pm_kill_p=0.4, pm_where="pm-entry"), dict(pm_kill_p=0.7, pm_where="in-restart")]
    pruns = SC.run_real(pm_cases, 6 if thorough else 4, chk.scratch, chk.seed + 13, env_for=lambda ci, k: pm_envs[(k + ci) % 2])
    pres, tl = SC.validate_traces("c02pm" + tier, PM_SHAPES, pruns, fixobs=FIXOBS, fix_restart_race=False,
                                  invariants=SC.TRACE_INVS + ("ExactlyOneFinal",))
    for t in tl:
        chk.add_tlc(t)
    inside = collections.Counter()
    for h, res in zip(pruns, pres):
        chk.evaluated((h.shape_name, tuple(h.oa), json.dumps(h.sched)))
        rp = dict(kind="real", shape=h.shape_name, oa=h.oa, sched=h.sched)
        for where, _ref, _i in h.preempted:
            inside[where] += 1
        what = "%s outcomes=%s schedule=%s (kill inside postMortemCheck: %s)" % (h.shape_name, h.oa, h.sched, h.preempted)
        if h.stuck or not h.quiescent:
            chk.violation("stuck:kill-inside-postMortemCheck:%s" % h.shape_name, "%s never reaches quiescence: %s" % (what, h.stuck), rp)
        elif res is not None:
            chk.violation(key_for_trace(h, res), "%s: %s at step %s: %s" % (what, res["kind"], res.get("step"),
                                                                           json.dumps(describe(h, res.get("step")))[:1200]), rp)
        else:
            chk.trace_validated()
    chk.cov["real_runs_with_kill_inside_postMortemCheck"] = dict(inside)
    if not chk.violations and not (inside["pm-entry"] and inside["in-restart"]):
        raise MachineryError("no run had the kill arrive inside postMortemCheck / Engine.restart: %s" % dict(inside))
    runs = runs + pruns
    # the shape expansion and the graph the real code builds must have the same edges; a difference makes the real controller
    # schedule differently from the specification, which the trace validation above reports - if it did not, the shapes
    # (not the code) are suspect: machinery error
    drifted = [h for h in runs if getattr(h, "drift", None)]
    chk.cov["runs_with_graph_edge_drift"] = len(drifted)
    if drifted and not chk.violations and not chk.known_hit:
        raise MachineryError("the real workflow graph differs from the shape expansion but no run was rejected: %s %s" % (
            drifted[0].shape_name, drifted[0].drift))
    chk.cov["real_runs_with_external_kill_validated"] = killed_runs
    chk.cov["real_cases_with_more_than_one_outcome"] = sum(1 for v in per_case.values() if len(v) > 1)
    # how much of what the model allows did the sampled schedules of the real code actually reach?
    allowed = sum(len(terms[k]) for k in per_case)
    reached = sum(len(per_case[k] & terms[k]) for k in per_case)
    chk.cov["model_terminal_states_of_sampled_cases"] = allowed
    chk.cov["of_which_reached_by_real_runs"] = reached
    h = runs[0]
    chk.sample(dict(shape=h.shape_name, outcomes=h.oa, schedule=h.sched, final={k: v["cs"] for k, v in h.final["comps"].items()},
                    verdict=h.final["verdict"], spec_terminals=[list(map(list, t)) for t in sorted(terms[(h.sid, tuple(h.oa))])]))
    chk.cov["rule"] = ("model case = (shape, exit-reason sequence per component), all interleavings and scan orders by TLC; real case = "
                       "(shape, outcomes, seeded schedule); distinct = distinct cases; non-trivial = every case (each has >= 2 components)")
    chk.cov["exhaustive"] = False
    chk.assumptions += ["the task below Engine.restart is replaced by a fake (exits injected), threads and time by harness/world.py",
                        "TLC: exhaustive for the listed shapes / outcome sequences / scan orders; schedules of the real code are sampled",
                        "a repeating observer's task ends successfully only after it was notified that its producers finished (or was killed)"]
    return chk.finish()


def replay(path):
    from .. import ctl
    d = json.load(open(path))["replay"]
    chk = Check(PID, "quick")
    if d["kind"] == "model":
        print("model-level finding: re-run ./check C02 to re-derive; case:", d)
        chk.evaluated(("m",)); chk.evaluated(("m2",))
        return chk.finish()
    h = ctl.run_case(d["shape"], d["oa"], chk.scratch, SC.make_policy(tuple(d["sched"])), **(d.get("extra") or {}))
    for e in h.trace:
        print(e["ev"], e["arg"], e["calls"], {k: v["cs"] for k, v in e["st"]["comps"].items()})
    print("final:", {k: v["cs"] for k, v in h.final["comps"].items()}, h.final["verdict"], "stuck:", h.stuck)
    chk.evaluated(("r",)); chk.evaluated(("r2",))
    return chk.finish()
