"""G05 (growth item) -- ExecutorChain: how a component's command line, environment and pre / main / post executor chain are
built and run.  Spec: spec/ExecutorChain.tla (+ spec/ExecutorChain_trace.tla).  Real code bound: experiment.model.executors
(Command, Executor, AggregatedCommand, LocalExecutableChecker, ExecutionStack, MPIExecutor), graph.ComponentSpecification.command /
checkExecutable, data.Job.command, runtime.backends.LocalTaskGenerator, runtime.backend_interfaces.lsf.Task / LSFJobInfo.

1. TLC on the state machine of a running chain (every interleaving of step exits, kill, external removal, output transfer, polls):
   invariants + action properties with the code's deviations, the strong properties with the deviations switched off, and the
   NAMED DEVIATIONS as expected counterexamples; the promises of the two function specifications on their full grids.
2. spec -> code, build: every case TLC emits (executable resolution grid incl. the history of the process-wide cache; argument
   rendering grid) is executed on the real Command / Executor / LocalExecutableChecker; the rendering cases also end to end
   (package -> Job.command -> LocalTaskGenerator -> a real process that dumps its argv and environment); checkExecutable on real
   components.  The token tables of the specification are themselves validated against /bin/sh.
3. spec -> code, run: every bounded behaviour TLC emits (scenario x exit codes x kill / removal at every point, a Poll after every
   action; and polls only at the end) is replayed on the real lsf.Task over a lock-stepped batch daemon that executes the
   submitted command lines with real /bin/sh processes (harness/world_g05.py); compared after every step.
4. code -> spec: seeded random runs of the same world are recorded and validated by TLC with ExecutorChain_trace.tla; one recorded
   field is corrupted as a self-test of the binding (the corrupted trace must be rejected).

Switches (environment variables, default = the code at HEAD: the first two were repaired and default to FALSE; set to FALSE once /repo is repaired and the promise becomes the only
accepted behaviour): G05_CACHE_IGNORES_RESOLVE, G05_BROKEN_YIELDS_EMPTY, G05_SEMICOLON_JOIN, G05_DEAD_BEFORE_TRANSFER.
"""
import json
import multiprocessing
import os
import random
import re
import shutil
import signal
import sys
import time

from ..common import Check, MachineryError, SPEC
from .. import tlc

PID = "G05"
GEN = os.path.join(SPEC, "gen", "g05_%d" % os.getpid())


def _sw(name, default="TRUE"):
    v = os.environ.get(name, default).upper()
    if v not in ("TRUE", "FALSE"):
        raise MachineryError("%s must be TRUE or FALSE" % name)
    return v


CACHE_IGNORES = _sw("G05_CACHE_IGNORES_RESOLVE", "FALSE")     # repaired in /repo (see known_findings.json)
BROKEN_EMPTY = _sw("G05_BROKEN_YIELDS_EMPTY", "FALSE")       # repaired in /repo
SEMICOLON = _sw("G05_SEMICOLON_JOIN")
DEAD_BEFORE_TRANSFER = _sw("G05_DEAD_BEFORE_TRANSFER")

F_CACHE = "G05:resolvePath-false-returns-link-target-cached-for-other-component"
F_BROKEN = "G05:unparsable-arguments-rendered-as-empty-string"
F_SEMI = "G05:failed-pre-step-does-not-stop-chain"
F_ALIVE = "G05:task-not-alive-while-outputs-in-transit"
FINDING_TEXT = {
    F_CACHE: "LocalExecutableChecker caches by (executable, environment) only: a component with resolvePath: false gets the link target "
             "another component (resolvePath true, same executable + environment) resolved before, and vice versa",
    F_BROKEN: "Command.resolveArgumentString ignores the shell's failure: an argument string with an unbalanced quote is rendered as the "
              "EMPTY string and the task runs without arguments",
    F_SEMI: "lsf.Task joins the pre commands with '; ': a failed pre step (e.g. stage-in) neither stops the chain nor prevents main, only "
            "the exit code of the LAST pre step counts",
    F_ALIVE: "lsf.Task.isAlive() is False while the state is waiting_on_output_data_transfer (docstrings of isAlive / returncode promise True)",
}

EXE_KINDS = ["abs", "abslnk", "absmiss", "absnox", "rel", "reldot", "relmiss", "bare", "barelnk", "baremiss", "baresys", "envref", "envbrace",
             "envundef", "envbare"]
TOKENS = ["plain", "var", "brace", "undef", "sp", "sqvar", "sqsp", "dqsp", "edqsp", "esc", "ref", "sub", "semi", "star", "bsl", "base", "unbal"]
OUTCOMES = ["rc0", "rc3", "rc127", "sig9", "runlimit", "owner"]
RUN_ACTIONS = ["Submit", "StartPre", "StartMain", "StartPost", "StepExit", "MainEnd", "TransferDone", "Kill", "Remove", "Poll"]
RUN_INVARIANTS = ["TypeOK", "Ordered", "OneAtATime", "MainAfterPrePhase", "PostAfterMain", "ReportsMain", "PreFailureIsSubmissionFailure",
                  "AliveIffNoReason", "KilledIsDead"]
RUN_PROPS = ["FinalIsFrozen", "DeadStaysDead", "NothingStartsAfterGone", "StartedOnlyGrows"]


def tla_set(xs):
    return "{" + ", ".join(('"%s"' % x) if isinstance(x, str) else str(x).upper() if isinstance(x, bool) else str(x) for x in xs) + "}"


def cfg(name, consts, body):
    os.makedirs(GEN, exist_ok=True)
    c = dict(Part='"run"', Emit="FALSE", CacheIgnoresResolve=CACHE_IGNORES, BrokenYieldsEmpty=BROKEN_EMPTY, EchoEscapes="TRUE",
             SemicolonJoin=SEMICOLON, DeadBeforeTransfer=DEAD_BEFORE_TRANSFER, ExeKinds="{}", PathModes="{}", Ops="{}", Priors="{}",
             Tokens="{}", MaxTok=0, Modes="{}", CmdLevel="TRUE", PreCounts="{}", PostCounts="{}", Mpis="{}", Hybrids="{}", LsfNews="{}",
             Hostfiles="{}", MaxOdd=0, Codes="{}", MainOutcomes="{}", PollMode='"any"', MaxKill=1, History="FALSE")
    c.update(consts)
    path = os.path.join(GEN, name + ".cfg")
    with open(path, "w") as f:
        f.write("CONSTANTS\n" + "".join("  %s = %s\n" % kv for kv in c.items()) + body + "CHECK_DEADLOCK FALSE\n")
    return path


RUN_ALL = dict(PreCounts="{0, 1, 2}", PostCounts="{0, 1, 2}", Mpis="{TRUE, FALSE}", Hybrids="{TRUE, FALSE}", LsfNews="{TRUE, FALSE}",
               Hostfiles="{TRUE, FALSE}", MaxOdd=4, Codes="{0, 1}", MainOutcomes=tla_set(OUTCOMES))
RESOLVE_ALL = dict(Part='"resolve"', ExeKinds=tla_set(EXE_KINDS), PathModes=tla_set(["has", "other", "nopath"]),
                   Ops=tla_set(["ctor", "updatePath", "check", "updateAndCheck", "wrap"]), Priors=tla_set(["none", "same", "other"]))


def render_consts(tokens, maxtok, cmd_level, modes=("double-quote", "none", "junk")):
    return dict(Part='"render"', Tokens=tla_set(tokens), MaxTok=maxtok, Modes=tla_set(modes), CmdLevel="TRUE" if cmd_level else "FALSE")


def must_hold(chk, r, what):
    if not r["ok"]:
        raise MachineryError("ExecutorChain.tla: %s: %s fails on the model\n%s" % (what, r["violated"], r["out"][-2500:]))
    chk.add_tlc(r)


def must_fail(chk, r, what, prop):
    if r["violated"] != prop:
        raise MachineryError("ExecutorChain.tla: expected a counterexample to %s (%s), got %s\n%s" % (prop, what, r["violated"], r["out"][-1500:]))
    chk.add_tlc(r)


# --------------------------------------------------------------------------------------------------------------------------
# 1. the model

def model_check(chk, tier, echo_escapes):
    from concurrent.futures import ThreadPoolExecutor
    thorough = tier == "thorough"
    EE = "TRUE" if echo_escapes else "FALSE"
    run_body = "SPECIFICATION Spec\n" + "".join("INVARIANT %s\n" % i for i in RUN_INVARIANTS) + "".join("PROPERTY %s\n" % p for p in RUN_PROPS)
    small = dict(RUN_ALL, PostCounts="{0, 1}", MaxOdd=2)
    jobs = []      # (kind, name, consts, body, expected-to-fail property, coverage)
    jobs.append(("cover", "run_asis", RUN_ALL if thorough else small, run_body, None, True))
    promise = dict(RUN_ALL if thorough else small, SemicolonJoin="FALSE", DeadBeforeTransfer="FALSE", LsfNews="{TRUE}")
    jobs.append(("hold", "run_promise", promise, run_body + "".join("INVARIANT %s\n" % p for p in
                 ("NoStepAfterFailedPre", "MainNeedsAllPre", "PreStepsRun", "DeadMeansOutputsBack")), None, False))
    dev = dict(small, SemicolonJoin="TRUE", DeadBeforeTransfer="TRUE")
    for prop, what in (("NoStepAfterFailedPre", "SemicolonJoin"), ("MainNeedsAllPre", "SemicolonJoin"), ("PreStepsRun", "OldLsfDropsPre"),
                       ("DeadMeansOutputsBack", "DeadBeforeTransfer"), ("DeadMeansChainOver", "DeadBeforePost"),
                       ("WitnessMaskedFailure", "witness"), ("WitnessKilledAfterFinish", "witness"), ("WitnessKillOverridesSuccess", "witness")):
        jobs.append(("fail", "dev_" + prop, dev, "SPECIFICATION Spec\nINVARIANT %s\n" % prop, prop, False))
    # function specifications: the promises on the full grids
    res_inv = "INIT Init\nNEXT Build\n" + "".join("INVARIANT %s\n" % i for i in ("CheckedIsExecutable", "UpdatePathNeverRejects"))
    jobs.append(("hold", "resolve_promise", dict(RESOLVE_ALL, CacheIgnoresResolve="FALSE"),
                 res_inv + "INVARIANT LinkKeptUnlessAsked\nINVARIANT HistoryIndependent\n", None, False))
    for prop in ("HistoryIndependent", "LinkKeptUnlessAsked"):
        jobs.append(("fail", "resolve_dev_" + prop, dict(RESOLVE_ALL, CacheIgnoresResolve="TRUE"), "INIT Init\nNEXT Build\nINVARIANT %s\n" % prop, prop, False))
    ren = render_consts(TOKENS, 2, True)
    ren_inv = "INIT Init\nNEXT Build\n" + "".join("INVARIANT %s\n" % i for i in ("VerbatimWhenNotExpanding", "JunkModeRejected", "ExpandedOnceWhenNone"))
    jobs.append(("hold", "render_promise", dict(ren, BrokenYieldsEmpty="FALSE", EchoEscapes=EE), ren_inv + "INVARIANT BrokenRejected\n", None, False))
    jobs.append(("fail", "render_dev_BrokenRejected", dict(ren, BrokenYieldsEmpty="TRUE", EchoEscapes=EE), "INIT Init\nNEXT Build\nINVARIANT BrokenRejected\n", "BrokenRejected", False))
    jobs.append(("fail", "render_dev_ExpandedOnce", dict(ren, EchoEscapes=EE), "INIT Init\nNEXT Build\nINVARIANT ExpandedOnce\n", "ExpandedOnce", False))

    def one(job):
        kind, name, consts, body, prop, cover = job
        return job, tlc.run_tlc("ExecutorChain", cfg(name, consts, body), workers=4, timeout=1500, coverage=cover, expect_violation=prop is not None)
    with ThreadPoolExecutor(max_workers=4) as ex:
        results = list(ex.map(one, jobs))
    named = {}
    for (kind, name, consts, body, prop, cover), r in results:
        if kind == "fail":
            must_fail(chk, r, name, prop)
            named[name] = prop
        else:
            must_hold(chk, r, name)
        if cover:
            for act in RUN_ACTIONS:
                if not r["coverage"].get(act):
                    raise MachineryError("action %s of ExecutorChain.tla never taken (vacuous run): %s" % (act, r["coverage"]))
    chk.cov["named_deviations_witnessed"] = sorted(named)


# --------------------------------------------------------------------------------------------------------------------------
# pools

def pool_map(fn, chunks, procs=None):
    chunks = [c for c in chunks if c[0]]
    if not chunks:
        return []
    ctx = multiprocessing.get_context("fork")
    with ctx.Pool(min(procs or 12, len(chunks))) as p:
        return p.map(fn, chunks)


def split(xs, n):
    k = max(1, (len(xs) + n - 1) // n)
    return [xs[i:i + k] for i in range(0, len(xs), k)]


def ckey(case):
    return json.dumps(case, sort_keys=True)


def emit(chk, name, consts, inv):
    r = tlc.run_tlc("ExecutorChain", cfg(name, dict(consts, Emit="TRUE"), "INIT Init\nNEXT Build\nINVARIANT %s\n" % inv), workers=1, timeout=1500)
    if not r["ok"]:
        raise MachineryError("emission run %s failed: %s" % (name, r["out"][-1500:]))
    chk.add_tlc(r)
    seen, out = set(), []
    for c in r["cases"]:
        k = ckey(c["case"])
        if k not in seen:
            seen.add(k)
            out.append(c)
    return out


def both(chk, name, consts, switch, current):
    """-> [(case, promise, asis)]: the specification's result with the named deviation off and on"""
    prom = {ckey(c["case"]): c for c in emit(chk, name + "_promise", dict(consts, **{switch: "FALSE"}), "EmitBuilt")}
    for c in prom.values():
        WENV.update(c.get("wenv", {}))
    if current == "FALSE":
        return [(c["case"], c["res"], c["res"]) for c in prom.values()]
    asis = emit(chk, name + "_asis", dict(consts, **{switch: "TRUE"}), "EmitBuilt")
    if set(prom) != {ckey(c["case"]) for c in asis}:
        raise MachineryError("the two emission runs of %s enumerate different cases" % name)
    return [(c["case"], prom[ckey(c["case"])]["res"], c["res"]) for c in asis]


WENV = {}       # what the specification says about the environment of a wrapping Executor


class Findings:
    def __init__(self):
        self.n = {}
        self.fixed = {}

    def hit(self, key, n=1):
        self.n[key] = self.n.get(key, 0) + n

    def report(self):
        for k in sorted(self.n):
            print("KNOWN-FINDING: property=%s %s %s [%d case(s) this run]" % (PID, k, FINDING_TEXT[k], self.n[k]))


# --------------------------------------------------------------------------------------------------------------------------
# 2a. executable resolution

def _resolve_chunk(args):
    triples, root = args
    from .. import g05_build as GB
    fx = GB.Fixture(root)
    return [(case, GB.expected_resolve(fx, prom), GB.expected_resolve(fx, asis), GB.resolve_case(fx, case)) for case, prom, asis in triples]


def judge(chk, fnd, kind, case, prom, asis, got, fkey, cls, what):
    """real == promise: fine.  real == what the code is known to do instead: the finding.  Anything else: a violation."""
    chk.evaluated((kind, ckey(case)))
    if "error" in got:
        chk.violation("%s:exception:%s" % (kind, cls), "%s raised %s" % (what, got["error"]), {"kind": kind, "case": case})
        return
    if got == prom:
        return
    if got == asis and fkey is not None:
        fnd.hit(fkey)
        return
    chk.violation("%s:%s" % (kind, cls), "%s: real %s, specified %s%s" % (what, got, prom, "" if asis == prom else " (known deviation: %s)" % asis),
                  {"kind": kind, "case": case})


def check_resolve(chk, fnd, triples):
    if len(triples) < 2000:
        raise MachineryError("TLC emitted only %d resolution cases" % len(triples))
    roots = [os.path.join(chk.scratch, "fx_res_%d" % i) for i in range(12)]
    res = pool_map(_resolve_chunk, [(ch, roots[i]) for i, ch in enumerate(split(triples, 12))])
    n = 0
    for chunk in res:
        for case, prom, asis, got in chunk:
            n += 1
            judge(chk, fnd, "resolve", case, prom, asis, got, F_CACHE, "%s:%s" % (case["op"], case["k"]),
                  "executable %s, PATH %s, resolvePath %s, %s, earlier query: %s" % (case["k"], case["pm"], case["rp"], case["op"], case["prior"]))
            if case["prior"] == "other" and case["k"] == "abslnk" and case["op"] == "updateAndCheck":
                chk.sample({"resolve": case, "specified": prom, "code_at_head": asis, "real": got}, limit=8)
    chk.cov["resolve_cases"] = n


def _component_resolve_chunk(args):
    cases_exp, root, scratch = args
    from .. import g05_build as GB
    fx = GB.Fixture(root)
    cases = [c for c, _p, _a in cases_exp]
    got, inst = GB.check_executable_components(fx, cases, scratch)
    out = []
    for (case, prom, asis), g in zip(cases_exp, got):
        base = inst if case["k"] in ("rel", "reldot", "relmiss") else None

        def exp(res):
            return {"ok": False} if not res["ok"] else {"ok": True, "exe": fx.path(res["exe"], res["bare"], base=base)}
        gg = g
        if g.get("ok"):
            gg = {"ok": True, "exe": g["exe"]}
            if g["exe"] != g["job"]:
                gg = {"error": "after checkExecutable ComponentSpecification.command has %s but Job.command has %s" % (g["exe"], g["job"])}
        out.append((case, exp(prom), exp(asis), gg))
    return out


def check_component_resolve(chk, fnd, triples):
    sel = [(c, p, a) for c, p, a in triples if c["op"] == "updateAndCheck" and c["prior"] in ("none", "other") and c["rp"] != "none"]
    chunks = split(sel, 6)
    res = pool_map(_component_resolve_chunk, [(ch, os.path.join(chk.scratch, "fx_cres_%d" % i), os.path.join(chk.scratch, "pk_cres_%d" % i))
                                              for i, ch in enumerate(chunks)])
    n = 0
    for chunk in res:
        for case, prom, asis, got in chunk:
            n += 1
            judge(chk, fnd, "component-check", case, prom, asis, got, F_CACHE, "%s" % case["k"],
                  "ComponentSpecification.checkExecutable, executable %s, PATH %s, resolvePath %s, sibling checked first: %s" % (
                      case["k"], case["pm"], case["rp"], case["prior"] == "other"))
    chk.cov["component_check_cases"] = n


# --------------------------------------------------------------------------------------------------------------------------
# 2b. rendering

RAW = {"plain": "plain", "var": "$V", "brace": "${V}x", "undef": "$U", "sp": "$SP", "sqvar": "'$V'", "sqsp": "'$SP'", "dqsp": '"$SP"',
       "edqsp": '\\"$SP\\"', "esc": "\\$V", "ref": "$REF", "sub": "$(echo sub)", "semi": "';'", "star": "'*'", "bsl": "a\\tb", "base": "$BASE/f",
       "unbal": 'x"y'}


def raw_of(case):
    return " ".join(RAW[t] for t in case["toks"])


def _render_chunk(args):
    triples, root = args
    from .. import g05_build as GB
    fx = GB.Fixture(root)
    cwd0 = os.getcwd()
    out = []
    for case, prom, asis in triples:
        got = GB.render_case(fx, case, raw_of(case))
        if got.get("ok") and got.pop("cwd") != cwd0:
            got = {"error": "commandLine left the process in another working directory"}

        def exp(res):
            if not res["ok"]:
                return {"ok": False}
            e = {"ok": True, "line": fx.text(res["line"])}
            if case["wrap"]:
                e["wenv"] = dict(WENV)
            return e
        out.append((case, exp(prom), exp(asis), got))
    return out


def check_tables(chk, fx_root, echo_escapes):
    """The per-token tables of the specification are shell facts: check them against /bin/sh itself (not against st4sd)."""
    from .. import g05_build as GB
    fx = GB.Fixture(fx_root)
    r = emit(chk, "tables", dict(render_consts(TOKENS, 1, True, modes=("double-quote", "none")), EchoEscapes="TRUE" if echo_escapes else "FALSE",
                                 BrokenYieldsEmpty="TRUE"), "EmitBuilt")
    env = fx.render_env()
    n = 0
    for c in r:
        case, res = c["case"], c["res"]
        if len(case["toks"]) != 1 or case["rw"] or not case["rss"] or case["wrap"]:
            continue
        t = case["toks"][0]
        if case["mode"] == "none":
            words, rc = GB.shell_words(fx, RAW[t], env)
            if t == "unbal":
                if words is not None:
                    raise MachineryError("/bin/sh accepts the unbalanced token: the table of ExecutorChain.tla does not describe this shell")
                continue
            if words != [fx.text(w) for w in res["once"]] or words != [fx.text(w) for w in res["argv"]]:
                raise MachineryError("token %s: /bin/sh gives %s, ExecutorChain.tla W1 = %s" % (t, words, res["once"]))
        else:
            if t == "unbal":
                continue
            line = fx.text(res["line"])
            words, rc = GB.shell_words(fx, line.split(" ", 1)[1], env)
            if words != [fx.text(w) for w in res["argv"]]:
                raise MachineryError("token %s: /bin/sh makes %s of the pass-1 text %r, ExecutorChain.tla W2 = %s" % (t, words, line, res["argv"]))
        n += 1
    chk.cov["token_table_rows_validated_against_sh"] = n


def check_render(chk, fnd, tier, echo_escapes):
    EE = "TRUE" if echo_escapes else "FALSE"
    consts = dict(render_consts(TOKENS, 2, True), EchoEscapes=EE)
    triples = both(chk, "render", consts, "BrokenYieldsEmpty", BROKEN_EMPTY)
    if tier == "thorough":
        consts3 = dict(render_consts(TOKENS, 3, True, modes=("double-quote",)), EchoEscapes=EE)
        more = [t for t in both(chk, "render3", consts3, "BrokenYieldsEmpty", BROKEN_EMPTY) if len(t[0]["toks"]) == 3 and t[0]["rss"] and not t[0]["rw"] and not t[0]["wrap"]]
        triples += more
    if len(triples) < 3000:
        raise MachineryError("TLC emitted only %d rendering cases" % len(triples))
    res = pool_map(_render_chunk, [(ch, os.path.join(chk.scratch, "fx_ren_%d" % i)) for i, ch in enumerate(split(triples, 14))], procs=14)
    n = 0
    for chunk in res:
        for case, prom, asis, got in chunk:
            n += 1
            cls = "+".join(sorted(set(case["toks"]))) if len(set(case["toks"])) <= 1 else "+".join(sorted(set(case["toks"])))
            judge(chk, fnd, "render", case, prom, asis, got, F_BROKEN, "%s:%s" % (case["mode"], cls),
                  "arguments %r, expandArguments %s, resolveShellSubstitutions %s, rewrite %s, wrapped in an Executor %s" % (
                      raw_of(case), case["mode"], case["rss"], case["rw"], case["wrap"]))
            if "unbal" in case["toks"] and case["mode"] == "double-quote" and case["rss"]:
                chk.sample({"render": case, "arguments": raw_of(case), "specified": prom, "code_at_head": asis, "real": got}, limit=9)
    chk.cov["render_cases"] = n


def _e2e_chunk(args):
    triples, root, scratch = args
    from .. import g05_build as GB
    fx = GB.Fixture(root)
    cases = [c for c, _p, _a in triples]
    got = GB.run_components(fx, cases, [raw_of(c) for c in cases], scratch)
    out = []
    for (case, prom, asis), g in zip(triples, got):
        def exp(res):
            if not res["ok"]:
                return {"ok": False}
            return {"ok": True, "line": fx.text(res["line"]), "argv": [fx.text(w) for w in res["argv"]] if res["ran"] else None}
        if "error" in g:
            gg = {"ok": False, "why": g["error"]} if g["error"].startswith("ValueError") else g
        else:
            gg = {"ok": True, "line": g["line"], "argv": g["argv"]}
            if case["interp"] and g["mode"] != "none":
                gg = {"error": "interpreter component with expandArguments %r (must be none)" % g["mode"]}
            elif g["env"] is not None:
                seen = {k: v for k, v in g["env"].items() if k not in GB.SHELL_ADDED}
                want = {k: v for k, v in g["cenv"].items() if k not in GB.SHELL_ADDED}
                if seen != want:
                    gg = {"error": "process environment differs from Command.environment: only in process %s, only in command %s, different %s" % (
                        sorted(set(seen) - set(want)), sorted(set(want) - set(seen)), sorted(k for k in seen if k in want and seen[k] != want[k]))}
        out.append((case, exp(prom), exp(asis), gg))
    return out


def check_e2e(chk, fnd, tier, echo_escapes):
    EE = "TRUE" if echo_escapes else "FALSE"
    toks = [t for t in TOKENS if t != "ref"]        # a value holding "$V" cannot be written in a package: environments are expanded on load (C17)
    consts = dict(render_consts(toks, 2 if tier == "thorough" else 1, False, modes=("double-quote", "none")), EchoEscapes=EE)
    triples = both(chk, "e2e", consts, "BrokenYieldsEmpty", BROKEN_EMPTY)
    if tier != "thorough":
        rnd = random.Random(chk.seed)
        pairs = dict(render_consts(toks, 2, False, modes=("double-quote", "none")), EchoEscapes=EE)
        two = [t for t in both(chk, "e2e2", pairs, "BrokenYieldsEmpty", BROKEN_EMPTY) if len(t[0]["toks"]) == 2]
        triples += rnd.sample(two, 120)
    res = pool_map(_e2e_chunk, [(ch, os.path.join(chk.scratch, "fx_e2e_%d" % i), os.path.join(chk.scratch, "pk_e2e_%d" % i))
                                for i, ch in enumerate(split(triples, 14))], procs=14)
    n = 0
    for chunk in res:
        for case, prom, asis, got in chunk:
            n += 1
            if got.get("ok") is False:
                got = {"ok": False}
            judge(chk, fnd, "end-to-end", case, prom, asis, got, F_BROKEN, "%s:%s" % (case["mode"], "+".join(sorted(set(case["toks"])))),
                  "component arguments %r, expandArguments %s, interpreter %s (Job.command -> LocalTaskGenerator -> process)" % (
                      raw_of(case), case["mode"], "bash" if case["interp"] else None))
            if case["toks"] in (["esc"], ["sqvar"], ["dqsp"]) and case["mode"] == "double-quote" and not case["interp"]:
                chk.sample({"end_to_end": case, "arguments": raw_of(case), "real": got}, limit=12)
    chk.cov["end_to_end_cases"] = n


# --------------------------------------------------------------------------------------------------------------------------
# 3. running the chain: spec -> code

OWN = {"rank": r"cat \$LSB_RANK_HOSTFILE > \S+/djobs\.txt$", "affinity": r"cat \$LSB_AFFINITY_HOSTFILE > \S+/affinity\.txt$",
       "n1": r"echo started > \S+/started\.txt$", "n2": r"sleep \d+$", "n3": r"bstage out -src \S+/started\.txt -dst \S+/started\.txt$",
       "printenv": r"printenv\s+> \S+/environment\.txt$", "s1": r"cd \$LS_EXECCWD$", "s2": r"bstage out -src \$LSB_JOBFILENAME\.out -dst \S+$"}
GROUPS = {("n1", "n2", "n3"): "notify", ("s1", "s2"): "stageout"}


def parse_line(line):
    """a submitted pre / post command line -> (step names, separators in front of the 2nd.. top-level step) or None"""
    line = re.sub(r"\{\s+|\s*;\s*\}", "", line)          # "{ a ;b ; } && { c ; }": the groups only matter to the shell
    parts = re.split(r"\s*(;|&&)\s*", line.strip()) if line.strip() else []
    atoms, seps = [], []
    for i in range(0, len(parts), 2):
        text = parts[i].strip()
        m = re.search(r"/g05step (\w+)$", text)
        name = m.group(1) if m else None
        if name is None:
            for k, rx in OWN.items():
                if re.match(rx, text):
                    name = k
        if name is None:
            return None
        atoms.append(name)
        seps.append(parts[i - 1] if i else None)
    names, tops, i = [], [], 0
    while i < len(atoms):
        for grp, gname in GROUPS.items():
            if tuple(atoms[i:i + len(grp)]) == grp:
                names.append(gname)
                tops.append(seps[i])
                i += len(grp)
                break
        else:
            names.append(atoms[i])
            tops.append(seps[i])
            i += 1
    return names, tops[1:]


def check_submit(D, req, sc, expect):
    """what the real task handed to the batch system against the composition the specification demands"""
    bad = []
    if req is None:
        return ["lsb_submit was not called"]
    for which, line, flag, want, on, sep in (("pre", req.preExecCmd, D.has("SUB_PRE_EXEC"), expect["pre"], expect["hasPre"], expect["sep"].strip()),
                                             ("post", req.postExecCmd, D.has("SUB3_POST_EXEC", "options3"), expect["post"], True, expect["postsep"].strip())):
        if not on:
            if flag or line.strip():
                bad.append("%s-exec requested (%r) although this LSF version has none" % (which, line))
            continue
        if not flag:
            bad.append("%s-exec command line set but the option bit is not" % which)
        p = parse_line(line)
        if p is None:
            bad.append("%s-exec command line not understood: %r" % (which, line))
        elif p[0] != want:
            bad.append("%s steps %s, specified %s" % (which, p[0], want))
        elif any(s != sep for s in p[1]):
            bad.append("%s steps joined with %s, specified %r" % (which, p[1], sep))
    if not req.command.rstrip().endswith("/g05step main"):
        bad.append("main command line %r" % req.command)
    if sc["mpi"] != ("/bin/mpirun " in req.command and " -n 2 " in req.command):
        bad.append("mpi = %s but main command line is %r" % (sc["mpi"], req.command))
    if req.cwd != os.path.join(D.d, "wd"):
        bad.append("working directory %r" % req.cwd)
    return bad


def apply_action(D, a, x, sc):
    """One environment action of the specification on the real task + daemon.  -> problem text or None"""
    if a == "Submit":
        req = D.submit()
        return req
    if a == "StartPre":
        if not D.has("SUB_PRE_EXEC"):
            return "the task did not request a pre-exec command"
        if D.start_phase("pre") is None:
            D.end_pre()
    elif a == "StartMain":
        r = D.start_phase("main")
        if r != "main":
            return "main command line did not start the main step (%r, exit code %s)" % (r, D.phase_rc)
    elif a == "StartPost":
        if not D.has("SUB3_POST_EXEC", "options3"):
            return "the task did not request a post-exec command"
        if D.start_phase("post") is None:
            D.end_post()
    elif a == "StepExit":
        ph = D.job.phase
        if D.step_exit(x) is None:
            D.end_pre() if ph == "pre" else D.end_post()
    elif a == "MainEnd":
        if x in ("rc0", "rc3", "rc127"):
            r = D.step_exit(int(x[2:]))
            if r is not None:
                return "another step (%s) started from the main command line" % r
            D.end_main()
        elif x == "sig9":
            D.signal_main(signal.SIGKILL)
            D.end_main()
        else:
            D.signal_main(signal.SIGKILL if x == "runlimit" else signal.SIGTERM)
            D.end_main(x)
    elif a == "TransferDone":
        D.transfer_done()
    elif a == "Kill":
        D.kill()
    elif a == "Remove":
        D.remove()
    else:
        raise MachineryError("unknown action %s" % a)
    return None


def norm_poll(got):
    return {"state": got["state"], "reason": got["reason"] or "none", "rc": -1 if got["rc"] is None else got["rc"], "alive": got["alive"]}


def replay_chain(case, d):
    """-> (problem | None, facts): problem = (key, text)"""
    from .. import world_g05 as W
    sc = case["sc"]
    shutil.rmtree(d, ignore_errors=True)
    os.makedirs(d)
    D = W.ChainDriver(d, **sc)
    facts = {"masked": False, "deadwait": False}
    done = []
    try:
        for h in case["hist"]:
            a, x = h["a"], h["x"]
            done.append(a if a in ("Poll", "Submit") or x == 0 else "%s(%s)" % (a, x))
            if a == "Poll":
                got = norm_poll(D.poll())
                if got != x:
                    cls = "output-wait" if x["state"].startswith("waiting_on_output") else ("gone" if D.world()["phase"] == "gone" else x["reason"])
                    return ("chain:report:%s" % cls, "%s after %s: task reports %s, specified %s" % (sc, done, got, x)), facts
                if x["state"].startswith("waiting_on_output") and not got["alive"]:
                    facts["deadwait"] = True
                continue
            r = apply_action(D, a, x, sc)
            if a == "Submit":
                bad = check_submit(D, r, sc, case["expect"])
                if bad:
                    return ("chain:composition", "%s: %s" % (sc, "; ".join(bad))), facts
            elif r is not None:
                return ("chain:%s-not-possible" % a, "%s after %s: %s" % (sc, done, r)), facts
            w = D.world()
            want = {"phase": h["phase"], "cur": h["cur"], "started": h["started"], "files": sorted(h["files"])}
            if w != want:
                return ("chain:steps:%s" % a, "%s after %s: the chain is at %s, specified %s" % (sc, done, w, want)), facts
            if a == "StartMain" and D.marks.get("main") != "from-task-env":
                return ("chain:environment", "%s: the main step does not see the task's environment (G05_MARK=%r)" % (sc, D.marks.get("main"))), facts
        prev, failed = "-", False
        for h in case["hist"]:
            if h["a"] == "Poll":
                continue
            if h["a"] == "StepExit" and prev.startswith("pre") and h["x"] != 0:
                failed = True
            prev = h["cur"]
        facts["masked"] = failed and "main" in case["end"]["started"]
        return None, facts
    except W.Stuck as e:
        return ("chain:stuck", "%s after %s: %s" % (sc, done, e)), facts
    finally:
        D.close()


def _chain_chunk(args):
    cases, d = args
    out = []
    for c in cases:
        try:
            out.append(replay_chain(c, d))
        except MachineryError:
            raise
        except Exception as e:      # noqa: the real task raised
            import traceback
            out.append((("chain:exception:%s" % type(e).__name__, "%s: %s\n%s" % (c["sc"], e, traceback.format_exc()[-800:])), {"masked": False, "deadwait": False}))
    shutil.rmtree(d, ignore_errors=True)
    return out


def emit_runs(chk, name, consts):
    r = tlc.run_tlc("ExecutorChain", cfg(name, dict(consts, Emit="TRUE", History="TRUE"), "SPECIFICATION Spec\nINVARIANT EmitRun\n"), workers=1, timeout=1500)
    if not r["ok"]:
        raise MachineryError("emission run %s failed: %s" % (name, r["out"][-1500:]))
    chk.add_tlc(r)
    seen, out = set(), []
    for c in r["cases"]:
        k = ckey([c["sc"], c["hist"]])
        if k not in seen:
            seen.add(k)
            out.append(c)
    return out


def chain_cases(chk, tier):
    thorough = tier == "thorough"
    base = dict(RUN_ALL, PollMode='"always"')
    if thorough:
        cases = emit_runs(chk, "runs_always", dict(base, PostCounts="{0, 1}", MaxOdd=2))
        cases += emit_runs(chk, "runs_post2", dict(base, PreCounts="{1}", PostCounts="{2}", MaxOdd=0, MainOutcomes=tla_set(["rc0", "rc3"])))
        cases += emit_runs(chk, "runs_odd", dict(base, PreCounts="{1}", PostCounts="{1}", MaxOdd=4, MainOutcomes=tla_set(["rc0", "rc3"])))
        cases += emit_runs(chk, "runs_end", dict(RUN_ALL, PollMode='"end"', PostCounts="{0, 1}", MaxOdd=1))
    else:
        cases = emit_runs(chk, "runs_always", dict(base, PostCounts="{0, 1}", MaxOdd=1, MainOutcomes=tla_set(["rc0", "rc3"])))
        cases += emit_runs(chk, "runs_outcomes", dict(base, PreCounts="{1}", PostCounts="{1}", MaxOdd=0))
        cases += emit_runs(chk, "runs_post2", dict(base, PreCounts="{1}", PostCounts="{2}", MaxOdd=0, MainOutcomes=tla_set(["rc0", "rc3"])))
        cases += emit_runs(chk, "runs_odd", dict(base, PreCounts="{1}", PostCounts="{1}", MaxOdd=4, MainOutcomes=tla_set(["rc0"]), Codes="{0}"))
        cases += emit_runs(chk, "runs_end", dict(RUN_ALL, PollMode='"end"', PreCounts="{1}", PostCounts="{0, 1}", MaxOdd=1, MainOutcomes=tla_set(["rc0", "rc3"])))
    return cases


def spec_to_code_chain(chk, fnd, cases):
    if len(cases) < 2000:
        raise MachineryError("TLC emitted only %d chain behaviours" % len(cases))
    res = pool_map(_chain_chunk, [(ch, os.path.join(chk.scratch, "chain_%d" % i)) for i, ch in enumerate(split(cases, 14))], procs=14)
    n = masked = deadwait = 0
    for chunk, cs in zip(res, split(cases, 14)):
        for (problem, facts), case in zip(chunk, cs):
            n += 1
            chk.evaluated(("chain", ckey([case["sc"], case["hist"]])))
            if problem:
                chk.violation(problem[0], problem[1], {"kind": "chain", "case": case})
                continue
            chk.trace_validated()
            masked += facts["masked"]
            deadwait += facts["deadwait"]
    if masked and SEMICOLON == "TRUE":
        fnd.hit(F_SEMI, masked)
    if deadwait and DEAD_BEFORE_TRANSFER == "TRUE":
        fnd.hit(F_ALIVE, deadwait)
    chk.cov["chain_behaviours_replayed"] = n
    longest = max(cases, key=lambda c: len(c["hist"]))
    chk.sample({"chain_behaviour": {"sc": longest["sc"], "actions": [h["a"] if h["a"] != "StepExit" else "StepExit(%s)" % h["x"] for h in longest["hist"] if h["a"] != "Poll"],
                                    "end": longest["end"]}}, limit=14)


# --------------------------------------------------------------------------------------------------------------------------
# 4. running the chain: code -> spec

def random_run(seed, d):
    """One seeded random run of the real task on the lock-stepped daemon.  -> (scenario, [step records])"""
    from .. import world_g05 as W
    rnd = random.Random(seed)
    sc = dict(npre=rnd.choice([0, 1, 1, 2]), npost=rnd.choice([0, 1, 1, 2]), mpi=rnd.random() < 0.25, hybrid=rnd.random() < 0.35,
              lsfnew=rnd.random() < 0.85, hostfile=rnd.random() < 0.8)
    shutil.rmtree(d, ignore_errors=True)
    os.makedirs(d)
    D = W.ChainDriver(d, **sc)
    trace = []
    xfer = "na"
    killed = 0

    def log(ev, arg, poll=None):
        w = D.world()
        rec = {"ev": ev, "arg": arg, "phase": w["phase"], "cur": w["cur"], "started": w["started"], "files": w["files"], "xfer": xfer,
               "state": "-", "reason": "-", "rc": -1, "alive": True}
        if poll is not None:
            rec.update(poll)
        trace.append(rec)
    try:
        D.submit()
        log("Submit", 0)
        for _ in range(40):
            w = D.world()
            ph = w["phase"]
            opts = [("Poll", 0)] * 3
            if killed == 0:
                opts.append(("Kill", 0))
            if ph != "gone" and rnd.random() < 0.3:
                opts.append(("Remove", 0))
            if ph == "pend":
                opts += [("StartPre", 0) if D.has("SUB_PRE_EXEC") else ("StartMain", 0)] * 6
            elif ph in ("pre", "post") and w["cur"] != "-":
                opts += [("StepExit", rnd.choice([0, 0, 1]))] * 6
            elif ph == "prepared":
                opts += [("StartMain", 0)] * 6
            elif ph == "main" and w["cur"] == "main":
                opts += [("MainEnd", rnd.choice(OUTCOMES))] * 6
            elif ph == "mainover" and D.has("SUB3_POST_EXEC", "options3"):
                opts += [("StartPost", 0)] * 6
            if xfer == "pending" and ph in ("mainover", "post", "over"):
                opts += [("TransferDone", 0)] * 2
            if ph in ("over", "gone") and rnd.random() < 0.25:
                break
            ev, arg = rnd.choice(opts)
            if ev == "Poll":
                log("Poll", 0, norm_poll(D.poll()))
                continue
            problem = apply_action(D, ev, arg, sc)
            if problem is not None:
                return sc, trace, ("chain:%s-not-possible" % ev, problem)
            if ev == "Kill":
                killed += 1
            if ev == "MainEnd" and sc["hybrid"]:
                xfer = "pending"
            if ev == "TransferDone":
                xfer = "done"
            log(ev, arg)
        log("Poll", 0, norm_poll(D.poll()))
        return sc, trace, None
    except W.Stuck as e:
        return sc, trace, ("chain:stuck", str(e))
    finally:
        D.close()


def _trace_chunk(args):
    seeds, d = args
    out = []
    for s in seeds:
        try:
            out.append((s,) + random_run(s, d))
        except Exception as e:      # noqa
            import traceback
            out.append((s, {}, [], ("chain:exception:%s" % type(e).__name__, "%s\n%s" % (e, traceback.format_exc()[-800:]))))
    shutil.rmtree(d, ignore_errors=True)
    return out


def tla_val(v):
    if isinstance(v, bool):
        return "TRUE" if v else "FALSE"
    if isinstance(v, int):
        return str(v)
    if isinstance(v, str):
        return '"%s"' % v
    if isinstance(v, (list, tuple)):
        return "<<" + ", ".join(tla_val(x) for x in v) + ">>"
    raise MachineryError("cannot render %r" % (v,))


def tla_step(s):
    f = dict(s)
    files = "{" + ", ".join('"%s"' % x for x in f.pop("files")) + "}"
    return "[" + ", ".join("%s |-> %s" % (k, tla_val(v)) for k, v in f.items()) + ", files |-> " + files + "]"


def tla_sc(sc):
    return "[" + ", ".join("%s |-> %s" % (k, tla_val(v)) for k, v in sc.items()) + "]"


def validate_traces(chk, tag, runs):
    """runs: list of (scenario, steps).  -> {index: number of steps TLC could match}"""
    d = os.path.join(GEN, "trace_%s" % tag)
    shutil.rmtree(d, ignore_errors=True)
    os.makedirs(d)
    for f in ("ExecutorChain.tla", "ExecutorChain_trace.tla"):
        shutil.copy(os.path.join(SPEC, f), os.path.join(d, f))
    with open(os.path.join(d, "ExecutorChainTraceData.tla"), "w") as f:
        f.write("---- MODULE ExecutorChainTraceData ----\nEXTENDS Integers, TLC\nTraces == <<\n  %s\n>>\n====\n" % ",\n  ".join(
            "[sc |-> %s, steps |-> <<%s>>]" % (tla_sc(sc), ",\n    ".join(tla_step(s) for s in steps)) for sc, steps in runs))
    c = dict(RUN_ALL, MaxKill=99)
    body = "SPECIFICATION TraceSpec\nCONSTRAINT Furthest\nPOSTCONDITION AllAccepted\nPROPERTY TFinalIsFrozen\nPROPERTY TNothingStartsAfterGone\nPROPERTY TDeadStaysDead\n"
    cpath = cfg("trace_%s" % tag, c, body)
    shutil.copy(cpath, os.path.join(d, "trace.cfg"))
    r = tlc.run_tlc("ExecutorChain_trace", os.path.join(d, "trace.cfg"), specdir=d, workers=1, timeout=1500, expect_violation=True, coverage=True)
    chk.add_tlc(r)
    out = r["out"]
    rejected = {}
    m = re.search(r'<<\s*"REJECTED",(.*?)>>\s*\nError', out, re.S)
    if m:
        pairs = re.findall(r"(\d+) :> (\d+)", m.group(1))
        if not pairs:
            pairs = [(str(i + 1), v) for i, v in enumerate(re.findall(r"\d+", m.group(1)))]
        if not pairs:
            raise MachineryError("cannot parse REJECTED report: %s" % m.group(1)[:300])
        for t, ll in pairs:
            rejected[int(t) - 1] = int(ll)
    elif not r["ok"]:
        if r["violated"] in ("TFinalIsFrozen", "TNothingStartsAfterGone", "TDeadStaysDead"):
            return {"property": r["violated"]}, r
        raise MachineryError("trace validation failed to run:\n%s" % out[-3000:])
    shutil.rmtree(d, ignore_errors=True)
    return rejected, r


def code_to_spec(chk, tier):
    n = 120 if tier == "quick" else 600
    seeds = [chk.seed * 100000 + i for i in range(n)]
    res = pool_map(_trace_chunk, [(ch, os.path.join(chk.scratch, "rr_%d" % i)) for i, ch in enumerate(split(seeds, 12))])
    runs = []
    for chunk in res:
        for sd, sc, trace, problem in chunk:
            if problem:
                chk.violation(problem[0], "seed %d %s: %s" % (sd, sc, problem[1]), {"kind": "trace", "seed": sd})
            else:
                runs.append((sd, sc, trace))
    rej, r = validate_traces(chk, "random", [(sc, tr) for _sd, sc, tr in runs])
    if "property" in rej:
        chk.violation("trace:property:%s" % rej["property"], "a recorded run of the real task violates %s" % rej["property"], {"kind": "trace-batch"})
        rej = {}
    events = set()
    for i, (sd, sc, tr) in enumerate(runs):
        chk.evaluated(("trace", sd))
        if i in rej:
            s = tr[rej[i]] if rej[i] < len(tr) else {}
            chk.violation("trace:no-action-explains:%s" % s.get("ev"), "seed %d %s: step %d (%s) of the recorded run is not a step of the specification; "
                          "recorded: %s" % (sd, sc, rej[i] + 1, s.get("ev"), s), {"kind": "trace", "seed": sd})
        else:
            chk.trace_validated()
            events |= {s["ev"] for s in tr}
    missing = set(RUN_ACTIONS) - events
    if missing and not chk.violations:
        raise MachineryError("no validated recorded run takes the trace-spec action(s) %s" % sorted(missing))
    chk.cov["recorded_runs_validated"] = len(runs) - len(rej)
    # self-test of the binding: corrupt one recorded field, the trace must be rejected
    good = [(sc, tr) for i, (_sd, sc, tr) in enumerate(runs) if i not in rej and any(s["ev"] == "Poll" and s["reason"] != "none" for s in tr)][:3]
    if not good:
        raise MachineryError("no recorded run with a final report to corrupt")
    bad_runs = []
    for sc, tr in good:
        tr2 = [dict(s) for s in tr]
        k = max(i for i, s in enumerate(tr2) if s["ev"] == "Poll" and s["reason"] != "none")
        tr2[k]["reason"] = "Success" if tr2[k]["reason"] != "Success" else "KnownIssue"
        bad_runs.append((sc, tr2))
    tr3 = [dict(s) for s in good[0][1]]
    k = next((i for i, s in enumerate(tr3) if s["started"]), None)
    if k is not None:
        tr3[k]["started"] = tr3[k]["started"][:-1] + ["post3"]
        bad_runs.append((good[0][0], tr3))
    rej2, _r = validate_traces(chk, "corrupt", bad_runs)
    if len(rej2) != len(bad_runs):
        raise MachineryError("self-test: %d of %d corrupted traces were accepted by ExecutorChain_trace.tla" % (len(bad_runs) - len(rej2), len(bad_runs)))
    chk.cov["corrupted_traces_rejected"] = len(rej2)


# --------------------------------------------------------------------------------------------------------------------------

def run(tier):
    chk = Check(PID, tier)
    os.makedirs(GEN, exist_ok=True)
    fnd = Findings()
    try:
        from .. import g05_build as GB
        t0 = time.time()
        try:
            fx0 = GB.Fixture(os.path.join(chk.scratch, "fx0"))
        except RuntimeError as e:
            raise MachineryError(str(e))
        ee = fx0.echo_escapes
        model_check(chk, tier, ee)
        t1 = time.time()
        check_tables(chk, os.path.join(chk.scratch, "fx_tab"), ee)
        triples = both(chk, "resolve", RESOLVE_ALL, "CacheIgnoresResolve", CACHE_IGNORES)
        check_resolve(chk, fnd, triples)
        check_component_resolve(chk, fnd, triples)
        t2 = time.time()
        check_render(chk, fnd, tier, ee)
        check_e2e(chk, fnd, tier, ee)
        t3 = time.time()
        cases = chain_cases(chk, tier)
        spec_to_code_chain(chk, fnd, cases)
        t4 = time.time()
        code_to_spec(chk, tier)
        t5 = time.time()
        chk.cov["phase_wall_s"] = dict(model=round(t1 - t0, 1), resolve=round(t2 - t1, 1), render=round(t3 - t2, 1), chain=round(t4 - t3, 1), traces=round(t5 - t4, 1))
        chk.cov["echo_interprets_escapes_on_this_host"] = ee
        chk.cov["findings"] = dict(fnd.n)
        chk.cov["rule"] = ("build: EVERY case of the resolution grid (15 executable forms x 3 PATH situations x resolvePath x 5 operations x cache history) and of the "
                           "rendering grid (all sequences of <= 2 of 17 token classes x expandArguments x resolveShellSubstitutions x rewrite rule), single tokens "
                           "(+ sampled pairs) end to end through a real package and process; run: EVERY behaviour of the chain state machine for the listed "
                           "scenarios with a poll after every action (and polls only at the end) replayed on the real lsf.Task; seeded random runs validated by "
                           "TLC; distinct = distinct cases / behaviours / seeds")
        chk.cov["exhaustive"] = True
        chk.assumptions += [
            "the batch system is a stand-in for pythonlsf + LSF with the documented bsub -E / -Ep rules (pre-exec first; main only after pre-exec exit 0, else "
            "TERM_PRE_EXEC_FAIL; post-exec after main whatever its exit status; status and exit status are main's; lsb_deletejob removes the record); the command "
            "lines themselves are executed by real /bin/sh processes",
            "LSFRequestArbitrator (worker processes, 60 s request throttle) is replaced by a synchronous one: staleness of the status is not modelled",
            "the environment layering (component -> platform -> defaults) is C17's subject; here: the process sees exactly Command.environment",
            "rendering covers the 17 token classes of the specification; other shell syntax inside arguments is not explored",
            "docker / kubernetes executable checkers and DockerRun are not covered (no container runtime here)"]
        fnd.report()
        return chk.finish()
    finally:
        shutil.rmtree(GEN, ignore_errors=True)


def replay(path):
    d = json.load(open(path))
    chk = Check(PID, "quick")
    rp = d["replay"]
    fnd = Findings()
    from .. import g05_build as GB
    try:
        if rp["kind"] == "chain":
            problem, _f = replay_chain(rp["case"], os.path.join(chk.scratch, "chain"))
            chk.evaluated(("chain",))
            if problem:
                chk.violation(problem[0], problem[1], rp)
        elif rp["kind"] == "trace":
            (sd, sc, trace, problem), = _trace_chunk(([rp["seed"]], os.path.join(chk.scratch, "rr")))
            chk.evaluated(("trace", sd))
            if problem:
                chk.violation(problem[0], "seed %d: %s" % (sd, problem[1]), rp)
            else:
                rej, _r = validate_traces(chk, "replay", [(sc, trace)])
                if rej:
                    chk.violation("trace:no-action-explains", "seed %d %s: %s" % (sd, sc, rej), rp)
        else:
            print("re-run ./check G05: build cases are re-derived from the specification; case:", rp.get("case"))
        fnd.report()
        return chk.finish()
    finally:
        shutil.rmtree(GEN, ignore_errors=True)
