def code_to_spec(chk, tier, variant, GEN, cfg):
    pass
