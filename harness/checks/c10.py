"""C10 -- Command-line reference substitution is exact.  Spec: spec/Subst.tla

1. TLC checks on the design: the textual definition of exact substitution (Exact) equals the structural expectation
   (every occurrence -> the value of its own reference, literals untouched) and does not depend on the order of the
   declarations; per-action coverage is the vacuity guard.  A second run checks the named deviation `Sequential`
   (one str.replace per declared reference = today's implementation) with the invariant SequentialAgrees, which is
   EXPECTED to fail: the family must contain inputs that tell the two algorithms apart.
2. TLC emits every resolved state: declared references (in declaration order), the argument string, the expected
   result, the result of the Sequential deviation, the expected verdict of checkDataReferences.
3. spec -> code on REAL instantiated experiments: the producers of the universe (working directories with
   distinguishable out.txt files) and one consumer component per case (batches of consumers per experiment);
   `componentSpecification.resolveArguments()` is compared with the expected string, `checkDataReferences()` with the
   expected verdict.  The key of a violation is the class of the input (which relation between the declared
   references explains it), derived with the help of the Sequential prediction.
"""
import json
import os
import shutil

from ..common import Check, MachineryError, SPEC
from .. import tlc

PID = "C10"
BATCH = 200
INVARIANTS = ("TypeOK", "ExactIsStructural", "OrderIrrelevant", "NothingLeft")


def _cfg(path, body):
    with open(path, "w") as f:
        f.write(body)
    return path


def R(tokens):
    return "".join(tokens)


def contents_of(st, name):
    return "contents-of-%d-%s" % (st, name)


def file_bytes(st, name, path):
    """What the harness writes into <working dir of stage<st>.<name>>/<path>: one file per class of contents."""
    tag = ("%d-%s" % (st, name)).encode()
    base = os.path.basename(path)
    return {
        "out.txt": contents_of(st, name).encode(),                 # plain, no trailing newline
        "x.txt": b"sub-x-of-" + tag,
        "nl.txt": b"one-line-of-" + tag + b"\n",                    # trailing newline
        "nl2.txt": b"two-newlines-of-" + tag + b"\n\n",
        "crlf.txt": b"first-" + tag + b"\r\nsecond\r\n",            # CRLF line ends
        "cr.txt": b"before-" + tag + b"\rafter",                   # a lone carriage return
        "tab.txt": b"col1-" + tag + b"\tcol2",
        "utf8.txt": ("caf\u00e9-\u03bb\u2013" + tag.decode()).encode("utf-8"),
        "bin.txt": b"ok-" + tag + b"-\xff\xfe-end",                # not valid utf-8
        "empty.txt": b"",
        "inner.txt": b"line1-" + tag + b"\nline2",                 # a newline inside
        "blank.txt": b"  padded " + tag + b"  ",                   # leading / trailing blanks
    }[base]


def stdout_of(st, name, repetition):
    return "stdout-of-%d-%s%s" % (st, name, "" if repetition is None else "-repetition-%d" % repetition)


def output_value(data):
    """The documented value of an :output reference: the contents decoded as utf-8 (undecodable bytes -> U+FFFD) minus
    the trailing newline characters; everything else verbatim."""
    return data.decode("utf-8", "replace").rstrip("\n")


PRODUCER_FILES = ("out.txt", "sub/x.txt", "nl.txt", "nl2.txt", "crlf.txt", "cr.txt", "tab.txt", "utf8.txt", "bin.txt",
                  "empty.txt", "inner.txt", "blank.txt")


def spelled(ref, sp):
    return R(ref["absolute"] if sp == "abs" else ref["rel"])


def input_cause(case):
    """Which relation between the declared references of the case can confuse a substitution (class of the input)."""
    decl = case["decl"]
    if any(d["kind"] == "out" and d.get("rep") == "yes" and d.get("last", 0) < 0 and d["usage"] for d in decl):
        return "output-of-repeating-producer-without-streams"
    occ = []          # (index of the reference, text of the occurrence)
    for d in decl:
        for sp in d["usage"]:
            occ.append((d["i"], spelled(d, sp)))
    if case["extra"]:
        occ.append((-1, R(case["extra"]) if not R(case["extra"]).startswith("stage1.") else R(case["extra"]).split(".", 1)[1]))
    causes = []
    for d in decl:
        if d["kind"] == "copy":
            continue
        for j, text in occ:
            if j != d["i"] and (R(d["rel"]) in text):
                causes.append("reference-contained-in-another-reference")
    if any(set(d["usage"]) == {"rel", "abs"} for d in decl):
        causes.append("both-spellings-of-a-reference-in-one-line")
    for d in decl:
        if d.get("quotes") and d["usage"]:
            q = R(d["quotes"])
            if any(e["kind"] != "copy" and e["i"] != d["i"] and R(e["rel"]) in q for e in decl):
                causes.append("value-contains-text-of-a-declared-reference")
    present = [c for c in ("reference-contained-in-another-reference", "both-spellings-of-a-reference-in-one-line",
                           "value-contains-text-of-a-declared-reference") if c in causes]
    # one key per case: the first relation in this fixed order (so the classes are disjoint and few)
    if present:
        return present[0]
    used = [d for d in decl if d["usage"]]
    if any(R(d["file"]) and os.path.normpath(R(d["file"])) != R(d["file"]) or "*" in R(d["file"]) for d in used):
        return "file-part-spelled-unnormalised-or-glob"
    if case["style"] in ("tail", "quote"):
        return "text-glued-to-the-reference"
    if any(d.get("rep") == "direct" for d in used):
        return "direct-reference"
    if any(d.get("rep") == "loop" for d in used):
        return "reference-to-dowhile-placeholder"
    if any(d["kind"] == "out" and not R(d["file"]) for d in used):
        return "output-without-file-part"
    if any(d["kind"] == "out" and R(d["file"]) != "out.txt" for d in used):
        return "output-file-contents-class"
    if case.get("via", "literal") != "literal":
        return "declared-in-relative-spelling-at-graph-time"
    return None


class Runner:
    def __init__(self, chk):
        from .. import realenv
        import experiment.model.errors as E
        self.realenv, self.E = realenv, E
        self.chk = chk
        self.failures = {}
        self.nexp = 0
        self.stats = {"ok": 0, "mismatch": 0, "mismatch_predicted_by_sequential": 0, "sequential_differs": 0}

    def fail(self, key, what, replay):
        f = self.failures.setdefault(key, [0, []])
        f[0] += 1
        if len(f[1]) < 3:
            f[1].append((what, replay))

    def report(self):
        for key in sorted(self.failures):
            n, examples = self.failures[key]
            for what, rp in examples:
                self.chk.violation(key, "%s (%d cases of this class failed)" % (what, n), rp)
        self.failures = {}

    def run_batch(self, universe, cases):
        """one real experiment: all producers of the universe + one consumer per case"""
        sc = self.realenv.simple_component
        producers = sorted(set((u["st"], R(u["name"])) for u in universe if u.get("rep") != "direct"))
        # (repeating?, newest repetition / has run) of every producer, as the universe of the spec says
        pinfo = {}
        for u in universe:
            if u.get("rep") == "direct":
                continue
            pinfo.setdefault((u["st"], R(u["name"])), (u.get("rep", "no"), u.get("last", 0)))
            if pinfo[(u["st"], R(u["name"]))] != (u.get("rep", "no"), u.get("last", 0)):
                raise MachineryError("universe of Subst.tla describes producer %s inconsistently" % R(u["name"]))
        comps = []
        loops = [(st, nm) for st, nm in producers if pinfo[(st, nm)][0] == "loop"]
        if len(loops) > 1:
            raise MachineryError("at most one DoWhile placeholder per universe is supported by the driver")
        for st, nm in producers:
            if pinfo[(st, nm)][0] == "loop":
                # the producer is a DoWhile: a seed component, the loop document and its $import
                comps.append(sc("Generate", st, args="seed"))
                comps.append({"stage": st, "$import": "dowhile.yaml", "name": "loop", "bindings": {"seed": "stage%d.Generate:ref" % st}})
                continue
            extra = {"workflowAttributes": {"repeatInterval": 1}} if pinfo[(st, nm)][0] == "yes" else {}
            comps.append(sc(nm, st, args="produce", **extra))
        pnames = sorted(set(nm for _, nm in producers))
        varname = {nm: "n%d" % k for k, nm in enumerate(pnames)}
        via = cases[0].get("via", "literal")
        if any(c.get("via", "literal") != via for c in cases):
            raise MachineryError("a batch mixes ways of declaring references")
        names = []
        for k, case in enumerate(cases):
            refs = []
            for d in case["decl"]:
                same = d["st"] == 1
                if via == "literal":
                    refs.append(spelled(d, "rel" if (same and case["style"] == "plain") else "abs"))
                elif via == "variable":
                    # the producer's name comes from a variable: the loader leaves the reference alone
                    tail = R(d["rel"])[len(R(d["name"])):]
                    refs.append(("" if same else "stage%d." % d["st"]) + "%%(%s)s" % varname[R(d["name"])] + tail)
                else:
                    refs.append(spelled(d, "rel" if same else "abs"))
            nm = "consumer%04d" % k
            names.append(nm)
            if via == "override":
                comps.append(sc(nm, 1, args=R(case["args"]), override={"plat": {"references": refs}}))
            else:
                comps.append(sc(nm, 1, args=R(case["args"]), references=refs))
        doc = {"components": comps}
        if via == "variable":
            doc["variables"] = {"default": {"global": {v: n for n, v in varname.items()}}}
        if via == "override":
            doc["platforms"] = ["default", "plat"]
        loc = os.path.join(self.chk.scratch, "exp%d" % self.nexp)
        self.nexp += 1
        os.makedirs(loc)
        try:
            if loops:
                exp = self.loop_experiment(doc, loc, loops[0], pinfo[loops[0]][1])
            else:
                exp = self.realenv.experiment_from_flowir(doc, loc, validate=False, platform="plat" if via == "override" else None)
        except Exception as e:
            if len(cases) == 1:
                self.judge_load_failure(universe, cases[0], e)
                shutil.rmtree(loc, ignore_errors=True)
                return
            # one consumer makes the package unloadable: find it by halving
            shutil.rmtree(loc, ignore_errors=True)
            h = len(cases) // 2
            self.run_batch(universe, cases[:h])
            self.run_batch(universe, cases[h:])
            return
        inst = exp.instanceDirectory.location
        values = {}
        for st, nm in producers:
            # (a placeholder stands for its latest iteration <N>#<name>)
            eff = nm if pinfo[(st, nm)][0] != "loop" else "%d#%s" % (pinfo[(st, nm)][1], nm)
            d = os.path.join(inst, "stages", "stage%d" % st, eff)
            node = exp.graph.nodes["stage%d.%s" % (st, eff)]
            real_dir = node["componentInstance"].directory if "componentInstance" in node else \
                exp.instanceDirectory.workingDirectoryForComponent(st, eff)      # (a fresh loop iteration has no Job yet)
            if os.path.normpath(real_dir) != os.path.normpath(d):
                raise MachineryError("working directory convention changed: %s vs %s" % (real_dir, d))
            os.makedirs(os.path.join(d, "sub"), exist_ok=True)
            os.makedirs(os.path.join(d, "outputs"), exist_ok=True)
            quoted = [R(u["quotes"]) for u in universe if u["kind"] == "out" and u.get("quotes") and (u["st"], R(u["name"])) == (st, nm)]
            for rel in PRODUCER_FILES:
                with open(os.path.join(d, rel), "wb") as f:
                    f.write(quoted[0].encode() if (quoted and rel == "out.txt") else file_bytes(st, nm, rel))
            # stdout: out.stdout of a producer that has run; streams/<n>.stdout (the five newest) of a repeating one
            repeating, last = pinfo[(st, nm)]
            if repeating == "loop":
                # every iteration has its own files; the values are those of the latest one
                for k in range(last + 1):
                    dk = os.path.join(inst, "stages", "stage%d" % st, "%d#%s" % (k, nm))
                    os.makedirs(os.path.join(dk, "sub"), exist_ok=True)
                    for rel in PRODUCER_FILES:
                        with open(os.path.join(dk, rel), "wb") as f:
                            f.write(file_bytes(st, "%d#%s" % (k, nm), rel))
                    with open(os.path.join(dk, "out.stdout"), "w") as f:
                        f.write(stdout_of(st, "%d#%s" % (k, nm), None) + "\n")
            elif repeating == "yes":
                if last >= 0:
                    os.makedirs(os.path.join(d, "streams"), exist_ok=True)
                    for n in range(max(0, last - 4), last + 1):
                        with open(os.path.join(d, "streams", "%d.stdout" % n), "w") as f:
                            f.write(stdout_of(st, nm, n) + "\n")
            elif last >= 0:
                with open(os.path.join(d, "out.stdout"), "w") as f:
                    f.write(stdout_of(st, nm, None) + "\n")
            values[(st, nm)] = d
        # value of every reference of the universe, computed by the harness from the files it wrote.  A path value is
        # accepted verbatim (directory + file part as written) or normalised: both are "the path of the referenced file"
        valmap, valnorm = {}, {}
        for u in universe:
            st, nm = u["st"], R(u["name"])
            if u.get("rep") == "direct":
                # a path: absolute as it is, otherwise below the instance directory
                valmap[u["val"]] = valnorm[u["val"]] = nm if nm.startswith("/") else os.path.join(inst, nm)
                continue
            d = values[(st, nm)]
            fpart = R(u.get("file", []))
            if u["kind"] == "ref":
                valmap[u["val"]] = os.path.join(d, fpart) if fpart else d
                valnorm[u["val"]] = os.path.normpath(valmap[u["val"]])
            elif u["kind"] == "out" and not fpart and pinfo[(st, nm)][0] == "loop":
                valmap[u["val"]] = valnorm[u["val"]] = stdout_of(st, "%d#%s" % (pinfo[(st, nm)][1], nm), None)
            elif u["kind"] == "out" and not fpart:
                repeating, last = pinfo[(st, nm)]
                # the stdout of the producer (of its most recent repetition); nothing there yet -> the empty text
                valmap[u["val"]] = valnorm[u["val"]] = "" if last < 0 else stdout_of(st, nm, last if repeating == "yes" else None)
            elif u["kind"] == "out":
                target = os.path.normpath(os.path.join(d, fpart.replace("out.tx*", "out.txt")))   # the one file the glob matches
                rel = os.path.relpath(target, d)
                eff = nm if pinfo[(st, nm)][0] != "loop" else "%d#%s" % (pinfo[(st, nm)][1], nm)
                valmap[u["val"]] = valnorm[u["val"]] = output_value(file_bytes(st, eff, rel))   # (a quoting value is spelled out by the spec)
            else:
                valmap[u["val"]] = valnorm[u["val"]] = None
        self.valnorm = valnorm
        for nm, case in zip(names, cases):
            self.run_case(exp, "stage1." + nm, case, valmap, universe)
        self.chk.trace_validated()
        shutil.rmtree(inst, ignore_errors=True)
        shutil.rmtree(loc, ignore_errors=True)

    def loop_experiment(self, doc, loc, loop, latest):
        """a package whose producer <loop> is a DoWhile (conf/dowhile.yaml + $import), instantiated up to iteration <latest>"""
        import yaml
        import experiment.model.data
        import experiment.model.storage
        st, nm = loop
        dowhile = {"type": "DoWhile", "inputBindings": {"seed": {"type": "ref"}}, "loopBindings": {"seed": "%s:ref" % nm},
                   "condition": "%s/next:output" % nm,
                   "components": [{"name": nm, "command": {"executable": "echo", "arguments": "seed:ref"}, "references": ["seed:ref"]}]}
        pk = os.path.join(loc, "loop.package")
        os.makedirs(os.path.join(pk, "conf"))
        with open(os.path.join(pk, "conf", "dowhile.yaml"), "w") as f:
            yaml.safe_dump(dowhile, f, sort_keys=False)
        with open(os.path.join(pk, "conf", "flowir_package.yaml"), "w") as f:
            yaml.safe_dump(doc, f, sort_keys=False)
        pkg = experiment.model.storage.ExperimentPackage.packageFromLocation(pk)
        inst = experiment.model.storage.ExperimentInstanceDirectory.newInstanceDirectory(loc, package=pkg)
        exp = experiment.model.data.Experiment(inst, is_instance=True)
        wg = exp.experimentGraph
        document = list(wg._documents["DoWhile"].values())[0]["document"]
        for k in range(1, latest + 1):
            wg.instantiate_dowhile_next_iteration(document, k, True)
        if wg._placeholders["stage%d.%s" % (st, nm)]["latest"] != "stage%d.%d#%s" % (st, latest, nm):
            raise MachineryError("the DoWhile placeholder of the harness is not at iteration %d: %s" % (latest, wg._placeholders))
        return exp

    def render(self, tokens, valmap, inst_short=None):
        return "".join(valmap[t] if t in valmap else t for t in tokens)

    def judge_load_failure(self, universe, case, e):
        self.chk.evaluated(self.case_key(case))
        if case["fault"] == "undeclared":
            # an invalid input may be rejected when the package is loaded -- provided the reason is the undeclared reference
            if R(case["extra"]).split(".", 1)[1] in str(e) or R(case["extra"]) in str(e):
                self.stats["undeclared_rejected_at_load"] = self.stats.get("undeclared_rejected_at_load", 0) + 1
                return
        cause = input_cause(case)
        self.fail("load:" + (cause or "plain"), "a valid component cannot be loaded: references %s arguments %r: %r" % (
            [spelled(d, "abs") for d in case["decl"]], R(case["args"]), e), {"case": case, "universe": universe})

    def case_key(self, case):
        return (tuple((spelled(d, "abs"), tuple(d["usage"])) for d in case["decl"]), case["style"], case["fault"], R(case["extra"]),
                case.get("via", "literal"))

    def run_case(self, exp, node, case, valmap, universe):
        E = self.E
        spec = exp.graph.nodes[node]["componentSpecification"]
        self.chk.evaluated(self.case_key(case))
        want = self.render(case["expected"], valmap)
        want_norm = self.render(case["expected"], self.valnorm)
        seq = self.render(case["sequential"], valmap)
        short = {v: "<%s>" % k for k, v in valmap.items() if v}

        root = exp.instanceDirectory.location

        def sh(text):
            for v in sorted(short, key=len, reverse=True):
                text = text.replace(v, short[v])
            return text.replace(root, "$INSTANCE")
        rp = {"case": case, "universe": universe}
        declared = [spelled(d, "abs") for d in case["decl"]]
        if seq != want:
            self.stats["sequential_differs"] += 1
        cause = input_cause(case)
        try:
            got = spec.resolveArguments()
        except Exception as e:
            got = "raised %r" % e
        if case["fault"] == "none" or case["fault"] == "unused":
            if got != want and got != want_norm:
                self.stats["mismatch"] += 1
                if got == seq:
                    self.stats["mismatch_predicted_by_sequential"] += 1
                    key = "subst:" + (cause or "sequential-other")
                elif cause == "output-of-repeating-producer-without-streams":
                    key = "subst:" + cause
                else:
                    key = "subst:unexplained:" + (cause or "plain")
                self.fail(key, "component declaring %s (in this order) with arguments %r resolves to %r, specification %r" % (
                    declared, R(case["args"]), sh(got), sh(want)), rp)
            else:
                self.stats["ok"] += 1
        # verdict of checkDataReferences (not for a line whose substituted VALUE looks like a reference: the statement of
        # C10 is about the substitution; what the later scan for unresolved references makes of such a value is not part of it)
        if any(d.get("quotes") and d["usage"] for d in case["decl"]):
            return
        try:
            spec.checkDataReferences()
            verdict = "ok"
        except E.UnusedDataReferenceError as e:
            verdict = "unused"
        except E.UndeclaredDataReferenceError as e:
            verdict = "undeclared"
        except Exception as e:
            verdict = "raised %s" % type(e).__name__
        if verdict != case["verdict"]:
            if case["fault"] == "none":
                key = "subst:" + (cause or "verdict-on-valid-component") if got not in (want, want_norm) else "verdict:valid-component-rejected:" + (cause or "plain")
                what = "checkDataReferences rejects (%s) the valid component declaring %s with arguments %r" % (verdict, declared, R(case["args"]))
            else:
                key = ("subst:" + cause) if cause else "verdict:%s-reference-not-reported" % case["fault"]
                what = "checkDataReferences says %r for a component declaring %s with arguments %r (%s reference: expected %r)" % (
                    verdict, declared, R(case["args"]), case["fault"], case["verdict"])
            self.fail(key, what, rp)


def family_cfg(refu, maxrefs, styles, full, faults, emit, vias=("literal",)):
    return ("CONSTANTS\n  RefU <- %s\n  MaxRefs = %d\n  Styles = {%s}\n  FullUsage = %s\n  Faults = %s\n  Emit = %s\n  Quoting <- %s\n"
            "  Vias = {%s}\n" % (
                refu, maxrefs, ", ".join('"%s"' % s for s in styles), "TRUE" if full else "FALSE", "TRUE" if faults else "FALSE",
                "TRUE" if emit else "FALSE", "QuotingTwo" if refu == "RefUQuote" else "NoQuoting",
                ", ".join('"%s"' % v for v in vias)))


def run(tier):
    chk = Check(PID, tier)
    gen = os.path.join(SPEC, "gen")
    os.makedirs(gen, exist_ok=True)
    thorough = tier == "thorough"
    inv = "".join("INVARIANT %s\n" % i for i in INVARIANTS)
    if not thorough:
        fams = [("RefUQuick", 2, ("plain",), True, True),
                ("RefUQuick", 2, ("opt", "path"), False, False),
                ("RefUThree", 3, ("plain",), False, False),
                ("RefUQuote", 3, ("plain",), False, False),
                ("RefUContents", 2, ("plain", "opt"), False, False),
                ("RefUPaths", 2, ("plain", "path"), False, False),
                ("RefUQuick", 2, ("plain",), False, False, ("variable", "override")),
                ("RefUStdout", 2, ("plain", "opt"), False, False),
                ("RefULoop2", 2, ("plain", "opt"), False, False),
                ("RefULoop0", 2, ("plain",), False, False),
                ("RefUGlue", 2, ("tail", "quote", "plain"), False, False)]
    else:
        fams = [("RefUQuick", 2, ("plain", "opt", "path"), True, True),
                ("RefUSix", 3, ("plain",), True, False),
                ("RefUWide", 2, ("plain", "opt"), False, True),
                ("RefUWide12", 3, ("path",), False, False),
                ("RefUQuote", 3, ("plain", "opt"), False, False),
                ("RefUQuote", 2, ("plain",), True, False),
                ("RefUContents", 2, ("plain",), True, False),
                ("RefUContents", 2, ("opt", "path"), False, False),
                ("RefUPaths", 2, ("plain",), True, False),
                ("RefUPaths", 2, ("path",), False, False),
                ("RefUQuick", 2, ("plain",), True, False, ("variable",)),
                ("RefUQuick", 2, ("plain", "opt"), False, False, ("override",)),
                ("RefUThree", 3, ("plain",), False, False, ("variable",)),
                ("RefUStdout", 2, ("plain", "opt"), True, False),
                ("RefUStdout", 2, ("plain",), False, False, ("variable", "override")),
                ("RefULoop2", 2, ("plain", "opt", "path"), True, False),
                ("RefULoop1", 3, ("plain",), False, False),
                ("RefULoop0", 2, ("plain", "opt"), False, False),
                ("RefUGlue", 2, ("tail", "quote", "plain", "opt"), True, False),
                ("RefUGlue", 3, ("tail",), False, False)]
    runner = Runner(chk)
    total = 0
    for k, fam in enumerate(fams):
        refu, maxrefs, styles, full, faults = fam[:5]
        vias = fam[5] if len(fam) > 5 else ("literal",)
        # 1+2. one TLC run per family (the models are small): the design invariants, per-action coverage (vacuity guard)
        #      and the emission of every resolved state
        c1 = _cfg(os.path.join(gen, "Subst_mc_%s_%d.cfg" % (tier, k)),
                  family_cfg(refu, maxrefs, styles, full, faults, True, vias) + "SPECIFICATION Spec\n" + inv +
                  "INVARIANT EmitCase\nCHECK_DEADLOCK FALSE\n")
        res = tlc.run_tlc("Subst", c1, timeout=1500, workers=1)
        if not res["ok"]:
            raise MachineryError("Subst.tla: %s fails on the model:\n%s" % (res["violated"], res["out"][-2500:]))
        chk.add_tlc(res)
        if k == 0:
            # the named deviation: TLC must exhibit an input on which one-replace-per-reference differs (expected violation)
            c1b = _cfg(os.path.join(gen, "Subst_dev_%s_%d.cfg" % (tier, k)),
                       family_cfg(refu, maxrefs, styles, full, faults, False, vias) + "SPECIFICATION Spec\nINVARIANT SequentialAgrees\nCHECK_DEADLOCK FALSE\n")
            rd = tlc.run_tlc("Subst", c1b, timeout=900, workers=1, expect_violation=True)
            if rd["violated"] != "SequentialAgrees":
                raise MachineryError("TLC finds no input on which sequential replacement differs from exact substitution: %s" % rd["out"][-800:])
        uni = [d for d in res["cases"] if d.get("t") == "universe"]
        cases = [d for d in res["cases"] if d.get("t") == "case"]
        if not uni or len(cases) < 40:
            raise MachineryError("TLC emitted %d cases for family %d" % (len(cases), k))
        universe = uni[0]["refs"]
        # vacuity guard: every action of the spec was taken (a resolved state exists only after Declare and Resolve; the
        # fault actions leave their mark in the emitted case), for every way of declaring that the family asks for
        taken = {"Resolve": any(c["fault"] == "none" for c in cases),
                 "DeclareUnused": any(c["fault"] == "unused" for c in cases) or not faults,
                 "ResolveUndeclared": any(c["fault"] == "undeclared" for c in cases) or not faults}
        for v in vias:
            taken["Resolve via " + v] = any(c.get("via") == v for c in cases)
        if not all(taken.values()):
            raise MachineryError("family %d: actions of Subst.tla never taken (vacuous run): %s" % (k, taken))
        # a family that varies the NAMES must contain inputs that tell sequential replacement from exact substitution
        if refu not in ("RefUContents", "RefUStdout") and not any(c["sequential"] != c["expected"] for c in cases):
            raise MachineryError("family %d has no input on which sequential replacement differs from exact substitution "
                                 "(the check would be vacuous)" % k)
        cases.sort(key=lambda c: json.dumps(runner.case_key(c)))
        # 3. spec -> code.  A component whose command line names an undeclared reference is already refused when the
        #    package is loaded, so those cases are loaded one by one (a sub-family in the quick tier)
        undeclared = [c for c in cases if c["fault"] == "undeclared"]
        cases = [c for c in cases if c["fault"] != "undeclared"]
        if not thorough:
            undeclared = undeclared[:: max(1, len(undeclared) // 24)]
        for v in vias:
            group = [c for c in cases if c.get("via", "literal") == v]
            for b in range(0, len(group), BATCH):
                runner.run_batch(universe, group[b:b + BATCH])
        for c in undeclared:
            runner.run_batch(universe, [c])
        cases = cases + undeclared
        total += len(cases)
        for case in cases[:: max(1, len(cases) // 2)][:2]:
            chk.sample({"declared": [spelled(d, "abs") for d in case["decl"]], "arguments": R(case["args"]),
                        "expected": R(case["expected"]), "sequential_model": R(case["sequential"]), "verdict": case["verdict"]})
    runner.report()
    if runner.stats["sequential_differs"] == 0:
        raise MachineryError("no emitted case distinguishes sequential replacement from exact substitution")
    chk.cov["substitution_stats"] = dict(runner.stats)
    chk.cov["rule"] = ("one case per resolved state of spec/Subst.tla: ordered selection of <= MaxRefs references of the universe "
                       "(names A, BA, B-A, x.A, AB, A0 in stages 0 and 1; :ref, file :ref, :output, :copy; file parts spelled with a trailing "
                       "slash, ./, //, .., globs; :output files with trailing newlines, CRLF, CR, tabs, non-ASCII, undecodable bytes, "
                       "empty, inner newlines, blanks; name:output of plain and repeating producers with 0..100 repetitions or none; declarations "
                       "direct references by absolute path and below data/; text glued right after / quotes around a reference; placeholder of a DoWhile producer at iteration 0..2; declarations reaching the graph rewritten by the loader, through a %(variable)s or through override.<platform>), usage (relative / absolute "
                       "/ both / twice), style of the command line, plus unused / undeclared faults; every case is a consumer "
                       "component of a real instantiated experiment; traces = experiments built")
    chk.cov["exhaustive"] = True
    chk.assumptions += ["argument strings are token sequences whose sub-sequence relation coincides with the substring relation of the "
                        "rendered text (names spelled letter by letter)",
                        "only valid inputs (every :ref/:output reference used, every reference-shaped word declared) plus the two clean "
                        "fault families are bound; literal text never contains ':<method>'",
                        ":loopref/:loopoutput and direct (input/data) references are not explored; file contents that look like a "
                        "reference only in the RefUQuote family",
                        "producers are not executed: out.txt files are written by the harness"]
    return chk.finish()


def replay(path):
    d = json.load(open(path))
    chk = Check(PID, "quick")
    runner = Runner(chk)
    rp = d["replay"]
    runner.run_batch(rp["universe"], [rp["case"]])
    runner.report()
    return chk.finish()
