"""G03 -- ExperimentLifecycle: the experiment-level orchestration (scripts/elaunch.py: Setup, Run, the exit-status handlers, the
clean-up) and the status document a user polls (output/status.txt).  Spec: spec/ExperimentLifecycle.tla (+ _trace).

1. TLC on the design: the promises of the status document hold on the REPAIRED design for every scenario of the family
   (1-3 stages, 1-2 components per stage, outcomes ok / fail / shutdown, continue-on-error, restart from stage k on top of the
   status of an earlier run, failing set-up, one signal anywhere); what the code does differently is a named deviation with a
   TLC counterexample (expected violations); liveness under fairness; reachability witnesses; per-action coverage.
2. code -> spec: the REAL elaunch.py (harness/world_g03.py: the deployment part of its __main__ block executed from the file's
   AST, real Controller / ComponentState / StatusMonitor / Status below, deterministic world, fake tasks) runs the scenarios
   under seeded schedules, with signals at every program point and restarts; every status-file API call, every version of
   status.txt, every program point and component transition is recorded and validated by TLC against the trace spec, for every
   combination of the four repairs (the combination(s) that explain ALL runs tell which defects the tree under test has).
3. spec -> code: TLC's terminal states (exit code + final status.txt) per scenario and signal position, for the variant of the
   code found in 2; every real run must end in one of them.
4. self-test: one recorded field corrupted -> the trace must be rejected.
"""
import itertools
import json
import os
import re
import shutil
import time

from ..common import Check, MachineryError, SPEC
from .. import tlc
from .. import g03_model as M

PID = "G03"
GEN = os.path.join(SPEC, "gen")
S = M.Scenario

FLAGS = ("cur", "stale", "restart", "early")
FINDINGS = {
    "cur": ("G03:current-stage-reports-in-transit-stage",
            "StatusMonitor.compute_stage_status() of a stage in transit overwrites current-stage / stage-progress: status.txt names the last "
            "stage that still has unfinished components (also in the final status of an experiment that failed in an earlier stage)"),
    "stale": ("G03:restart-shows-stale-verdict",
              "elaunch -r: the restarted run shows experiment-state=running next to the exit-status / completed-on of the earlier run"),
    "restart": ("G03:restart-from-later-stage-cleanup-crash",
                "elaunch -r k (k > 0): Controller.workflowIsComplete raises AttributeError for the engine-less components of the skipped stages "
                "inside elaunch's finally clause: the final status is never written (experiment-state stays running), exit code 1"),
    "early": ("G03:signal-before-first-stage-hangs-cleanup",
              "a signal between the creation of the Controller and the first initialise(): cleanUp() stops no component (no status database "
              "yet) and StatusMonitor.join() waits for a monitor that never ran: elaunch hangs with status.txt at Initialising / N/A"),
}
INVARIANTS = ["TypeOK", "TerminalHasExit", "CompletedOnlyAtEnd", "CurrentStageIsControllers", "EarlierStagesOver", "SuccessConsistent",
              "FailureReflected", "FailedStageIdentified", "ExitCodeAgrees", "NoStaleVerdict"]
PROPS = ["FinalIsFinal", "LegalOrder", "ExitStable", "CurrentStageMonotone"]
# hold whatever the code variant is (fresh experiments)
BASE_INV = ["TypeOK", "TerminalHasExit", "CompletedOnlyAtEnd", "SuccessConsistent", "FailureReflected", "ExitCodeAgrees"]
BASE_PROPS = ["FinalIsFinal", "LegalOrder", "ExitStable"]
ACTIONS = ["NewStatus", "Write", "SetField", "RestartReset", "SetupFails", "EnterTry", "CtlCreate", "RunCall", "MonStart", "SetStage", "SkipComp",
           "SkipDone", "StageInit", "RunBegin", "RunEnd", "Increment", "StageFailed", "RunReturned", "MonKill", "EarlyMark", "CleanUp", "Joined",
           "CleanupCrash", "MonJoin", "Hang", "Exit", "Tick", "CompEnd", "CompDone", "Signal"]
DEVIATION_ACTIONS = {"CleanupCrash": "restart", "Hang": "early", "EarlyMark": "early"}

FAILED2 = ("finished", "failed", "Failed", 2, 2, 0, True, True, True)
STOPPED1 = ("finished", "component_shutdown", "Stopped", 1, 0, 0, True, True, True)
FAILED3 = ("finished", "failed", "Failed", 3, 4, 0, True, True, True)


# --------------------------------------------------------------------------------------------------------------------------
# scenario families

def model_family(tier):
    fam = []
    O = ("ok", "fail", "shut")
    for o in O:
        fam.append(S([1], [[o]]))
    for a, b in itertools.product(O, repeat=2):
        fam.append(S([2], [[a, b]]))
    fam += [S([1], [["fail"]], coe=[True]), S([2], [["ok", "fail"]], coe=[True]), S([2], [["shut", "shut"]], coe=[True])]
    for s0 in (["ok", "ok"], ["ok", "fail"], ["ok", "shut"], ["shut", "shut"], ["fail", "fail"]):
        for s1 in O:
            fam.append(S([2, 1], [s0, [s1]]))
    for s1 in O:
        fam.append(S([2, 1], [["ok", "fail"], [s1]], coe=[True, False]))
    fam += [S([2, 1], [["fail", "ok"], ["ok"]], coe=[True, False]), S([2, 1], [["ok", "ok"], ["fail"]], coe=[False, True]),
            S([2, 1], [["ok", "ok"], ["shut"]], coe=[False, True])]
    for s1 in (["ok", "ok"], ["ok", "fail"], ["ok", "shut"], ["shut", "shut"], ["shut", "fail"]):
        fam.append(S([1, 2], [["ok"], s1]))
    fam += [S([1, 2], [["fail"], ["ok", "ok"]]), S([1, 2], [["shut"], ["ok", "ok"]]), S([1, 2], [["fail"], ["ok", "ok"]], coe=[True, False]),
            S([1, 2], [["ok"], ["shut", "fail"]], coe=[False, True]), S([1, 2], [["ok"], ["shut", "shut"]], coe=[False, True])]
    fam += [S([2, 1], [["ok", "ok"], ["ok"]], chain=False), S([2, 1], [["ok", "fail"], ["ok"]], chain=False),
            S([2, 1], [["ok", "ok"], ["fail"]], chain=False), S([2, 1], [["ok", "shut"], ["shut"]], chain=False)]
    for outs in (("ok", "ok", "ok"), ("fail", "ok", "ok"), ("ok", "fail", "ok"), ("ok", "ok", "fail"), ("ok", "shut", "ok"), ("ok", "ok", "shut")):
        fam.append(S([1, 1, 1], [[o] for o in outs]))
    fam += [S([1, 1, 1], [["fail"], ["ok"], ["ok"]], coe=[True, False, False]), S([1, 1, 1], [["ok"], ["fail"], ["ok"]], coe=[False, True, False]),
            S([1, 1, 1], [["ok"], ["ok"], ["fail"]], coe=[False, False, True]), S([1, 1, 2], [["ok"], ["fail"], ["ok", "ok"]], coe=[False, True, False]),
            S([1, 1, 2], [["ok"], ["ok"], ["ok", "shut"]]), S([1, 1, 1], [["ok"], ["ok"], ["ok"]], chain=False)]
    # restarts on top of the status an earlier run left
    base2, base3 = S([2, 1], [["ok", "ok"], ["ok"]]), S([1, 1, 1], [["ok"], ["ok"], ["ok"]])
    fam += [base2.restarted(0, STOPPED1), base2.restarted(0, FAILED2, out=[["ok", "fail"], ["ok"]]), base2.restarted(1, FAILED2),
            base2.restarted(1, FAILED2, out=[["ok", "ok"], ["fail"]]), base3.restarted(1, FAILED3), base3.restarted(2, FAILED3),
            base3.restarted(2, FAILED3, out=[["ok"], ["ok"], ["fail"]]), S([2, 1], [["ok", "ok"], ["ok"]], chain=False).restarted(1, FAILED2)]
    fam += [S([1], [["ok"]], setup="badpkg"), S([2, 1], [["ok", "ok"], ["ok"]], setup="badexe")]
    if tier == "thorough":
        for s0, s1 in itertools.product(itertools.product(O, repeat=2), repeat=2):
            fam.append(S([2, 2], [list(s0), list(s1)]))
        for outs in itertools.product(O, repeat=3):
            fam.append(S([1, 1, 1], [[o] for o in outs], coe=[True, True, False]))
    seen, out = set(), []
    for s in fam:
        if s.tla() not in seen:
            seen.add(s.tla())
            out.append(s)
    return out


SIGNAL_LABELS = ["setup", "deployed", "pre-controller", "in-run", "monitor-started", "init", "run", "turn", "stage-end", "increment", "post-run",
                 "cleanup-begin", "after-monkill", "cleanup", "after-cleanup", "join-wait", "before-join"]


def real_plan(tier, seed):
    """-> list of jobs: dict(sc=Scenario, seed, tick_p, signals, hold, restart=(stage, outs) | None)"""
    thorough = tier == "thorough"
    jobs = []
    O = ("ok", "fail", "shut")
    fresh = [S([1], [["ok"]]), S([1], [["fail"]]), S([1], [["shut"]]), S([2], [["ok", "fail"]]), S([2], [["ok", "shut"]]), S([2], [["shut", "shut"]]),
             S([2], [["ok", "fail"]], coe=[True]), S([1], [["fail"]], coe=[True]),
             S([2, 1], [["ok", "ok"], ["ok"]]), S([2, 1], [["ok", "fail"], ["ok"]]), S([2, 1], [["ok", "shut"], ["ok"]]), S([2, 1], [["shut", "shut"], ["ok"]]),
             S([2, 1], [["ok", "ok"], ["fail"]]), S([2, 1], [["ok", "ok"], ["shut"]]), S([2, 1], [["ok", "fail"], ["ok"]], coe=[True, False]),
             S([2, 1], [["fail", "ok"], ["ok"]], coe=[True, False]), S([2, 1], [["ok", "ok"], ["fail"]], coe=[False, True]),
             S([1, 2], [["ok"], ["ok", "ok"]]), S([1, 2], [["ok"], ["ok", "fail"]]), S([1, 2], [["ok"], ["shut", "shut"]]), S([1, 2], [["ok"], ["shut", "fail"]], coe=[False, True]),
             S([1, 2], [["fail"], ["ok", "ok"]], coe=[True, False]), S([1, 2], [["shut"], ["ok", "ok"]]),
             S([1, 2], [["ok"], ["shut", "shut"]], coe=[False, True]), S([1], [["shut"]], coe=[True]), S([2, 1], [["ok", "ok"], ["shut"]], coe=[False, True]),
             S([2, 1], [["ok", "ok"], ["ok"]], chain=False), S([2, 1], [["ok", "fail"], ["ok"]], chain=False), S([2, 1], [["ok", "ok"], ["fail"]], chain=False),
             S([1, 1, 1], [["ok"], ["ok"], ["ok"]]), S([1, 1, 1], [["fail"], ["ok"], ["ok"]]), S([1, 1, 1], [["ok"], ["fail"], ["ok"]]), S([1, 1, 1], [["ok"], ["ok"], ["fail"]]),
             S([1, 1, 1], [["ok"], ["fail"], ["ok"]], coe=[False, True, False]), S([1, 1, 2], [["ok"], ["fail"], ["ok", "ok"]], coe=[False, True, False]),
             S([1, 1, 2], [["ok"], ["ok"], ["ok", "shut"]]), S([1, 1, 1], [["ok"], ["ok"], ["ok"]], chain=False),
             S([1], [["ok"]], setup="badpkg"), S([2, 1], [["ok", "ok"], ["ok"]], setup="badexe")]
    nseeds = 2 if not thorough else 8
    for i, sc in enumerate(fresh):
        for k in range(nseeds):
            jobs.append(dict(sc=sc, seed=seed * 7919 + 101 * i + k, tick_p=(0.1, 0.3, 0.6, 0.0)[k % 4], signals=[], hold=False, restart=None))
    # one signal at every program point (first / a later occurrence), two signals (the second one during the clean-up)
    sigbase = [S([2, 1], [["ok", "ok"], ["ok"]]), S([1, 1, 1], [["ok"], ["ok"], ["ok"]]), S([2, 1], [["ok", "fail"], ["ok"]], coe=[True, False])]
    if thorough:
        sigbase += [S([2, 1], [["ok", "ok"], ["ok"]], chain=False), S([1, 2], [["ok"], ["shut", "fail"]], coe=[False, True])]
    n = 0
    for sc in sigbase:
        for lab in SIGNAL_LABELS:
            occs = (1, 2, 3) if lab in ("turn", "init", "run", "stage-end", "increment") else (1,)
            if lab == "join-wait":
                occs = (1, 2)
            for occ in occs:
                n += 1
                jobs.append(dict(sc=sc, seed=seed * 104729 + n, tick_p=(0.15, 0.4)[n % 2], signals=[(lab, occ)], hold=(lab == "turn" and occ == 2), restart=None))
        for lab2 in ("cleanup-begin", "cleanup", "join-wait", "before-join"):
            n += 1
            jobs.append(dict(sc=sc, seed=seed * 104729 + n, tick_p=0.3, signals=[("turn", 2), (lab2, 1)], hold=False, restart=None))
    # restarts: a first run that fails / is stopped, then `elaunch -r k` on its instance
    two, three = S([2, 1], [["ok", "ok"], ["fail"]]), S([1, 1, 1], [["ok"], ["ok"], ["fail"]])
    rs = [(two, [], 1, [["ok", "ok"], ["ok"]]), (two, [], 1, None), (two, [], 0, [["ok", "ok"], ["ok"]]),
          (S([2, 1], [["ok", "fail"], ["ok"]]), [], 0, [["ok", "ok"], ["ok"]]),
          (S([2, 1], [["ok", "ok"], ["ok"]]), [("turn", 2)], 0, None), (S([2, 1], [["ok", "ok"], ["ok"]]), [("init", 2)], 1, None),
          (three, [], 2, [["ok"], ["ok"], ["ok"]]), (three, [], 1, [["ok"], ["ok"], ["ok"]]), (three, [], 2, None),
          (S([2, 1], [["ok", "ok"], ["fail"]], chain=False), [], 1, [["ok", "ok"], ["ok"]])]
    for i, (sc, sig, start, outs) in enumerate(rs):
        for k in range(1 if not thorough else 4):
            jobs.append(dict(sc=sc, seed=seed * 15485863 + 13 * i + k, tick_p=(0.3, 0.1, 0.6, 0.2)[k % 4], signals=sig, hold=False, restart=(start, outs)))
    return jobs


# --------------------------------------------------------------------------------------------------------------------------
# TLC on the design

def fixcfg(mode):
    if isinstance(mode, dict):
        vals = {f: ("{TRUE}" if mode[f] else "{FALSE}") for f in FLAGS}
    else:
        v = {"repaired": "{TRUE}", "code": "{FALSE}", "any": "{TRUE, FALSE}"}[mode]
        vals = {f: v for f in FLAGS}
    return "  FixCur = %s\n  FixStale = %s\n  FixRestart = %s\n  FixEarly = %s\n" % tuple(vals[f] for f in FLAGS)


def rundir(name, scens, extra_modules=()):
    d = os.path.join(GEN, "g03_%s_%d" % (name, os.getpid()))
    shutil.rmtree(d, ignore_errors=True)
    os.makedirs(d)
    for f in ("ExperimentLifecycle.tla",) + tuple(extra_modules):
        shutil.copy(os.path.join(SPEC, f), os.path.join(d, f))
    with open(os.path.join(d, "LifecycleData.tla"), "w") as f:
        f.write(M.data_module(scens))
    return d


def run_cfg(d, name, body, module="ExperimentLifecycle", **kw):
    c = os.path.join(d, name + ".cfg")
    with open(c, "w") as f:
        f.write(body)
    return tlc.run_tlc(module, c, specdir=d, **kw)


def violated_of(r):
    """harness.tlc does not know this TLC's wording for a violated liveness property"""
    m = re.search(r"Error: Temporal property (\w+) was violated", r["out"])
    return m.group(1) if m else r["violated"]


def model_check(chk, tier):
    from concurrent.futures import ThreadPoolExecutor
    fam = model_family(tier)
    fresh = [s for s in fam if s.start is None]
    small = [S([2, 1], [["ok", "fail"], ["ok"]]), S([2, 1], [["ok", "ok"], ["ok"]], chain=False), S([1, 2], [["ok"], ["shut", "shut"]]),
             S([1, 1, 1], [["ok"], ["fail"], ["ok"]], coe=[False, True, False]), S([1], [["ok"]], setup="badpkg"), S([2, 1], [["ok", "ok"], ["ok"]], setup="badexe"),
             S([2, 1], [["ok", "ok"], ["ok"]]).restarted(1, FAILED2), S([2, 1], [["ok", "ok"], ["ok"]]).restarted(0, STOPPED1)]
    d_all, d_fresh, d_small = rundir("all", fam), rundir("fresh", fresh), rundir("small", small)
    inv = "".join("INVARIANT %s\n" % i for i in INVARIANTS) + "".join("PROPERTY %s\n" % p for p in PROPS)
    base = "".join("INVARIANT %s\n" % i for i in BASE_INV) + "".join("PROPERTY %s\n" % p for p in BASE_PROPS)
    head = lambda mode, maxsig, spec="Spec": "CONSTANTS\n  MaxSig = %d\n%s  Emit = FALSE\nSPECIFICATION %s\nCHECK_DEADLOCK FALSE\n" % (maxsig, fixcfg(mode), spec)
    jobs = [
        # (kind, name, dir, cfg text, expected violation | None, coverage)
        ("hold", "repaired", d_all, head("repaired", 1) + inv, None, False),
        ("hold", "code_fresh", d_fresh, head("code", 1) + base, None, False),
        ("hold", "live_repaired", d_all, head("repaired", 0, "FairSpec") + "PROPERTY AlwaysFinalised\n", None, False),
        ("hold", "live_repaired_sig", d_small, head("repaired", 1, "FairSpec") + "PROPERTY Termination\n", None, False),
        ("cover", "cover_code", d_small, head("code", 1) + "INVARIANT TypeOK\n", None, True),
        ("cover", "cover_repaired", d_small, head("repaired", 1) + "INVARIANT TypeOK\n", None, True),
    ]
    for w in ("WitnessSuccess", "WitnessFailed", "WitnessStopped", "WitnessSetupFailed", "WitnessRestartDone"):
        jobs.append(("witness", w, d_small, head("repaired", 1) + "INVARIANT %s\n" % w, w, False))
    one = lambda f: {g: (g != f) for g in FLAGS}        # everything repaired except f
    for name, mode, maxsig, spec, prop, kind in (
            # the strong promise the code does not make: an exit status only next to a terminal experiment-state
            ("EarlyExitStatus", "repaired", 0, "Spec", "ExitOnlyWhenTerminal", "INVARIANT"),
            ("CurrentStageRunsAhead", one("cur"), 0, "Spec", "CurrentStageIsControllers", "INVARIANT"),
            ("CurrentStageDecreases", one("cur"), 0, "Spec", "CurrentStageMonotone", "PROPERTY"),
            ("FailedStageMisreported", one("cur"), 0, "Spec", "FailedStageIdentified", "INVARIANT"),
            ("StaleVerdictOnRestart", one("stale"), 0, "Spec", "NoStaleVerdict", "INVARIANT"),
            ("StaleCompletionTime", one("stale"), 0, "Spec", "CompletedOnlyAtEnd", "INVARIANT"),
            ("RestartCleanupCrash", one("restart"), 0, "FairSpec", "AlwaysFinalised", "PROPERTY"),
            ("EarlySignalHang", one("early"), 1, "FairSpec", "Termination", "PROPERTY"),
            ("ProgressCanDecrease", "repaired", 0, "Spec", "ProgressMonotone", "PROPERTY"),
            ("KilledStagesCountAsComplete", "repaired", 0, "Spec", "NeverRunNotCounted", "INVARIANT"),
            ("SignalDuringCleanup", "repaired", 1, "FairSpec", "AlwaysFinalised", "PROPERTY"),
            ("SignalInSetupReportsFailed", "repaired", 1, "Spec", "SignalMeansStopped", "INVARIANT")):
        jobs.append(("deviation", name, d_small, head(mode, maxsig, spec) + "%s %s\n" % (kind, prop), prop, False))

    def one_job(job):
        kind, name, d, body, prop, cov = job
        r = run_cfg(d, name, body, workers=4, timeout=1500, coverage=cov, expect_violation=prop is not None)
        return job, r
    cover = {}
    with ThreadPoolExecutor(4) as ex:
        for (kind, name, d, body, prop, cov), r in ex.map(one_job, jobs):
            if kind in ("hold", "cover"):
                if not r["ok"]:
                    raise MachineryError("ExperimentLifecycle.tla: %s: %s fails on the model\n%s" % (name, r["violated"], r["out"][-3000:]))
                chk.add_tlc(r)
                if cov:
                    for a, n in r["coverage"].items():
                        cover[a] = cover.get(a, 0) + n
            else:
                if violated_of(r) != prop:
                    raise MachineryError("ExperimentLifecycle.tla: expected a counterexample to %s (%s %s), got %s\n%s" % (prop, kind, name, violated_of(r), r["out"][-2000:]))
                chk.add_tlc(r)
                chk.cov.setdefault(kind + "s", []).append(name)
    missing = [a for a in ACTIONS if not cover.get(a)]
    if missing:
        raise MachineryError("actions of ExperimentLifecycle.tla never taken (vacuous model): %s" % missing)
    chk.cov["action_coverage"] = {a: cover[a] for a in ACTIONS}
    chk.cov["model_scenarios"] = len(fam)
    for d in (d_all, d_fresh, d_small):
        shutil.rmtree(d, ignore_errors=True)


# --------------------------------------------------------------------------------------------------------------------------
# real runs (forked workers)

def _real_chunk(args):
    """-> list of result dicts (picklable; nothing of the runtime)"""
    jobs, scratch = args
    from .. import world_g03 as G
    out = []
    for idx, job in jobs:
        d = os.path.join(scratch, "r%d" % idx)
        shutil.rmtree(d, ignore_errors=True)
        os.makedirs(d)
        res = []
        try:
            sc = job["sc"]
            pk = G.make_package(sc, d)
            pol = G.Policy(job["seed"], tick_p=job["tick_p"], signals=job["signals"], hold_until_signal=job["hold"])
            h = G.run_elaunch(sc, d, pol, [pk], d)
            res.append(_result(sc, h, job, "first"))
            if job["restart"] is not None and G.find_instance(d):
                start, outs = job["restart"]
                inst = os.path.join(d, G.find_instance(d)[0])
                sc2 = sc.restarted(start, M.project_doc(h.final, sc.full), out=outs)
                pol2 = G.Policy(job["seed"] + 1, tick_p=job["tick_p"])
                h2 = G.run_elaunch(sc2, d, pol2, ["-r", str(start), inst], d)
                res.append(_result(sc2, h2, job, "restart"))
        except G.Drift as e:
            res.append(dict(machinery="elaunch.py drifted: %s" % e, idx=idx))
        finally:
            shutil.rmtree(d, ignore_errors=True)
        out.append((idx, res))
    return out


def _result(sc, h, job, which):
    return dict(sc=sc, which=which, job={k: v for k, v in job.items() if k != "sc"}, steps=[M.step_tuple(t, sc.full) for t in h.trace],
                events=[(t["ev"], t["arg"]) for t in h.trace], exit_code=h.exit_code, crash=h.crash, crash_tb=getattr(h, "crash_tb", None),
                final=M.project_doc(h.final, sc.full), nversions=len(h.versions), foreign=len(h.foreign), threads=[str(t) for t in h.threads],
                tick_errors=h.tick_errors, item_errors=h.item_errors, signalled=list(h.signalled), prelude_sha=h.prelude_sha)


def real_runs(chk, tier):
    import multiprocessing
    from .. import world_g03 as G
    m, code, sha = G.load_elaunch()              # Drift -> machinery error; also warms the import for the forked workers
    if sha != G.PRELUDE_SHA:
        raise MachineryError("the part of elaunch.py's __main__ block that the harness replicates (option parsing up to `compExperiment = None`) "
                             "changed: sha256 %s, expected %s -- review harness/world_g03.py prelude()" % (sha, G.PRELUDE_SHA))
    plan = list(enumerate(real_plan(tier, chk.seed)))
    nw = 12
    chunks = [(plan[i::nw], chk.scratch) for i in range(nw)]
    ctx = multiprocessing.get_context("fork")
    with ctx.Pool(nw) as pool:
        parts = pool.map(_real_chunk, chunks)
    res = sorted((x for p in parts for x in p), key=lambda x: x[0])
    runs = []
    for idx, rr in res:
        for r in rr:
            if "machinery" in r:
                raise MachineryError(r["machinery"])
            r["idx"] = idx
            runs.append(r)
    return runs


# --------------------------------------------------------------------------------------------------------------------------
# code -> spec

def validate_traces(chk, tag, runs, batch=120):
    """-> per run: list of 16 ints (how many steps were matched under each combination of repairs)"""
    out = []
    for b0 in range(0, len(runs), batch):
        part = runs[b0:b0 + batch]
        scens, index = [], {}
        for r in part:
            t = r["sc"].tla()
            if t not in index:
                index[t] = len(scens) + 1
                scens.append(r["sc"])
        d = rundir("trace_%s_%d" % (tag, b0 // batch), scens, ("ExperimentLifecycle_trace.tla",))
        with open(os.path.join(d, "LifecycleTraceData.tla"), "w") as f:
            f.write(M.trace_module([(index[r["sc"].tla()], r["steps"]) for r in part]))
        body = ("CONSTANTS\n  MaxSig = 2\n%s  Emit = FALSE\nSPECIFICATION TraceSpec\nCONSTRAINT Furthest\nPOSTCONDITION Report\n"
                "INVARIANT TypeOK\nINVARIANT TerminalHasExit\nINVARIANT ExitCodeAgrees\nPROPERTY TFinalIsFinal\nCHECK_DEADLOCK FALSE\n" % fixcfg("any"))
        r = run_cfg(d, "trace", body, module="ExperimentLifecycle_trace", workers=1, timeout=1500, expect_violation=True)
        chk.add_tlc(r)
        if r["violated"]:
            chk.violation("trace:promise-broken-on-recorded-run:%s" % r["violated"], "a recorded run of the real elaunch reaches a state that breaks %s:\n%s" % (
                r["violated"], r["out"][-1800:]), {"kind": "batch", "tag": tag})
        m = re.search(r'<<\s*"MATCHED",\s*(.*?)>>\s*\n(?=\S)', r["out"], re.S)
        if not m:
            raise MachineryError("trace validation produced no report:\n%s" % r["out"][-3000:])
        rows = re.findall(r"<<([-\d,\s]+)>>", m.group(1))
        if len(rows) != len(part):
            raise MachineryError("trace report has %d rows for %d runs:\n%s" % (len(rows), len(part), m.group(1)[:500]))
        for row in rows:
            vals = [int(x) for x in row.split(",")]
            if len(vals) != 16:
                raise MachineryError("trace report row %r" % row)
            out.append(vals)
        shutil.rmtree(d, ignore_errors=True)
    return out


def combos_of(vals, n):
    return {i for i, v in enumerate(vals) if v == n}


def flag_of(combo, f):
    return bool(combo >> FLAGS.index(f) & 1)


def trace_tags(r):
    """which actions of the trace spec a recorded run takes (vacuity of the binding)"""
    tags = set()
    sc = r["sc"]
    for s in r["steps"]:
        ev = s[0]
        if ev in ("NewStatus", "Write"):
            tags.add("%s:%s" % (ev, s[1]))
        elif ev == "Set":
            tags.add("Set:%s%s" % (s[1], ":" + s[2] if s[2] != "-" else ""))
        elif ev == "RunEnd":
            tags.add("RunEnd:" + s[1])
        elif ev == "Comp":
            tags.add("SkipComp" if (sc.start is not None and s[3] - 1 < sc.start) else "CompEnd:" + s[1])
        elif ev == "Done":
            tags.add("SkipDone" if (sc.start is not None and s[3] - 1 < sc.start) else ("EarlyMark" if s[8] == 0 else "CompDone"))
        elif ev == "Tick":
            tags.add("Tick:%s:%s" % (s[1], s[2]))
        elif ev == "Signal":
            tags.add("Signal:" + s[1])
        else:
            tags.add(ev)
    return tags


REQUIRED_TAGS = ["NewStatus:new", "NewStatus:load", "NewStatus:report", "Write:setup", "Write:deploy", "Write:report", "Write:final", "Set:created-on",
                 "Set:error-description", "Set:experiment-state:failed", "Set:experiment-state:finished", "Set:exit-status:Success", "Set:exit-status:Failed",
                 "Set:exit-status:Stopped", "Set:completed-on", "SetupFailed", "EnterTry", "RestartReset", "Controller", "Run", "MonStart", "SetStage",
                 "SkipComp", "SkipDone", "StageInit", "RunBegin", "RunEnd:ok", "RunEnd:failed", "RunEnd:noleaf", "RunEnd:interrupted", "Increment",
                 "RunRaised", "RunReturned", "MonKill", "CleanUp", "Joined", "MonJoin", "Exit", "Tick:periodic:wrote", "Tick:periodic:quiet", "Tick:last:wrote",
                 "CompEnd:finished", "CompEnd:failed", "CompEnd:shutdown", "CompDone"] + ["Signal:" + l for l in SIGNAL_LABELS]
DEVIATION_TAGS = {"Crash": "restart", "Hung": "early", "EarlyMark": "early"}


def code_to_spec(chk, tier, runs):
    matched = validate_traces(chk, tier, runs)
    accepted, tags = [], set()
    steps = 0
    for r, vals in zip(runs, matched):
        n = len(r["steps"])
        steps += n
        cs = combos_of(vals, n)
        r["combos"] = cs
        rp = {"kind": "run", "sc": _sc_json(r["sc"]), "job": r["job"], "which": r["which"]}
        chk.evaluated(("run", r["sc"].name, r["which"], json.dumps(r["job"], sort_keys=True)))
        chk.sample({"scenario": r["sc"].name, "run": r["which"], "job": r["job"], "steps_validated": n})
        for key, what in (("harness:threads-created", r["threads"]), ("status-file:content-not-a-written-version", r["foreign"]),
                          ("status-monitor:action-raised", r["tick_errors"]), ("rx-item-raised", r["item_errors"])):
            if what:
                chk.violation(key, "scenario %s (%s run): %s" % (r["sc"].name, r["which"], what), rp)
        if not cs:
            k = max(vals)
            ev = r["events"][k] if k < n else ("end", None)
            chk.violation("trace:no-action-explains:%s" % ev[0],
                          "scenario %s (%s run, seed %s, signals %s): step %d (%s %s) of the recorded run of the real elaunch is not a step of ExperimentLifecycle.tla under "
                          "any combination of repairs; logged after it: %s; previous steps: %s; crash: %s" % (
                              r["sc"].name, r["which"], r["job"]["seed"], r["job"]["signals"], k + 1, ev[0], ev[1], M.tla_step(r["steps"][k])[:700] if k < n else "-",
                              r["events"][max(0, k - 8):k], r["crash"]), rp)
            continue
        accepted.append(r)
        tags |= trace_tags(r)
        chk.trace_validated()
    # which repairs does the tree under test contain?  A flag is decided by the runs that are only explained with one value.
    verdict = {}
    for f in FLAGS:
        need_false = [r for r in accepted if all(not flag_of(c, f) for c in r["combos"])]
        need_true = [r for r in accepted if all(flag_of(c, f) for c in r["combos"])]
        if need_false and need_true:
            chk.violation("trace:repair-%s-half-present" % f, "runs %s need the defect, runs %s need the repair" % (
                [x["sc"].name for x in need_false[:3]], [x["sc"].name for x in need_true[:3]]), {"kind": "flag", "flag": f})
        verdict[f] = None if not (need_false or need_true) else (not need_false)
        if need_false:
            key, what = FINDINGS[f]
            report_finding(chk, key, what, len(need_false), need_false[0])
    chk.cov["code_variant"] = verdict
    chk.cov["real_runs"] = len(runs)
    chk.cov["real_run_steps"] = steps
    chk.cov["status_versions_recorded"] = sum(r["nversions"] for r in runs)
    missing = [t for t in REQUIRED_TAGS if t not in tags]
    for t, f in DEVIATION_TAGS.items():
        if verdict.get(f) is False and t not in tags:
            missing.append(t)
    if missing and not chk.violations:
        raise MachineryError("trace-spec actions never taken by a validated real run (vacuous binding): %s" % missing)
    chk.cov["trace_actions_taken"] = sorted(tags)
    return accepted, verdict


def report_finding(chk, key, what, n, example):
    rp = {"kind": "run", "sc": _sc_json(example["sc"]), "job": example["job"], "which": example["which"]}
    if key in chk.known_keys:
        chk.violation(key, what, rp)
        return
    # growth findings are not (yet) in known_findings.json: reported, not counted as violations (harness/GROWTH.md)
    print("KNOWN-FINDING: property=%s %s %s [%d run(s) this time, e.g. scenario %s]" % (PID, key, what, n, example["sc"].name))
    chk.cov.setdefault("findings", {})[key] = n


def _sc_json(sc):
    return dict(nc=sc.nc, out=sc.out, coe=sc.coe, start=sc.start, setup=sc.setup, prior=list(sc.prior) if sc.prior else None, chain=sc.chain)


def _sc_from(j):
    return S(j["nc"], j["out"], coe=j["coe"], start=j["start"], setup=j["setup"], prior=j["prior"], chain=j["chain"])


# --------------------------------------------------------------------------------------------------------------------------
# spec -> code: terminal outcomes

def sig_class(r):
    """(pc of the first signal per the harness label, stage) as the specification records it"""
    return [s for s in r["steps"] if s[0] == "Signal"]


def spec_to_code(chk, tier, accepted, verdict):
    mode = {f: bool(verdict.get(f)) for f in FLAGS}
    groups = {0: {}, 2: {}}
    for r in accepted:
        nsig = len(r["signalled"])
        g = groups[0 if nsig == 0 else 2]
        g.setdefault(r["sc"].tla(), r["sc"])
    terminals = {}
    for maxsig, scs in groups.items():
        scens = list(scs.values())
        if not scens:
            continue
        d = rundir("emit%d" % maxsig, scens)
        # flags no run decides are left open: the terminal set is the union
        open_flags = {f: ("{TRUE, FALSE}" if verdict.get(f) is None else ("{TRUE}" if verdict[f] else "{FALSE}")) for f in FLAGS}
        fx = "  FixCur = %s\n  FixStale = %s\n  FixRestart = %s\n  FixEarly = %s\n" % tuple(open_flags[f] for f in FLAGS)
        r = run_cfg(d, "emit", "CONSTANTS\n  MaxSig = %d\n%s  Emit = TRUE\nSPECIFICATION Spec\nINVARIANT EmitTerminal\nCHECK_DEADLOCK FALSE\n" % (maxsig, fx),
                    workers=1, timeout=1500)
        chk.add_tlc(r)
        for c in r["cases"]:
            key = (scens[c["sc"] - 1].tla(), c["nsig"], c["sigpc"], c["sigst"])
            terminals.setdefault(key, set()).add((c["code"], tuple(c["doc"])))
        shutil.rmtree(d, ignore_errors=True)
    if not terminals:
        raise MachineryError("TLC emitted no terminal outcome")
    hit = set()
    for r in accepted:
        sigs = [s for s in r["steps"] if s[0] == "Signal"]
        nsig = len(sigs)
        code = 99 if r["exit_code"] is None else r["exit_code"]
        got = (code, tuple(r["final"]))
        cands = set()
        keys = []
        if nsig == 0:
            keys = [(r["sc"].tla(), 0, "none", 0)]
        else:
            lab = sigs[0][1]
            i = r["steps"].index(sigs[0])
            ost = r["steps"][i][7]
            keys = [(r["sc"].tla(), nsig, pc, ost) for pc in M.LABEL_PC[lab]]
        for k in keys:
            cands |= terminals.get(k, set())
        chk.evaluated(("terminal", r["sc"].name, r["which"], nsig and sigs[0][1], got))
        if got not in cands:
            chk.violation("terminal:not-a-specified-outcome:%s" % ("signal-at-" + sigs[0][1] if nsig else "no-signal"),
                          "scenario %s (%s run, seed %s, signals %s): the real elaunch ended with exit code %s and status.txt %s; the specification allows %s" % (
                              r["sc"].name, r["which"], r["job"]["seed"], r["job"]["signals"], code, r["final"], sorted(cands)[:6]),
                          {"kind": "run", "sc": _sc_json(r["sc"]), "job": r["job"], "which": r["which"]})
        else:
            hit.add((keys[0][0], got))
    chk.cov["terminal_outcomes_specified"] = sum(len(v) for v in terminals.values())
    chk.cov["terminal_outcomes_realised"] = len(hit)


# --------------------------------------------------------------------------------------------------------------------------

def self_test(chk, accepted):
    """the binding must notice a single corrupted field"""
    victim = next((r for r in accepted if r["which"] == "first" and r["sc"].ns == 2 and r["exit_code"] == 0 and not r["signalled"]), None)
    if victim is None:
        if chk.violations:
            print("note: self-test skipped (no accepted successful two-stage run; violations are reported above)")
            return
        raise MachineryError("no successful two-stage run to corrupt for the self-test")
    ticks = [i for i, s in enumerate(victim["steps"]) if s[0] == "Tick" and s[2] == "wrote"]
    bad = dict(victim)
    steps = list(victim["steps"])
    i = ticks[len(ticks) // 2]
    s = list(steps[i])
    disk = list(s[6])
    disk[2] = "Success" if disk[2] == "N/A" else "N/A"          # exit-status as read back from status.txt
    s[6] = tuple(disk)
    steps[i] = tuple(s)
    bad["steps"] = steps
    vals = validate_traces(chk, "selftest", [bad])[0]
    if combos_of(vals, len(steps)):
        raise MachineryError("self-test: a recorded run with a corrupted exit-status in step %d was accepted by the trace specification" % (i + 1))
    if max(vals) != i:
        raise MachineryError("self-test: the corrupted step is %d, the trace specification stopped at %d" % (i, max(vals)))
    chk.cov["self_test"] = "corrupted exit-status at step %d of %d rejected at that step" % (i + 1, len(steps))


def _sweep():
    """generated run directories of this process (also after a machinery error) and of dead processes"""
    for name in os.listdir(GEN):
        m = re.match(r"g03_.*_(\d+)$", name)
        if m and (int(m.group(1)) == os.getpid() or not os.path.exists("/proc/%s" % m.group(1))):
            shutil.rmtree(os.path.join(GEN, name), ignore_errors=True)


def run(tier):
    chk = Check(PID, tier)
    os.makedirs(GEN, exist_ok=True)
    try:
        return _run(chk, tier)
    finally:
        _sweep()


def _run(chk, tier):
    import threading
    t0 = time.time()
    err = []

    def mc():
        try:
            model_check(chk, tier)
        except BaseException as e:        # re-raised in the main thread
            err.append(e)
    if os.environ.get("G03_SKIP_MODEL"):          # development switch (mutation runs): binding only, never used by ./check users
        mc = lambda: None
        print("note: G03_SKIP_MODEL set -- the design model is not checked in this run")
    th = threading.Thread(target=mc)
    lock, add = threading.Lock(), chk.add_tlc

    def add_tlc(res):
        with lock:
            add(res)
    chk.add_tlc = add_tlc
    runs = real_runs(chk, tier)           # forks first (no threads yet in this process)
    t1 = time.time()
    th.start()
    accepted, verdict = code_to_spec(chk, tier, runs)
    t2 = time.time()
    spec_to_code(chk, tier, accepted, verdict)
    self_test(chk, accepted)
    t3 = time.time()
    th.join()
    if err:
        raise err[0]
    t4 = time.time()
    chk.cov["phase_wall_s"] = dict(real_runs=round(t1 - t0, 1), traces=round(t2 - t1, 1), terminals_selftest=round(t3 - t2, 1), model_rest=round(t4 - t3, 1))
    chk.cov["rule"] = ("code -> spec: every scenario of the real-run family x seeds x one signal at each of %d program points (and a second one during the clean-up) "
                       "x restarts on the real instance, each recorded run validated step by step; spec -> code: exit code and final status.txt of each run "
                       "is a terminal state of the specification for its scenario and signal position; distinct = distinct (scenario, schedule)" % len(SIGNAL_LABELS))
    chk.cov["exhaustive"] = False
    chk.assumptions += [
        "the deployment part of elaunch.py's __main__ block is executed from the file's AST; what precedes it (option parsing via the real build_parser(), logging, halt/kill "
        "file monitors, signal.signal) is replicated in harness/world_g03.py prelude() and guarded by a hash of those source lines",
        "tasks are fake (harness.ctl.FakeEngine, contract-tested against the real Engine by G01); the status database is a stub; no S3 / discoverer / interface / memoization",
        "the action of the status monitor thread is atomic with respect to the main thread; a signal arrives at one of the listed program points of the main thread",
        "components are independent or consume the first component of the previous stage; stage weights are binary fractions declared in the package",
        "Status.update() does not fail (I/O errors of the status file are C14's subject)"]
    return chk.finish()


def replay(path):
    d = json.load(open(path))
    chk = Check(PID, "quick")
    rp = d["replay"]
    if rp.get("kind") != "run":
        print("re-run ./check G03: this violation concerns a whole batch / a flag, case:", rp)
        return chk.finish()
    job = dict(rp["job"], sc=_sc_from(rp["sc"]))
    if rp["which"] == "restart":
        print("note: the recorded run is the restart of a two-run job; the first run is re-executed as recorded by its seed")
    from .. import world_g03 as G
    G.load_elaunch()
    res = _real_chunk(([(0, job)], chk.scratch))[0][1]
    runs = []
    for r in res:
        r["idx"] = 0
        runs.append(r)
    accepted, verdict = code_to_spec_replay(chk, runs)
    return chk.finish()


def code_to_spec_replay(chk, runs):
    matched = validate_traces(chk, "replay", runs)
    acc = []
    for r, vals in zip(runs, matched):
        n = len(r["steps"])
        cs = combos_of(vals, n)
        chk.evaluated(("run", r["sc"].name, r["which"]))
        if not cs:
            k = max(vals)
            ev = r["events"][k] if k < n else ("end", None)
            chk.violation("trace:no-action-explains:%s" % ev[0], "scenario %s (%s run): step %d (%s %s) is not a step of the specification; crash: %s" % (
                r["sc"].name, r["which"], k + 1, ev[0], ev[1], r["crash"]), {"kind": "run", "sc": _sc_json(r["sc"]), "job": r["job"], "which": r["which"]})
        else:
            print("scenario %s (%s run): %d steps accepted under repair combinations %s, exit code %s, final %s" % (
                r["sc"].name, r["which"], n, sorted(cs), r["exit_code"], r["final"]))
            chk.trace_validated()
            acc.append(r)
    return acc, None
