"""C01 -- Tasks start only after everything they consume from is finished.   Spec: spec/Scheduler.tla

1. TLC, exhaustive over a family of workflow shapes x fault sequences x scan orders: LaunchSafe (the property itself,
   an action property on the step that launches a component) and the helpers DoneImpliesFinal, RunOnlyStaged,
   FinalAbsorbing, DoneGrows.
2. code -> spec: the REAL Controller / ComponentState run every case under seeded schedules (harness/ctl.py);
   every run is recorded at its linearisation points and validated against the specification with TLC
   (SchedulerTrace.tla), LaunchSafe being evaluated on the LOGGED REAL STATES.
Since the growth item G02 the model has the environment action ExternalKill (killController() at any time during a stage):
a second TLC run checks LaunchSafe and NoLaunchAfterStop with it switched on, and one schedule in five of the real runs
kills the controller at a random turn (the launch properties are evaluated on those traces too).
"""
import json
import os
import random

from ..common import Check, MachineryError, seed
from .. import sched_check as SC
from .. import sched_shapes as SS

PID = "C01"
INVS = ["TypeOK", "DoneImpliesFinal", "RunOnlyStaged", "RestartBound", "ExactlyOneFinal"]
PROPS = ["LaunchSafe", "FinalAbsorbing", "DoneGrows", "NoRunAfterFinal"]
ACTIONS = ["Pass", "TaskExit", "KilledExit", "SetFinal", "NotifyProducers", "PostMortemCheck", "FinishedCheckO", "StageEnd", "Cleanup"]
KILL_EVERY = 5      # one real schedule in KILL_EVERY has the environment call killController() at a random turn
FIXOBS = True      # the specification models _input_dependencies_satisfied as repaired (see known_findings.json)


def describe(h, step):
    lo = max(0, (step or 0) - 1)
    return [dict(ev=e["ev"], arg=e["arg"], calls=e["calls"], cs={k: v["cs"] for k, v in e["st"]["comps"].items()},
                 done=e["st"]["done"], staged=e["st"]["staged"]) for e in h.trace[lo:lo + 3]]


def key_for_trace(h, res):
    if res["kind"] == "property":
        return "trace:%s-false-on-real-states" % res["prop"]
    ev = h.trace[res["step"] + 1]["ev"] if res["step"] + 1 < len(h.trace) else "end"
    return "trace:step-not-allowed-by-spec:%s" % ev


def kill_env(ci, k):
    return dict(kill_p=0.15) if (k + ci) % KILL_EVERY == KILL_EVERY - 1 else None


def run(tier, pid=PID):
    chk = Check(pid, tier)
    thorough = tier == "thorough"
    shapes = SS.THOROUGH if thorough else SS.QUICK
    rnd = random.Random(chk.seed)
    # 1. design model
    r = SC.model_check("c01" + tier, shapes, PROPS, INVS, fixobs=FIXOBS)
    if r["violated"]:
        raise MachineryError("Scheduler.tla (model of the current code) violates %s:\n%s" % (r["violated"], r["out"][-3000:]))
    for a in ACTIONS:
        if not r["coverage"].get(a):
            raise MachineryError("action %s never taken (vacuous model run): %s" % (a, r["coverage"]))
    chk.add_tlc(r)
    # 1b. the same with the environment allowed to kill the controller at any time (two scan orders per shape)
    r = SC.model_check("c01kill" + tier, shapes, PROPS + ["NoLaunchAfterStop"], INVS + ["KillReachesAll"], fixobs=FIXOBS, kill=True, all_orders=False)
    if r["violated"]:
        raise MachineryError("Scheduler.tla with ExternalKill violates %s:\n%s" % (r["violated"], r["out"][-3000:]))
    for a in ACTIONS + ["ExternalKill"]:
        if not r["coverage"].get(a):
            raise MachineryError("action %s never taken in the model with ExternalKill: %s" % (a, r["coverage"]))
    chk.add_tlc(r)
    # 1c. restart from a later stage (Controller.initialise(k > 0): the earlier stages count as finished and done): a consumer
    #     in a stage that runs is launched only after its producers of the stages that run, never because of a skipped one
    r = SC.model_check("c01restart" + tier, SC.RESTART_SHAPES, PROPS, INVS + ["SkippedUntouched", "StageFromStart"], fixobs=FIXOBS,
                       starts=(1, 2), coverage=False)
    if r["violated"] or not r["ok"]:
        raise MachineryError("Scheduler.tla with a starting stage > 0 violates %s:\n%s" % (r["violated"], r["out"][-3000:]))
    chk.add_tlc(r)
    # 2. real runs, trace validation
    cases = SC.all_cases(shapes, None if thorough else 14, rnd)
    nsched = 14 if thorough else 4
    runs = SC.run_real(cases, nsched, chk.scratch, chk.seed, per_shape_budget=120 if thorough else 40, env_for=kill_env)
    rruns = SC.run_real(SC.restart_cases(), 8 if thorough else 3, chk.scratch, chk.seed + 3, env_for=kill_env)
    for grp, names, tag in ((runs, shapes, ""), (rruns, SC.RESTART_SHAPES, "rs")):
        for h in grp:
            chk.evaluated((h.shape_name, tuple(h.oa), h.start, h.sched))
            if h.threads:
                raise MachineryError("harness leaked threads: %s" % h.threads)
        results, tl = SC.validate_traces("c01" + tag + tier, names, grp, fixobs=FIXOBS, props=("TLaunchSafe",) + SC.TRACE_PROPS)
        for t in tl:
            chk.add_tlc(t)
        for h, res in zip(grp, results):
            if res is None:
                chk.trace_validated()
                continue
            chk.violation(key_for_trace(h, res),
                          "%s outcomes=%s start=%d schedule=%s: %s at step %s: %s" % (h.shape_name, h.oa, h.start, h.sched, res["kind"],
                                                                                    res.get("step"), json.dumps(describe(h, res.get("step")))[:1500]),
                          dict(shape=h.shape_name, oa=h.oa, sched=h.sched, extra=h.extra))
    chk.cov["real_runs_restarted_from_a_later_stage"] = len(rruns)
    runs = runs + rruns
    # the shape expansion and the graph the real code builds must have the same edges; a difference makes the real controller
    # schedule differently from the specification, which the trace validation above reports - if it did not, the shapes
    # (not the code) are suspect: machinery error
    drifted = [h for h in runs if getattr(h, "drift", None)]
    chk.cov["runs_with_graph_edge_drift"] = len(drifted)
    if drifted and not chk.violations and not chk.known_hit:
        raise MachineryError("the real workflow graph differs from the shape expansion but no run was rejected: %s %s" % (
            drifted[0].shape_name, drifted[0].drift))
    launches = sum(1 for h in runs for e in h.trace for c in e["calls"] if c[0] == "Run")
    chk.cov["launches_observed"] = launches
    chk.cov["real_runs_with_external_kill"] = sum(1 for h in runs if h.killed)
    h = runs[0]
    chk.sample(dict(shape=h.shape_name, outcomes=h.oa, schedule=h.sched, events=[[e["ev"], e["arg"]] for e in h.trace][:40]))
    chk.cov["rule"] = ("case = (workflow shape after replication, exit-reason sequence per component, seeded schedule of the harness); "
                       "distinct = distinct (shape, outcomes, schedule); every run is one trace validated by TLC against Scheduler.tla")
    chk.cov["exhaustive"] = False
    chk.assumptions += ["the task below Engine.restart is replaced by a fake (exits injected), threads and time by harness/world.py",
                        "TLC: exhaustive for %d shapes (<=%d components), all listed outcome sequences and all scan orders" % (
                            len(shapes), max(len(SS.expand(SS.BASE_SHAPES[s])) for s in shapes)),
                        "schedules of the real code are sampled (seeded), not exhaustive"]
    return chk.finish()


def replay(path):
    from .. import ctl
    d = json.load(open(path))["replay"]
    chk = Check(PID, "quick")
    h = ctl.run_case(d["shape"], d["oa"], chk.scratch, SC.make_policy(tuple(d["sched"])), **(d.get("extra") or {}))
    h.sid = 1
    results, tl = SC.validate_traces("c01replay", [d["shape"]], [h], fixobs=FIXOBS, props=("TLaunchSafe",) + SC.TRACE_PROPS)
    for e in h.trace:
        print(e["ev"], e["arg"], e["calls"], {k: v["cs"] for k, v in e["st"]["comps"].items()})
    if results[0]:
        chk.violation(key_for_trace(h, results[0]), "replayed: %s" % results[0], d)
    else:
        chk.trace_validated()
    chk.evaluated(("replay",))
    chk.evaluated(("replay2",))
    return chk.finish()
