"""C06 -- DSL 2.0 compilation preserves the dataflow and the parameter bindings.  Spec: spec/Dsl.tla

1. TLC (exhaustive) on spec/Dsl.tla: for every namespace of the bounded family (nesting depth <= 3, template reuse,
   parameters forwarded / defaulted / overridden / embedded, output references in all spellings crossing workflow
   levels, adversarial step names, 22 single-fault mutations) the specified result -- Flatten(ns) or Rejected(errs) --
   satisfies the C06 invariants (unique instance per component step, no parameter reference left, bindings as declared,
   every reference leads to a component, relation induced by the source references, acyclic; mutations are rejected
   with a location).  Coverage guard: both actions Compile and Reject are taken; the expected-to-fail invariant
   CodeNamingInjective must be refuted (witness of the naming hazard).
2. spec -> code: every state is emitted as JSON (namespace + specified result), the namespace is rendered to a DSL 2.0
   document, compiled by the REAL experiment.model.frontends.dsl.namespace_to_flowir(Namespace(**doc)), and
     * compiled: the FlowIR components are matched one-to-one with the specified instances (a bijection is searched,
       names are free but must be unique): command.arguments and references must equal the specified resolved arguments
       / references rendered with the names the compiler chose; FlowIRConcrete.validate() must be empty; for a sample the
       edges of WorkflowGraph.graphFromFlowIR are compared with the specified relation;
     * rejected: the exception must be DSLInvalidError and for every specified error one of its alternative locations
       must be a prefix of a reported location; any other exception, a hang or an accepted namespace is a violation.
"""
import json
import os
import re
import signal

from ..common import Check, MachineryError, SPEC
from .. import tlc

PID = "C06"

ALL_MUTS = ["unkTemplate", "unkArg", "unkParRef", "unkParTmpl", "unkStep", "selfRef", "nonSibling", "missingArg",
            "missingWfArg", "missingEntry", "wfCycle", "badRef", "refToWf", "refToMissing", "dataCycle", "methodless",
            "dupExec", "noExec", "execNoStep", "digitName", "unkEntry", "entryUnkArg", "varShadowsParam", "dictInStep", "dictInField"]

INVARIANTS = ["TypeOK", "PathsUnique", "OnePerStep", "NoParamLeft", "BindingsAsDeclared", "VariablesArePrivate", "FilesAsWritten", "RefsResolve", "Acyclic",
              "RelationInduced", "ValidPartCompiles", "EntrySourcesReject", "MutationsReject", "RejectedHasLocation"]

HANG_CPU_SECONDS = 3.0      # a compilation takes ~5 ms; the timer counts CPU time of this process (ITIMER_VIRTUAL)
HANG_BUDGET = 3             # after that many hangs with one key the remaining cases of the key are not executed


def _set(xs):
    return "{" + ", ".join('"%s"' % x if isinstance(x, str) else str(x) for x in xs) + "}"


def constants(tier):
    if tier == "thorough":
        c = dict(Depths=[1, 2, 3], Reuses=[0, 1, 2], Orders=["fwd", "rev"],
                 Namings=["homo", "dist", "prefix", "sufclash", "st0clash", "stage1"],
                 Spellings=["bareT", "meth", "in", "out", "q", "qcut", "dup", "two"], PassDowns=["bare", "sfx", "meth", "file"],
                 Bindings=["dflt", "lit", "fwd", "dfwd", "ovr", "emb", "litE", "litZ", "fwdE", "fwdZ"], VarModes=["none", "priv", "shadow"], EntryModes=["off", "on"], Muts=ALL_MUTS, MutNamings=["dist", "homo", "prefix"],
                 Full="TRUE")
    else:
        c = dict(Depths=[1, 2, 3], Reuses=[0, 1, 2], Orders=["fwd", "rev"],
                 Namings=["homo", "dist", "prefix", "sufclash", "st0clash", "stage1"],
                 Spellings=["bareT", "meth", "in", "out", "q", "qcut", "dup", "two"], PassDowns=["bare", "sfx", "meth", "file"],
                 Bindings=["dflt", "lit", "fwd", "dfwd", "ovr", "emb", "litE", "litZ", "fwdE", "fwdZ"], VarModes=["none", "priv", "shadow"], EntryModes=["off", "on"], Muts=ALL_MUTS, MutNamings=["dist", "homo"],
                 Full="FALSE")
    return c


def write_cfg(path, consts, emit, invariants):
    lines = ["CONSTANTS"]
    for k, v in consts.items():
        lines.append("  %s = %s" % (k, _set(v) if isinstance(v, list) else v))
    lines.append("  Emit = %s" % ("TRUE" if emit else "FALSE"))
    lines.append("SPECIFICATION Spec")
    lines += ["INVARIANT %s" % i for i in invariants]
    lines.append("CHECK_DEADLOCK FALSE")
    with open(path, "w") as f:
        f.write("\n".join(lines) + "\n")
    return path


# ---------------------------------------------------------------------------------------------------------------
# abstract namespace -> DSL 2.0 document

def render_tok(t):
    k = t["k"]
    if k in ("lit", "num"):
        return t["s"]
    if k == "par":
        s = "%%(%s)s" % t["s"]
        if t["segs"]:
            s += "/" + "/".join(t["segs"])
        if t["m"]:
            s += ":" + t["m"]
        return s
    if k == "ref":
        segs, cut = t["segs"], t["cut"]
        inside = segs[:cut] if cut > 0 else segs
        outside = segs[cut:] if cut > 0 else []
        s = "<%s>" % "/".join(inside)
        if t["q"]:
            s = '"%s"' % s
        if outside:
            s += "/" + "/".join(outside)
        if t["m"]:
            s += ":" + t["m"]
        return s
    if k == "bad":
        return "<%s:%s>" % ("/".join(t["segs"]), t["m"])
    raise MachineryError("token kind %r cannot be rendered" % k)


def render_value(v):
    if len(v) == 1 and v[0]["k"] == "num":
        return int(v[0]["s"])                       # a YAML integer
    if len(v) == 1 and v[0]["k"] == "dict":
        key, val = v[0]["s"].split("=")
        return {key: val}                           # a YAML dictionary
    return "".join(render_tok(t) for t in v)


def render_params(ps):
    out = []
    for p in ps:
        d = {"name": p["n"]}
        if p["hasD"]:
            d["default"] = render_value(p["d"])
        out.append(d)
    return out


def render_namespace(ns):
    doc = {"entrypoint": {"entry-instance": ns["entry"],
                          "execute": [{"target": "<entry-instance>", "args": {a["n"]: render_value(a["v"]) for a in ns["eargs"]}}]},
           "workflows": [], "components": []}
    for w in ns["wfs"]:
        doc["workflows"].append({
            "signature": {"name": w["name"], "parameters": render_params(w["params"])},
            "steps": {s["name"]: s["tmpl"] for s in w["steps"]},
            "execute": [{"target": "<%s>" % e["target"], "args": {a["n"]: render_value(a["v"]) for a in e["args"]}} for e in w["exec"]]})
    for c in ns["comps"]:
        comp = {"signature": {"name": c["name"], "parameters": render_params(c["params"])},
                "command": {"executable": "echo", "arguments": render_value(c["args"])}}
        if c["vars"]:
            comp["variables"] = {v["n"]: v["v"] for v in c["vars"]}
        doc["components"].append(comp)
    return doc


# ---------------------------------------------------------------------------------------------------------------
# execution on the real compiler

class Hang(BaseException):
    pass


def _on_timer(signum, frame):
    raise Hang()


def render_override(ns):
    """the arguments laid over entrypoint.execute[0].args, None when the caller gives none"""
    if not ns["ovr"]["given"]:
        return None
    return {a["n"]: render_value(a["v"]) for a in ns["ovr"]["args"]}


def load_package(doc, override, scratch):
    """second entry path: a package directory with conf/dsl.yaml loaded by DSLExperimentConfiguration, the override
    being the `global` section of a user variables file (as elaunch.py --variables does)"""
    import yaml
    import shutil
    import experiment.model.conf as C
    pkg = os.path.join(scratch, "entry.package")
    shutil.rmtree(pkg, ignore_errors=True)
    os.makedirs(os.path.join(pkg, "conf"))
    with open(os.path.join(pkg, "conf", "dsl.yaml"), "w") as f:
        yaml.safe_dump(doc, f, sort_keys=False)
    vfiles = []
    if override is not None:
        vf = os.path.join(scratch, "user_variables.yaml")
        with open(vf, "w") as f:
            yaml.safe_dump({"global": override}, f)
        vfiles = [vf]
    conf = C.DSLExperimentConfiguration(path=pkg, variable_files=vfiles, is_instance=False, createInstanceFiles=False,
                                        primitive=True, updateInstanceFiles=False, platform=None, system_vars={})
    return conf.get_flowir_concrete()


def compile_real(doc, override=None, package_scratch=None):
    """-> (kind, payload): ok FlowIRConcrete | invalid [locations], [messages] | exception exc | hang None"""
    import experiment.model.frontends.dsl as D
    import experiment.model.errors as E
    namespace = D.Namespace(**doc)            # a document of the family that pydantic refuses is a machinery error
    old = signal.signal(signal.SIGVTALRM, _on_timer)
    signal.setitimer(signal.ITIMER_VIRTUAL, HANG_CPU_SECONDS)
    try:
        try:
            if package_scratch is None:
                flowir = D.namespace_to_flowir(namespace, override_entrypoint_args=override)
            else:
                try:
                    flowir = load_package(doc, override, package_scratch)
                except E.ExperimentInvalidConfigurationError as e:
                    if isinstance(e.underlyingError, E.DSLInvalidError):
                        raise e.underlyingError
                    raise
        finally:
            signal.setitimer(signal.ITIMER_VIRTUAL, 0)
        return "ok", flowir
    except E.DSLInvalidError as e:
        locs, msgs = [], []
        for u in e.underlying_errors:
            locs.append(list(getattr(u, "location", None) or []))
            msgs.append(str(getattr(u, "underlying_error", u))[:200])
        return "invalid", (locs, msgs)
    except Hang:
        return "hang", None
    except Exception as e:
        return "exception", e
    finally:
        signal.setitimer(signal.ITIMER_VIRTUAL, 0)
        signal.signal(signal.SIGVTALRM, old)


ROMAN = re.compile(r"^[IVX]+$")


def split_step(step):
    m = re.fullmatch(r"(stage(\d+)\.)?(.+)", step)
    return int(m.group(2) or 0), m.group(3)


def conventional(step, comp_id):
    """the documented naming convention: the step name, possibly with -ROMAN appended, stageN. parsed off"""
    stage, base = split_step(step)
    if comp_id[0] != stage:
        return False
    name = comp_id[1]
    return name == base or (name.startswith(base + "-") and ROMAN.match(name[len(base) + 1:]) is not None)


def render_resolved(tokens, names):
    out = []
    for t in tokens:
        if t["k"] in ("lit", "num"):
            out.append(t["s"])
        elif t["k"] == "var":
            out.append("%%(%s)s" % t["s"])       # a private variable of the component stays, FlowIR binds it
        elif t["k"] == "ref":
            stage, name = names[tuple(t["prod"])]
            s = "stage%d.%s" % (stage, name)
            if t["file"]:
                s += "/" + "/".join(t["file"])
            out.append(s + ":" + t["m"])
        else:
            raise MachineryError("unexpected token %r in a resolved value" % (t,))
    return "".join(out)


def expected_component(inst, names):
    refs = sorted(set(render_resolved([r], names) for r in inst["refs"]))
    return render_resolved(inst["args"], names), refs, {v["n"]: v["v"] for v in inst["vars"]}


def topo(flat, edges):
    """instances ordered producers first (the specified relation of a compiled case is acyclic)"""
    paths = [tuple(i["path"]) for i in flat]
    preds = {p: set() for p in paths}
    for a, b in edges:
        preds[tuple(b)].add(tuple(a))
    order, done = [], set()
    while len(order) < len(paths):
        progressed = False
        for p in paths:
            if p not in done and preds[p] <= done:
                order.append(p)
                done.add(p)
                progressed = True
        if not progressed:
            raise MachineryError("specified relation has a cycle")
    return order


def arg_pattern(inst):
    """regular expression of the compiled arguments of an instance: the names of its producers are the unknowns"""
    rx, prods = [], []
    for t in inst["args"]:
        if t["k"] in ("lit", "num"):
            rx.append(re.escape(t["s"]))
        elif t["k"] == "var":
            rx.append(re.escape("%%(%s)s" % t["s"]))
        elif t["k"] == "ref":
            prods.append(tuple(t["prod"]))
            rx.append(r"stage(\d+)\.([^/: ]+)" + re.escape("".join("/" + f for f in t["file"]) + ":" + t["m"]))
        else:
            raise MachineryError("unexpected token %r in a resolved value" % (t,))
    return re.compile("".join(rx)), prods


def match(flat, edges, comps, restrict):
    """Search a bijection instance -> real component under which arguments and references agree.
    comps: {(stage, name): (arguments, sorted references)}.  Consumers are assigned first: the compiled arguments of a
    consumer dictate the ids of its producers, so the search only branches between indistinguishable instances.
    Returns (mapping or None, nodes visited); a mapping is verified completely before it is returned."""
    by_path = {tuple(i["path"]): i for i in flat}
    order = list(reversed(topo(flat, edges)))
    pats = {p: arg_pattern(by_path[p]) for p in order}
    ids = sorted(comps)
    names, used = {}, {}
    budget = [100000]

    def bind(p, cid, trail):
        if p in names:
            return names[p] == cid
        if cid in used or cid not in comps or (restrict and not conventional(p[-1], cid)):
            return False
        names[p] = cid
        used[cid] = p
        trail.append(p)
        return True

    def undo(trail):
        for p in trail:
            del used[names[p]]
            del names[p]

    def rec(k):
        if k == len(order):
            return all(expected_component(by_path[p], names) == comps[names[p]] for p in order)
        p = order[k]
        rx, prods = pats[p]
        for cid in ([names[p]] if p in names else ids):
            budget[0] -= 1
            if budget[0] < 0:
                return False
            trail = []
            ok = bind(p, cid, trail)
            m = rx.fullmatch(comps[cid][0]) if ok else None
            if m is not None:
                g = m.groups()
                ok = all(bind(q, (int(g[2 * i]), g[2 * i + 1]), trail) for i, q in enumerate(prods))
                if ok and rec(k + 1):
                    return True
            undo(trail)
        return False

    ok = rec(0)
    return (dict(names) if ok else None), 100000 - budget[0]


def first_difference(flat, edges, comps):
    """Best-effort explanation of a failed match: assign by the naming convention greedily, report the first mismatch."""
    by_path = {tuple(i["path"]): i for i in flat}
    names, used = {}, set()
    for p in topo(flat, edges):
        cands = [c for c in sorted(comps) if c not in used and conventional(p[-1], c)]
        if not cands:
            return "instances", "no component named after step %s (%s); components are %s" % (p[-1], "/".join(p), sorted(comps))
        best = None
        for c in cands:
            names[p] = c
            try:
                exp = expected_component(by_path[p], names)
            except KeyError:
                exp = None
            if exp == comps[c]:
                best = c
                break
        if best is None:
            c = cands[0]
            names[p] = c
            exp = expected_component(by_path[p], names)
            aspect = "arguments" if exp[0] != comps[c][0] else "references" if exp[1] != comps[c][1] else "variables"
            return aspect, "instance %s (component stage%d.%s): specified arguments %r references %r variables %r, compiled arguments %r references %r variables %r" % (
                "/".join(p), c[0], c[1], exp[0], exp[1], exp[2], comps[c][0], comps[c][1], comps[c][2])
        names[p] = best
        used.add(best)
    return "instances", "no consistent one-to-one assignment of components %s to instances %s" % (sorted(comps), sorted(by_path))


def slug(s):
    return re.sub(r"[^a-z0-9]+", "-", s.lower()).strip("-")


def covers(alts, ns, reported):
    """one of the alternative locations is a prefix of a reported location"""
    for a in alts:
        if a["kind"] == "entrypoint":
            pre = ["entrypoint"]
        else:
            coll = ns["wfs"] if a["kind"] == "workflows" else ns["comps"]
            idx = [i for i, t in enumerate(coll) if t["name"] == a["tmpl"]]
            if not idx:
                continue
            pre = [a["kind"], idx[0]]
            if a["idx"] >= 1:
                pre += ["execute", a["idx"] - 1]
        for loc in reported:
            if list(loc[:len(pre)]) == pre:
                return True
    return False


def naming_key(case):
    steps = [i["path"][-1] for i in case["flat"] if i["path"]]
    if any(re.search(r"-[IVX]+$", s) for s in steps):
        return "naming:generated-suffix-collides-with-literal-step-name"
    if any(s.startswith("stage0.") for s in steps):
        return "naming:stage0-prefix-collides-with-unprefixed-step-name"
    return "naming:component-ids-collide"


class _Prefixed:
    """the Check with every violation key prefixed by the entry path it was observed on"""

    def __init__(self, chk, prefix):
        self._chk, self._prefix = chk, prefix

    def violation(self, key, what, replay=None):
        return self._chk.violation(self._prefix + key, (self._prefix + " " if self._prefix else "") + what, replay)

    def __getattr__(self, name):
        return getattr(self._chk, name)


class Runner:
    def __init__(self, chk, graph_every=0):
        self.chk = chk
        self.hangs = {}
        self.skipped_after_hang = 0
        self.graph_every = graph_every
        self.ncompiled = 0
        self.stats = {"compiled": 0, "rejected": 0, "soft-rejected": 0, "graph-compared": 0, "match-nodes": 0, "fallback-matches": 0}

    def replay_obj(self, case, doc):
        return {"ch": case["ch"], "dsl": doc, "case": case}

    def run_case(self, case):
        self.run_path(case, "")
        if case["ch"]["es"]["on"]:
            # the sources of the entry arguments are also exercised through the package loader
            self.stats["package-path"] = self.stats.get("package-path", 0) + 1
            self.run_path(case, "package:")

    def run_path(self, case, via):
        chk = _Prefixed(self.chk, via)
        ns = case["ns"]
        doc = render_namespace(ns)
        override = render_override(ns)
        hard = [e for e in case["errs"] if not e["soft"]]
        soft = [e for e in case["errs"] if e["soft"]]
        whats = sorted(set(e["what"] for e in hard))
        label = slug(whats[0]) if whats else ("soft-" + slug(soft[0]["what"]) if soft else "valid")
        hang_key = ("invalid:%s:hang" % label) if hard else "valid:hang"
        if self.hangs.get(hang_key, 0) >= HANG_BUDGET:
            self.skipped_after_hang += 1
            return
        kind, payload = compile_real(doc, override, self.chk.scratch if via else None)
        chk.evaluated(("case", via, json.dumps(case["ch"], sort_keys=True)))
        rp = dict(self.replay_obj(case, doc), override=override, via=via or "namespace_to_flowir")
        if kind == "hang":
            self.hangs[hang_key] = self.hangs.get(hang_key, 0) + 1
            chk.violation(hang_key, "namespace_to_flowir did not return within %.0f s of CPU time (expected: %s) for choice %s" % (
                HANG_CPU_SECONDS, "rejection: " + "; ".join(whats) if hard else "a FlowIR", case["ch"]), rp)
            return
        if case["verdict"] == "rejected":
            self.stats["rejected"] += 1
            if kind == "ok":
                chk.violation("invalid:%s:accepted" % label, "invalid namespace (%s) was compiled; choice %s" % ("; ".join(whats), case["ch"]), rp)
            elif kind == "exception":
                chk.violation("invalid:%s:%s" % (label, type(payload).__name__),
                              "invalid namespace (%s) raised %s: %s instead of DSLInvalidError; choice %s" % (
                                  "; ".join(whats), type(payload).__name__, str(payload)[:200], case["ch"]), rp)
            else:
                locs, msgs = payload
                if not locs or any(not l for l in locs):
                    chk.violation("invalid:%s:no-location" % label, "DSLInvalidError without locations %s %s; choice %s" % (locs, msgs, case["ch"]), rp)
                missing = [e for e in hard if not covers(e["alts"], ns, locs)]
                if missing:
                    chk.violation("invalid:%s:location" % slug(missing[0]["what"]),
                                  "DSLInvalidError reports %s (%s) but not the offending location %s of '%s'; choice %s" % (
                                      locs, msgs, missing[0]["alts"], missing[0]["what"], case["ch"]), rp)
            return
        # ---- specified verdict: compiled
        self.stats["compiled"] += 1
        if kind == "invalid":
            locs, msgs = payload
            if soft and all(covers(e["alts"], ns, locs) for e in soft):
                self.stats["soft-rejected"] += 1       # the compiler may refuse e.g. a component step whose name ends with a digit
                return
            chk.violation("valid:rejected", "valid namespace rejected: %s at %s; choice %s" % (msgs, locs, case["ch"]), rp)
            return
        if kind == "exception":
            name = type(payload).__name__
            if name == "FlowIRComponentExists" and case["clash"]:
                key = naming_key(case)
            elif soft:
                key = "naming:%s" % slug(soft[0]["what"])
            else:
                key = "valid:exception:%s" % name
            chk.violation(key, "namespace_to_flowir raised %s: %s (neither a FlowIR nor a DSLInvalidError); steps %s; choice %s" % (
                name, str(payload)[:200], ["/".join(i["path"]) for i in case["flat"]], case["ch"]), rp)
            return
        self.compare(case, payload, rp, chk)

    def compare(self, case, flowir, rp, chk):
        flat, edges = case["flat"], case["edges"]
        real = flowir.get_components()
        ids = [(c.get("stage", 0), c["name"]) for c in real]
        if len(set(ids)) != len(ids):
            chk.violation("flatten:names-not-unique", "component ids %s; choice %s" % (ids, case["ch"]), rp)
            return
        if len(ids) != len(flat):
            chk.violation("flatten:instances", "%d components %s for %d reachable component steps %s; choice %s" % (
                len(ids), ids, len(flat), ["/".join(i["path"]) for i in flat], case["ch"]), rp)
            return
        comps = {(c.get("stage", 0), c["name"]): (c["command"].get("arguments", ""), sorted(c.get("references", [])),
                                                  {k: str(v) for k, v in (c.get("variables") or {}).items()}) for c in real}
        names, nodes = match(flat, edges, comps, restrict=True)
        self.stats["match-nodes"] += nodes
        if names is None:
            names, nodes = match(flat, edges, comps, restrict=False)
            self.stats["match-nodes"] += nodes
            if names is not None:
                self.stats["fallback-matches"] += 1
        if names is None:
            aspect, text = first_difference(flat, edges, comps)
            chk.violation("flatten:%s" % aspect, "%s; choice %s" % (text, case["ch"]), rp)
            return
        errs = flowir.validate()
        if errs:
            chk.violation("flatten:flowir-validate", "FlowIRConcrete.validate() -> %s; choice %s" % ([str(e)[:150] for e in errs][:3], case["ch"]), rp)
            return
        self.ncompiled += 1
        if self.graph_every and self.ncompiled % self.graph_every == 0:
            import experiment.model.graph as G
            g = G.WorkflowGraph.graphFromFlowIR(flowir.raw(), {})
            comp_nodes = set("stage%d.%s" % c for c in comps)
            got = sorted((a, b) for a, b in g.graph.edges() if a in comp_nodes and b in comp_nodes)
            want = sorted(set(("stage%d.%s" % names[tuple(a)], "stage%d.%s" % names[tuple(b)]) for a, b in edges))
            self.stats["graph-compared"] += 1
            if got != want:
                chk.violation("flatten:graph-edges", "graphFromFlowIR edges %s, specified relation %s; choice %s" % (got, want, case["ch"]), rp)
                return
        chk.sample({"choice": case["ch"], "components": {"/".join(p): "stage%d.%s" % names[p] for p in sorted(names)},
                    "edges": [["/".join(a), "/".join(b)] for a, b in edges]}, limit=4)


def run(tier):
    chk = Check(PID, tier)
    gen = os.path.join(SPEC, "gen")
    os.makedirs(gen, exist_ok=True)
    consts = constants(tier)
    # 1. the C06 invariants on the model, with per-action coverage
    c1 = write_cfg(os.path.join(gen, "Dsl_mc_%s.cfg" % tier), consts, False, INVARIANTS)
    r = tlc.run_tlc("Dsl", c1, timeout=800)
    if not r["ok"]:
        raise MachineryError("Dsl.tla: %s fails on the model:\n%s" % (r["violated"], r["out"][-3000:]))
    chk.add_tlc(r)
    # 1b. witness: the implementation's naming scheme, as modelled, is not injective on the family (expected to fail)
    small = dict(consts, Depths=[2], Reuses=[0], Orders=["fwd"], Namings=["sufclash", "st0clash"], Spellings=["bareT"],
                 PassDowns=["bare"], Bindings=["dflt"], VarModes=["none"], EntryModes=["off"], Muts=["unkStep"], MutNamings=["dist"], Full="FALSE")
    c1b = write_cfg(os.path.join(gen, "Dsl_witness_%s.cfg" % tier), small, False, ["CodeNamingInjective"])
    rw = tlc.run_tlc("Dsl", c1b, timeout=300, expect_violation=True)
    if rw["violated"] != "CodeNamingInjective":
        raise MachineryError("the witness invariant CodeNamingInjective was not refuted: the family lost its naming hazards")
    # 2. emission of (namespace, specified result)
    c2 = write_cfg(os.path.join(gen, "Dsl_emit_%s.cfg" % tier), consts, True, ["EmitCase"])
    r2 = tlc.run_tlc("Dsl", c2, workers=1, timeout=800)
    cases = r2["cases"]
    del r2["out"]
    if len(cases) * 2 != r["distinct"]:
        raise MachineryError("TLC emitted %d cases for %d states" % (len(cases), r["distinct"]))
    if len(cases) < 1000:
        raise MachineryError("TLC emitted only %d cases" % len(cases))
    # vacuity guard: every state but the initial ones is the result of exactly one action (phase = the action taken)
    taken = {"Compile": sum(1 for c in cases if c["verdict"] == "compiled"), "Reject": sum(1 for c in cases if c["verdict"] == "rejected")}
    for act, n in taken.items():
        if not n:
            raise MachineryError("action %s of Dsl.tla never taken (vacuous run): %s" % (act, taken))
    r["coverage"] = dict(taken, Init=len(cases))
    chk.cov["tlc"][0]["coverage"] = r["coverage"]
    for mut in consts["Muts"]:
        if not any(c["ch"]["mut"] == mut for c in cases):
            raise MachineryError("mutation %s never applied" % mut)
    cases.sort(key=lambda c: json.dumps(c["ch"], sort_keys=True))
    from .. import realenv  # noqa: F401  (silences the runtime's logging, imports the package once)
    nvalid = sum(1 for c in cases if c["verdict"] == "compiled")
    runner = Runner(chk, graph_every=max(1, nvalid // (100 if tier == "quick" else 300)))
    for case in cases:
        runner.run_case(case)
    keys = {}
    for key, _, _ in chk.violations:
        keys[key] = keys.get(key, 0) + 1
    chk.cov["violation_keys"] = dict(sorted(keys.items()))
    chk.cov["stats"] = dict(runner.stats, skipped_after_hang_budget=runner.skipped_after_hang,
                            emitted=len(cases), specified_compiled=nvalid, specified_rejected=len(cases) - nvalid)
    chk.cov["rule"] = ("one case per choice vector of Dsl.tla (depth, reuse, execute order, naming scheme, reference spelling, pass-down "
                       "mode, binding mode, mutation, mutation level); every case is compiled by the real namespace_to_flowir and "
                       "compared with Flatten / Rejected; distinct = distinct choice vectors")
    chk.cov["exhaustive"] = True
    chk.assumptions += [
        "the family is bounded: depth <= 3, <= 2 instances of a workflow template per level, 4 component templates, methods ref/output",
        "component fields other than command.arguments, environments, key outputs, interface, replicate/aggregate are not varied",
        "%(p)s/path:method is only written in step arguments, not in command.arguments (the compiler rejects the latter)",
        "component names are free (a bijection is searched); only uniqueness and consistency with the references are required",
        "a case that hangs is cut after %.0f s of CPU time; after %d hangs with one key the other cases of that key are not executed" % (
            HANG_CPU_SECONDS, HANG_BUDGET)]
    return chk.finish()


def replay(path):
    d = json.load(open(path))
    chk = Check(PID, "quick")
    from .. import realenv  # noqa: F401
    runner = Runner(chk, graph_every=1)
    runner.run_case(d["replay"]["case"])
    return chk.finish()
