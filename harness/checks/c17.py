"""C17 -- Component environments are built only from their declared sources.  Spec: spec/Env.tla

1. TLC explores, per family of constants, every combination of selected platform, environment selection (unset, '', none,
   environment, a name -- in several case spellings --, an unknown name), spelling of the definition, interpreter or not,
   and of which environments (named / package default, on the default platform / on p1) exist with which keys (literal,
   reference to an own key that is also a launch variable, references to launch-only and unknown names in both
   notations, the self-referring PATH idiom, a DEFAULTS list).  The design invariants (error iff no platform defines the
   name, NoLeak, none = empty, platform over default, own before launch, no foreign text, irrelevant environments never
   matter) are checked in every state and every state is emitted with the expected environment.
2. spec -> code: every state is rendered to a FlowIR package (with decoy environments on platform p2 and a decoy
   environment of another name), os.environ is replaced by the launch environment of the specification, and the real
   WorkflowGraph.environmentForNode('stage0.c') is compared with the expected environment (dictionary equality, or the
   error: ExperimentInvalidConfigurationError from the validating loader and FlowIREnvironmentUnknown from the call).
"""
import copy
import json
import os
import concurrent.futures

from ..common import Check, MachineryError, SPEC
from .. import tlc

PID = "C17"
KEYS4 = ["BASE", "PATH", "CH", "DEFAULTS"]
EMPT = ["LD_LIBRARY_PATH", "EMQ", "LIBS"]          # two cleared keys and a key that refers to them
FALSY = ["ZERO", "FLAG", "USEZ"]                    # unquoted 0 / 0.0 / true / false and a key that refers to them
ALLKEYS = KEYS4 + EMPT + FALSY


def perms(names, maxlen):
    import itertools
    return [list(p) for n in range(maxlen + 1) for p in itertools.permutations(names, n)]
ALLSELS = ["unset", "empty", "none", "NONE", "environment", "ENVIRONMENT", "name", "NAME", "NaMe", "unknown"]
SEL_TEXT = {"empty": "", "none": "none", "NONE": "None", "environment": "environment", "ENVIRONMENT": "Environment",
            "unknown": "nosuchenv"}
# names that are pieces / prefixes / extensions of the special names 'environment' and 'none'
ODD_NAMES = ["env", "environ", "ment", "iron", "on", "nvi", "e", "non", "no", "one", "nonee", "environment2", "xnone"]


def mixed(name):
    return "".join(ch.upper() if i % 2 == 0 else ch for i, ch in enumerate(name))


def sel_text(case):
    """what the component writes into command.environment"""
    sel, nm = case["sel"], case.get("name", "myenv")
    if sel in ("name", "NAME", "NaMe"):
        return {"name": nm, "NAME": nm.upper(), "NaMe": mixed(nm)}[sel]
    return SEL_TEXT.get(sel, "<unset>")


def def_name(case, n):
    """how the package spells the name of environment n (named / pkg) where it defines it"""
    base = case.get("name", "myenv") if n == "named" else "environment"
    return base if case["spell"] == "lower" else mixed(base)


def sset(xs):
    def one(x):
        if isinstance(x, (list, tuple)):
            return "<<" + ", ".join('"%s"' % y for y in x) + ">>"
        return ('"%s"' % x) if isinstance(x, str) else ("TRUE" if x else "FALSE")
    return "{" + ", ".join(one(x) for x in xs) + "}"


def family_cfg(name, plats=("default", "p1"), sels=("name",), spells=("lower",), interps=("absent",), namedD=(), namedP=(), pkgD=(), pkgP=(),
               creatable=("named@default", "named@p1", "pkg@default", "pkg@p1"), dlists=(), names=("myenv",), paths=("primitive", "replicated"),
               sels2=("none",), histlen=0):
    return {"name": name, "text": "CONSTANTS\n  Plats = %s\n  Sels = %s\n  Spells = %s\n  Interps = %s\n  NamedD = %s\n  NamedP = %s\n  PkgD = %s\n  PkgP = %s\n"
            "  Creatable = %s\n  Names = %s\n  Paths = %s\n  DLists <- MCDLists\n  Family = \"%s\"\n  Emit = TRUE\n  Sels2 = %s\n  HistLen = %d\n"
            "SPECIFICATION Spec\nINVARIANT TypeOK\nINVARIANT CheckAndEmit\nPROPERTY ReadsDoNotWrite\nCHECK_DEADLOCK FALSE\n" % (
                sset(plats), sset(sels), sset(spells), sset(interps), sset(namedD), sset(namedP), sset(pkgD), sset(pkgP), sset(creatable), sset(names), sset(paths), name, sset(sels2), histlen),
            "histlen": histlen,
            # a cfg file cannot hold sequences: the DEFAULTS lists are a definition of a generated module that extends Env
            "module": "---- MODULE %s ----\nEXTENDS Env\nMCDLists == %s\n====\n" % ("%s", sset(dlists)),
            "has_defaults": bool(dlists)}


def families(tier):
    th = tier == "thorough"
    orders = perms(["BASE", "PATH", "IMP"], 3)                  # length 0..3, every order: 16 lists
    orders += [["NOPE"], ["BASE", "NOPE", "PATH"], ["PATH", "NOPE", "BASE"], ["NOPE", "IMP"]]
    if th:
        orders = perms(["BASE", "PATH", "IMP", "NOPE"], 3)      # 41 lists
    fams = [
        # every selection x spelling x platform x interpreter x presence (absent / empty / with a key) of the four environments
        family_cfg("selection", sels=ALLSELS, spells=("lower", "mixed"), interps=("absent", "bash"),
                   # absent / empty as a whole / one key -- on p1 a key that is itself empty
                   namedD=["BASE", "PATH"] if th else ["BASE"], namedP=["EMQ", "CH"] if th else ["EMQ"], pkgD=["BASE"],
                   pkgP=["CH", "LD_LIBRARY_PATH"] if th else ["LD_LIBRARY_PATH"]),
        # the NAME of the environment: pieces / prefixes / extensions of 'environment' and 'none', in every spelling, defined on either,
        # both or no platform, with and without a package default environment
        family_cfg("names", sels=("name", "NAME", "NaMe"), spells=("lower", "mixed"), names=ODD_NAMES if th else ODD_NAMES[:8],
                   namedD=["BASE"], namedP=["BASE"], pkgD=["BASE"], creatable=("named@default", "named@p1", "pkg@default")),
        # one environment: every key subset x every DEFAULTS list (length 0..3, every order; imported names the environment
        # defines / does not define; the key referring to an imported name listed before / after it)
        family_cfg("defaults-orders", sels=("NaMe",), interps=("absent", "bash"), namedD=KEYS4, creatable=("named@default",), dlists=orders),
        # cleared (empty-valued) keys: own key '' that is / is not a launch variable, referenced by another key, imported by DEFAULTS or not
        family_cfg("defaults-empties", sels=("NaMe",), interps=("absent", "bash"), namedD=["PATH", "DEFAULTS"] + EMPT + (["BASE"] if th else []),
                   creatable=("named@default",), dlists=perms(["LD_LIBRARY_PATH", "PATH", "IMP"], 3 if th else 2)),
        family_cfg("named-empties", sels=("NaMe",), interps=("absent", "bash"), namedD=EMPT + ["DEFAULTS"], namedP=EMPT + ["DEFAULTS"],
                   creatable=("named@default", "named@p1"), dlists=[["LD_LIBRARY_PATH"], ["IMP"]] + ([["IMP", "LD_LIBRARY_PATH"]] if th else [])),
        # named environment on both platforms: every key subset x a few DEFAULTS lists on the default platform x on p1
        family_cfg("named-keys", sels=("NaMe",), spells=("mixed", "lower") if th else ("lower",), interps=("absent", "bash"), namedD=KEYS4, namedP=KEYS4,
                   creatable=("named@default", "named@p1"),
                   dlists=[["BASE", "PATH"], ["PATH", "BASE"], ["IMP"]] + ([[], ["PATH", "IMP", "BASE"]] if th else [])),
        # package default environment selected implicitly / explicitly: key subsets on both platforms
        family_cfg("default-keys", sels=("unset", "environment") + (("empty", "ENVIRONMENT") if th else ()), interps=("absent", "bash"),
                   pkgD=["BASE", "PATH", "LD_LIBRARY_PATH", "LIBS", "DEFAULTS"], pkgP=KEYS4 if th else ["BASE", "LD_LIBRARY_PATH", "DEFAULTS"],
                   creatable=("pkg@default", "pkg@p1"),
                   dlists=[["PATH", "IMP"], ["BASE", "PATH"]] + ([["PATH", "LD_LIBRARY_PATH", "NOPE"]] if th else [])),
    ]
    if th:
        # both kinds of environment with keys at once: the other kind must never matter
        fams.append(family_cfg("cross", sels=("unset", "name", "none"), interps=("bash",), namedD=["BASE", "PATH", "DEFAULTS"], namedP=["CH", "DEFAULTS"],
                               pkgD=["BASE", "DEFAULTS"], pkgP=["PATH", "CH"], dlists=[["BASE", "PATH"], ["IMP"]]))
    # unquoted falsy YAML scalars (0, 0.0, false) are values: on the default and/or the selected platform, named and default environment
    fams.append(family_cfg("falsy", sels=("NaMe", "unset"), namedD=FALSY, namedP=FALSY, pkgD=["ZERO", "USEZ"] + (["FLAG"] if th else []),
                           creatable=("named@default", "named@p1", "pkg@default"), paths=("primitive", "replicated") if th else ("primitive",)))
    # what the component says about an interpreter: nothing / '' / a variable that is '' / bash -- only bash makes it an interpreter
    fams.append(family_cfg("interpreter", sels=("none", "NaMe", "unset", "environment"), interps=("absent", "empty", "varempty", "bash"),
                           namedD=["BASE", "PATH"], namedP=["LD_LIBRARY_PATH"], pkgD=["BASE"] + (["PATH"] if th else []),
                           creatable=("named@default", "named@p1", "pkg@default"), paths=("primitive",)))
    # histories: two (thorough three) environment constructions, of the component and of a second one, on ONE configuration object
    fams.append(family_cfg("history", sels=("unset", "environment", "none", "NaMe"), sels2=("unset", "none", "NaMe"), interps=("absent", "bash"),
                           namedD=["BASE"], pkgD=["BASE", "DEFAULTS"], creatable=("named@default", "pkg@default") + (("pkg@p1",) if th else ()),
                           pkgP=["PATH"] if th else [], dlists=[["IMP"]], paths=("primitive",), histlen=3 if th else 2))
    # the replicated configuration (what tasks run with) is also built for the name family and a family of its own (quick) and in
    # addition for the named-environment families (thorough); the other families use the configuration as loaded only
    fams.append(family_cfg("replicated", sels=("NaMe", "unset") + (("none",) if th else ()), interps=("absent",), namedD=["BASE", "PATH", "DEFAULTS"],
                           namedP=["PATH", "LD_LIBRARY_PATH", "DEFAULTS"], pkgD=["BASE"], pkgP=["PATH"] if th else [],
                           creatable=("named@default", "named@p1", "pkg@default") + (("pkg@p1",) if th else ()), dlists=[["BASE", "PATH"], ["IMP"]]))
    both = ("names", "replicated") if not th else ("names", "replicated", "named-keys", "named-empties", "defaults-orders", "defaults-empties", "falsy")
    if True:
        for f in fams:
            if f["name"] not in both:
                f["text"] = f["text"].replace('Paths = {"primitive", "replicated"}', 'Paths = {"primitive"}')
    return fams


# ----------------------------------------------------------------------------------------------------------------
def render(tokens):
    """token sequence of the spec -> text.  Literal text is delimited by ':' so that it never extends a variable name."""
    if tokens and tokens[0]["t"] == "name":
        return ":".join(t["n"] for t in tokens)
    out = []
    for t in tokens:
        if t["t"] == "lit":
            out.append(":%s.%s.%d:" % (t["k"], t["e"], t["i"]))
        elif t["t"] == "ref":
            out.append("${%s}" % t["to"] if t["br"] else "$%s" % t["to"])
        elif t["t"] == "scalar":
            out.append(str(SCALARS[t["y"]]))            # an unquoted YAML scalar is the text that prints it
        else:
            raise MachineryError("unexpected token %r" % t)
    return "".join(out)


SCALARS = {"int0": 0, "float0": 0.0, "false": False, "true": True}


def render_doc(tokens):
    """what the package author writes: a value that is one YAML scalar is written unquoted (0, 0.0, false)"""
    if len(tokens) == 1 and tokens[0]["t"] == "scalar":
        return SCALARS[tokens[0]["y"]]
    return render(tokens)


def as_dict(x):
    return x if isinstance(x, dict) else {}


def build_package(case):
    envs = {"default": {}, "p1": {}, "p2": {}}
    for eid, content in as_dict(case["envs"]).items():
        n, p = eid.split("@")
        envs[p][def_name(case, n)] = {k: render_doc(v) for k, v in as_dict(content).items()}
    # decoys: platform p2 defines both environments, and another environment exists on every platform
    decoy = lambda tag: {"BASE": ":BASE.%s.1:" % tag, "CH": ":CH.%s.1:$BASE" % tag, "PATH": ":PATH.%s.1:$PATH" % tag, "DEFAULTS": "DECOY:HOME:PATH",
                         "EXTRA": ":EXTRA.%s.1:" % tag}
    envs["p2"][def_name(case, "named")] = decoy("named@p2")
    envs["p2"][def_name(case, "pkg")] = decoy("pkg@p2")
    for p in ("default", "p1", "p2"):
        envs[p]["otherenv"] = decoy("other@" + p)
    command = {"arguments": "x"}
    variables = {}
    interp = case["interp"]
    if interp is True or interp == "bash":
        command["interpreter"] = "bash"
    else:
        command["executable"] = "echo"
        if interp == "empty":
            command["interpreter"] = ""
        elif interp == "varempty":
            # the interpreter comes from a variable that is empty on the platforms that are selected (and bash on the decoy platform)
            command["interpreter"] = "%(interp)s"
            variables = {"default": {"global": {"interp": ""}}, "p1": {"global": {"interp": ""}}, "p2": {"global": {"interp": "bash"}}}
    if case["sel"] != "unset":
        command["environment"] = sel_text(case)
    comps = [{"name": "c", "stage": 0, "command": command},
             {"name": "d", "stage": 0, "command": {"executable": "echo", "arguments": "y", "environment": "otherenv"}}]
    if case.get("hist"):
        c2 = {"executable": "echo", "arguments": "z"}
        if case["sel2"] != "unset":
            c2["environment"] = sel_text(dict(case, sel=case["sel2"]))
        comps.append({"name": "c2", "stage": 0, "command": c2})
    flowir = {"platforms": ["default", "p1", "p2"], "environments": envs, "components": comps}
    if variables:
        flowir["variables"] = variables
    launch = {k: render(v) for k, v in case["launch"].items()}
    sysv = {k: render(v) for k, v in case["sys"].items()}
    return flowir, launch, sysv


_ENV = {}


def real_modules():
    if not _ENV:
        import logging
        logging.disable(logging.CRITICAL)
        import experiment.model.frontends.flowir as FL
        import experiment.model.conf as conf
        import experiment.model.graph as graph
        import experiment.model.errors as E
        _ENV.update(FL=FL, conf=conf, E=E, graph=graph)
    return _ENV["FL"], _ENV["conf"], _ENV["E"], _ENV["graph"]


def real_environment(flowir, plat, launch, sysv, validate, primitive=True):
    """the real environment of stage0.c with os.environ replaced by the launch environment of the case"""
    FL, conf, E, graph = real_modules()
    saved = dict(os.environ)
    try:
        os.environ.clear()
        os.environ.update(launch)
        cf = conf.FlowIRExperimentConfiguration(
            path=None, platform=plat, variable_files=[], system_vars=dict(sysv), is_instance=False, createInstanceFiles=False,
            primitive=primitive, concrete=FL.FlowIRConcrete(copy.deepcopy(flowir), plat, {}), updateInstanceFiles=False, validate=validate)
        wg = graph.WorkflowGraph(configuration=cf, platform=plat, primitive=primitive)
        return wg.environmentForNode("stage0.c")
    finally:
        os.environ.clear()
        os.environ.update(saved)


def origin(text):
    import re
    return sorted(set(re.findall(r":[A-Z_0-9]+\.([a-z0-9@]+)\.\d+:", str(text))))


def run_case(case, only_path=None):
    """both construction paths: from the package as loaded (primitive) and from the replicated configuration tasks run with"""
    out = []
    prim = None
    for path in case.get("paths", ["primitive"]):
        if only_path and path != only_path:
            continue
        res = run_case_path(case, path)
        if path == "primitive":
            prim = res
        elif res and prim == []:
            # the primitive path conforms, the replicated one does not: name the class of the input
            both = {"named": ("named@default", "named@p1"), "default-pkg": ("pkg@default", "pkg@p1")}.get(case["class"])
            if both and case["plat"] == "p1" and all(e in as_dict(case["envs"]) for e in both):
                res = [("replicated:platform-environment-replaces-default-environment", what, rp) for key, what, rp in res]
            else:
                res = [("replicated:" + key, what, rp) for key, what, rp in res]
        elif res:
            res = [("replicated:" + key, what, rp) for key, what, rp in res]
        out.extend(res)
    return out


def run_case_path(case, path):
    FL, conf, E, graph = real_modules()
    flowir, launch, sysv = build_package(case)
    exp = case["expected"]
    cls = case["class"]
    rp = {"case": case, "path": path}
    primitive = path == "primitive"
    where = "family %s (%s configuration) platform %s selection %r (definition spelled %s) interpreter %s envs %s" % (
        case["family"], path, case["plat"], sel_text(case), case["spell"], case["interp"],
        {e: sorted(as_dict(c)) for e, c in as_dict(case["envs"]).items()})
    out = []
    loader_error = call_error = None
    env = None
    try:
        env = real_environment(flowir, case["plat"], launch, sysv, True, primitive)
    except E.ExperimentInvalidConfigurationError as e:
        loader_error = e
        try:
            env = real_environment(flowir, case["plat"], launch, sysv, False, primitive)
        except BaseException as e2:
            if isinstance(e2, (KeyboardInterrupt, SystemExit)):
                raise
            call_error = e2
    except BaseException as e:
        if isinstance(e, (KeyboardInterrupt, SystemExit)):
            raise
        call_error = e
    return compare(case, exp, cls, env, loader_error, call_error, launch, sysv, where, rp)


def compare(case, exp, cls, env, loader_error, call_error, launch, sysv, where, rp):
    """the real outcome (environment or errors) against the specification's answer"""
    FL, conf, E, graph = real_modules()
    out = []
    if not exp["ok"]:
        if loader_error is None and call_error is None:
            out.append(("error:not-reported:%s" % cls, "%s: no platform defines the selected environment, real environment %r" % (where, env), rp))
        elif call_error is not None and not isinstance(call_error, E.FlowIREnvironmentUnknown):
            out.append(("error:wrong-exception:%s" % type(call_error).__name__, "%s: unknown environment reported as %r" % (where, call_error), rp))
        elif call_error is None:
            out.append(("error:not-reported-by-call:%s" % cls, "%s: the loader rejects the package but environmentForNode returns %r" % (where, env), rp))
        return out
    if loader_error is not None or call_error is not None:
        err = call_error or loader_error
        out.append(("unexpected-error:%s:%s" % (cls, type(err).__name__), "%s: specification expects an environment, real code raised %s" % (
            where, str(err)[-300:].replace("\n", " | ")), rp))
        return out
    want = {k: render(v) for k, v in as_dict(exp["env"]).items()}
    got = dict(env)
    legit = set(case["legit"])
    for k in sorted(set(got) - set(want)):
        if k in launch and cls != "default-launch":
            out.append(("leak:launch-variable:%s" % cls, "%s: launch variable %s=%r appears in the environment (declared/imported/system: %s)" % (
                where, k, got[k], sorted(legit)), rp))
        else:
            out.append(("extra-key:%s:%s" % (cls, k if k in ("EXTRA", "DEFAULTS") else "other"), "%s: unexpected variable %s=%r" % (where, k, got[k]), rp))
    for k in sorted(set(want) - set(got)):
        src = "system" if k in sysv else ("imported" if k in launch and k not in ALLKEYS else "declared")
        out.append(("missing:%s:%s" % (cls, src), "%s: variable %s missing, specification %r" % (where, k, want[k]), rp))
    for k in sorted(set(want) & set(got)):
        if got[k] != want[k]:
            o = origin(got[k])
            bad = [x for x in o if x.endswith("@p2") or x.startswith("other@")]
            if bad:
                key = "leak:decoy-text:%s" % cls
            else:
                key = "value:%s:%s" % (cls, k if k in ALLKEYS + ["SYS"] else "imported")
            out.append((key, "%s: variable %s should be %r, real %r" % (where, k, want[k], got[k]), rp))
    return out


def run_history(case):
    """Several environment constructions (of c and of the second component c2) on ONE configuration object: every answer must be
    the pure function of package and launch environment, and the system variables of the configuration must not change."""
    FL, conf, E, graph = real_modules()
    flowir, launch, sysv = build_package(case)
    out = []
    saved = dict(os.environ)
    names = [h["comp"] for h in case["hist"]]
    try:
        os.environ.clear()
        os.environ.update(launch)
        plat = case["plat"]
        cf = conf.FlowIRExperimentConfiguration(
            path=None, platform=plat, variable_files=[], system_vars=dict(sysv), is_instance=False, createInstanceFiles=False,
            primitive=True, concrete=FL.FlowIRConcrete(copy.deepcopy(flowir), plat, {}), updateInstanceFiles=False, validate=False)
        wg = graph.WorkflowGraph(configuration=cf, platform=plat, primitive=True)
        doc0 = copy.deepcopy(cf._concrete._flowir)
        flagged = False
        for n, h in enumerate(case["hist"]):
            rp = {"case": case, "step": n}
            sel = case["sel"] if h["comp"] == "c" else case["sel2"]
            where = "family %s platform %s history %s step %d: %s selects %r, interpreter %s, envs %s" % (
                case["family"], plat, " > ".join(names), n + 1, h["comp"], sel_text(dict(case, sel=sel)), case["interp"] if h["comp"] == "c" else "absent",
                {e: sorted(as_dict(c)) for e, c in as_dict(case["envs"]).items()})
            env = err = None
            try:
                env = wg.environmentForNode("stage0." + h["comp"])
            except BaseException as e:
                if isinstance(e, (KeyboardInterrupt, SystemExit)):
                    raise
                err = e
            before = "+".join("%s(%s)" % (x["comp"], x["class"]) for x in case["hist"][:n]) or "fresh"
            # the loader is not involved here (validate=False): an undefined environment must be reported by the call itself
            res = compare(case, h["exp"], h["class"], env, None, err, launch, sysv, where, rp)
            out.extend(("history:after-%s:%s" % (before, key), what, r) for key, what, r in res)
            if not flagged and dict(cf.system_vars) != sysv:
                flagged = True
                out.append(("history:system-variables-modified-by:%s" % h["class"], "%s: the system variables of the configuration changed: %r" % (
                    where, {k: v for k, v in dict(cf.system_vars).items() if sysv.get(k) != v}), rp))
            if cf._concrete._flowir != doc0:
                out.append(("history:document-modified-by:%s" % h["class"], "%s: building an environment changed the stored document" % where, rp))
                break
    finally:
        os.environ.clear()
        os.environ.update(saved)
    return out


def _worker(cases):
    return [run_history(c) if c.get("hist") else run_case(c) for c in cases]


def execute(cases):
    real_modules()
    nproc = int(os.environ.get("VERIF_PROCS", "0") or 0) or min(12, os.cpu_count() or 1)
    chunk = 128
    jobs = [cases[i:i + chunk] for i in range(0, len(cases), chunk)]
    results = []
    if nproc > 1 and len(jobs) > 1:
        import multiprocessing
        with multiprocessing.get_context("fork").Pool(nproc) as pool:
            for r in pool.imap(_worker, jobs):           # ordered: the outcome does not depend on the scheduling
                results.extend(r)
    else:
        for j in jobs:
            results.extend(_worker(j))
    return results


def run(tier):
    chk = Check(PID, tier)
    gen = os.path.join(SPEC, "gen")
    os.makedirs(gen, exist_ok=True)
    fams = families(tier)

    def tlc_run(fam, text=None, workers=1):
        mod = "Env_%s_%s" % (fam["name"].replace("-", "_"), tier)
        cfg = os.path.join(gen, mod + ".cfg")
        with open(cfg, "w") as f:
            f.write(text or fam["text"])
        with open(os.path.join(gen, mod + ".tla"), "w") as f:
            f.write(fam["module"] % mod)
        return tlc.run_tlc(mod, cfg, workers=workers, timeout=800, coverage=True, specdir=gen, jvm=["-DTLA-Library=" + SPEC],
                           expect_violation=text is not None)

    with concurrent.futures.ThreadPoolExecutor(max_workers=10) as ex:        # the threads only wait for TLC subprocesses
        runs = list(ex.map(tlc_run, fams))
    cases = []
    for fam, r in zip(fams, runs):
        if not r["ok"]:
            which = r["violated"]
            if which == "CheckAndEmit":
                # name the failing conjunct
                for inv in ("ErrorIff", "NoLeak", "NoneIsEmpty", "SystemAlways", "NoForeignText", "PlatformOverDefault", "OwnBeforeLaunch", "ForeignIrrelevant", "ClearedStaysCleared", "FalsyIsAValue"):
                    if tlc_run(fam, fam["text"].replace("Emit = TRUE", "Emit = FALSE").replace("INVARIANT CheckAndEmit", "INVARIANT " + inv), 4)["violated"]:
                        which = inv
                        break
            raise MachineryError("Env.tla (%s): %s fails on the model:\n%s" % (fam["name"], which, r["out"][-1500:]))
        for act in ("Create", "AddKey") + (("AddDefaults",) if fam["has_defaults"] else ()):
            if not r["coverage"].get(act):
                raise MachineryError("action %s of Env.tla never taken in family %s: %s" % (act, fam["name"], r["coverage"]))
        seen, uniq = set(), []
        for c in r["cases"]:
            k = json.dumps(c, sort_keys=True)
            if isinstance(c, dict) and k not in seen:
                seen.add(k)
                uniq.append(c)
        if fam["histlen"]:
            if not r["coverage"].get("Ask") or not uniq or any(len(c["hist"]) != fam["histlen"] for c in uniq):
                raise MachineryError("family %s: action Ask not taken or incomplete histories emitted (%d)" % (fam["name"], len(uniq)))
        elif len(uniq) != r["distinct"]:
            raise MachineryError("family %s: %d states but %d emitted cases" % (fam["name"], r["distinct"], len(uniq)))
        chk.add_tlc(r)
        cases.extend(uniq)
    # vacuity guards on the emitted family
    n_err = sum(1 for c in cases if not c["expected"]["ok"])
    n_launch = sum(1 for c in cases if c["class"] == "default-launch")
    n_imp = sum(1 for c in cases if c["expected"]["ok"] and "IMP" in as_dict(c["expected"]["env"]))
    n_layer = sum(1 for c in cases if c["plat"] == "p1" and len(as_dict(c["envs"])) >= 2)
    n_own = sum(1 for c in cases if c["expected"]["ok"] and c["class"] != "default-launch" and {"PATH", "BASE"} <= set(as_dict(c["expected"]["env"]))
                and "DEFAULTS" in "".join(",".join(as_dict(x)) for x in as_dict(c["envs"]).values()))
    n_path = sum(1 for c in cases if c["isinterp"] and c["expected"]["ok"] and c["class"] in ("named", "none") and "PYTHONPATH" in as_dict(c["expected"]["env"]))
    n_cleared = sum(1 for c in cases if c["expected"]["ok"] and "LIBS" in as_dict(c["expected"]["env"])
                    and any("LD_LIBRARY_PATH" in as_dict(x) for x in as_dict(c["envs"]).values()))
    n_emptyenv = sum(1 for c in cases if any(len(as_dict(x)) == 0 for x in as_dict(c["envs"]).values()))
    n_decoyplat = sum(1 for c in cases if c["plat"] == "default" and any(e.endswith("@p1") for e in as_dict(c["envs"])))
    if not (n_err and n_launch and n_imp and n_layer and n_own and n_path and n_decoyplat and n_cleared and n_emptyenv):
        raise MachineryError("emitted family is degenerate (a property antecedent is never true): errors %d, launch copies %d, imports %d, layered %d, "
                             "own-before-launch %d, interpreter paths %d, p1 environments while default is selected %d" % (
                                 n_err, n_launch, n_imp, n_layer, n_own, n_path, n_decoyplat))
    chk.cov["witnesses"] = {"error": n_err, "launch_copy": n_launch, "imported": n_imp, "layered": n_layer, "own_before_launch": n_own,
                            "interpreter_paths": n_path, "other_platform_decoys": n_decoyplat,
                            "cleared_key_referenced": n_cleared, "environment_empty_as_a_whole": n_emptyenv}
    results = execute(cases)
    for case, res in zip(cases, results):
        chk.evaluated((case["family"], case.get("name"), case["plat"], case["sel"], case["spell"], case["interp"], json.dumps(case["envs"], sort_keys=True),
                       case.get("sel2"), [h["comp"] for h in case.get("hist") or []]), n=len(case.get("hist") or case.get("paths", [1])))
        if case.get("hist"):
            chk.trace_validated()
        for key, what, rp in res:
            chk.violation(key, what, rp)
    for c in cases[7:6000:1500]:
        chk.sample({"family": c["family"], "platform": c["plat"], "selection": sel_text(c), "interpreter": c["interp"],
                    "environments": {e: {k: render(v) for k, v in as_dict(x).items()} for e, x in as_dict(c["envs"]).items()},
                    "expected": {k: render(v) for k, v in as_dict(c["expected"]["env"]).items()} if c["expected"]["ok"] else "error"})
    hist = {}
    for key, what, path in chk.violations:
        hist[key] = hist.get(key, 0) + 1
    for key in sorted(hist):
        print("  violations with key %s: %d" % (key, hist[key]))
    chk.cov["violation_keys"] = hist
    chk.cov["families"] = {f["name"]: r["distinct"] for f, r in zip(fams, runs)}
    chk.cov["rule"] = ("one case = one reachable state of Env.tla: selected platform x selection (10 spellings/classes) x spelling of the definition x "
                       "interpreter x existence and key set of the named / package default environment on default / p1; families: %s; "
                       "every case is one call of WorkflowGraph.environmentForNode under a controlled os.environ" % (
                           ", ".join("%s=%d" % (f["name"], r["distinct"]) for f, r in zip(fams, runs))))
    chk.cov["exhaustive"] = True
    chk.assumptions += [
        "values refer to other variables at depth one (plus the self-referring PATH idiom); the expansion is modelled as the two single passes the "
        "property states (environment itself, then launch environment)",
        "system variables and environment keys are disjoint; no '$$' escapes; no %(variable)s inside environment values",
        "empty values: own-first expansion also for cleared keys is the property; that a key which is empty before the expansion is left out of "
        "the result (and that an interpreter gets a cleared search path variable back from launch) is modelled as the behaviour of the code",
        "two definitions of one name that differ only in case on the same platform are not enumerated",
        "the launch environment is replaced as a whole (os.environ) for the duration of each call"]
    return chk.finish()


def replay(path):
    d = json.load(open(path))
    chk = Check(PID, "quick")
    case = d["replay"]["case"]
    chk.evaluated(("replay", json.dumps(case["envs"], sort_keys=True)))
    for key, what, rp in (run_history(case) if case.get("hist") else run_case(case, d["replay"].get("path"))):
        chk.violation(key, what, rp)
    return chk.finish()
