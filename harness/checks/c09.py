"""C09 -- Data references parse, print and classify consistently.  Spec: spec/References.tla

1. TLC checks the design on the full state machine of a reference's life cycle (authored -> written -> read ->
   expanded -> re-expanded): round trip, parts kept, spellings agree, expansion idempotent, the designed parsers classify
   as the statement of C09 demands, the two classes exclude each other.  A small run with -coverage is the vacuity guard
   for the actions; the driver checks that every class / every reason of the statement occurs among the emitted cases.
2. TLC emits one case per (abstract reference, stage of the consumer, package context) with every expected result.
3. Every case is rendered to a string and a context and executed on the real functions:
     FlowIR.ParseDataReference, ParseProducerReference, ParseDataReferenceFull, compile_reference,
     graph.DataReference (absoluteReference, relativeReference, producerIdentifier, path, method), ComponentIdentifier,
     FlowIR.expand_component_references / expand_potential_component_reference, is_datareference_to_component,
     Manifest.top_level_folders, FlowIRConcrete.validate(top_level_folders=Manifest(...).top_level_folders).
   The comparison is per clause of the property; the classification is compared only where the statement speaks
   (class "direct" / "component"), never for a reference to an unknown producer.
"""
import json
import os
import re

from ..common import Check, MachineryError, SPEC
from .. import tlc

PID = "C09"
STAGES = (0, 1, 12)


def _cfg(path, body):
    with open(path, "w") as f:
        f.write(body)
    return path


def R(tokens):
    """token sequence of the spec -> the concrete string"""
    return "".join(tokens)


def ROpt(tokens):
    return "".join(tokens) if tokens else None


def S(n):
    return None if n == -1 else n


_LOOKALIKE = re.compile(r"^stage[0-9]+.+$")


def input_class(case):
    """Canonical class of the INPUT of a case (keys of violations are classes of inputs, not of symptoms)."""
    r = case["r"]
    if case["kind"] == "name" and r["stage"] == -1 and "." in r["prod"] and _LOOKALIKE.match(r["prod"][0]):
        return "parse:relative-name-with-stage-lookalike-prefix"
    return None


class Ctx:
    def __init__(self, d):
        self.id = d["id"]
        self.known_pairs = set((st, R(nm)) for st, nm in d["known"])
        self.known = {}
        for st, nm in sorted(self.known_pairs):
            self.known.setdefault(st, []).append(nm)
        self.keys = sorted(R(k) for k in d["keys"])
        self.deps = sorted(R(x) for x in d["deps"])
        self.toplevel = sorted(R(x) for x in d["toplevel"])
        self.depnames = {R(a): R(b) for a, b in d["depnames"]}
        self.folders = sorted(R(x) for x in d["folders"])
        self.nested_only = set()     # top-level folders that only exist through a nested manifest key
        plain = set(k for k in self.keys if "/" not in k)
        for k in self.keys:
            if "/" in k and k.split("/")[0] not in plain:
                self.nested_only.add(k.split("/")[0])
        self.raw = d
        # application dependencies as the package document gives them, per platform, and the platform that is loaded
        self.platform = d.get("platform", "default")
        self.appdeps_doc = {}
        if d.get("docdefault") or d.get("dochas") or self.platform != "default":
            self.appdeps_doc["default"] = sorted(R(x) for x in d.get("docdefault", []))
        if d.get("dochas"):
            self.appdeps_doc["other"] = sorted(R(x) for x in d.get("docother", []))
        if not d.get("docdefault") and "default" in self.appdeps_doc and self.platform == "default" and not d.get("dochas"):
            del self.appdeps_doc["default"]
        self.platforms = ["default", "other"] if (self.platform != "default" or "other" in self.appdeps_doc) else None

    def document(self, components):
        doc = {"components": components}
        if self.appdeps_doc:
            doc["application-dependencies"] = {k: list(v) for k, v in self.appdeps_doc.items()}
        if self.platforms:
            doc["platforms"] = list(self.platforms)
        return doc


class Guarded:
    """Proxy of a class/module of the implementation: every call through it is followed by a comparison of the
    process-wide tables the reference functions consult with their pristine values ("reads do not write")."""

    def __init__(self, target, label, guard):
        object.__setattr__(self, "_t", target)
        object.__setattr__(self, "_label", label)
        object.__setattr__(self, "_guard", guard)
        object.__setattr__(self, "_cache", {})

    def __getattr__(self, name):
        cache = self._cache
        if name in cache:
            return cache[name]
        val = getattr(self._t, name)
        if not callable(val):
            return val              # plain data (e.g. SpecialFolders): always the current value
        guard, label = self._guard, "%s.%s" % (self._label, name)

        def call(*a, **kw):
            try:
                return val(*a, **kw)
            finally:
                guard.after(label)
        cache[name] = call
        return call


class GlobalState:
    """The module/class level tables consulted by the parse / print / classify / expand functions."""

    def __init__(self, FL, G, on_change):
        self.tables = [("FlowIR.SpecialFolders", FL.FlowIR.SpecialFolders),
                       ("FlowIR.data_reference_methods", FL.FlowIR.data_reference_methods),
                       ("DataReference.methods", G.DataReference.methods),
                       ("DataReference.pathMethods", G.DataReference.pathMethods),
                       ("DataReference.filesystemMethods", G.DataReference.filesystemMethods)]
        self.owners = [(FL.FlowIR, "SpecialFolders"), (FL.FlowIR, "data_reference_methods"), (G.DataReference, "methods"),
                       (G.DataReference, "pathMethods"), (G.DataReference, "filesystemMethods")]
        self.pristine = [list(t) for _, t in self.tables]
        self.strings = [("FlowIR.VariablePattern", FL.FlowIR, "VariablePattern", FL.FlowIR.VariablePattern)]
        self.on_change = on_change
        self.defer = False          # True: record a change but leave it in place (two-step histories), restore() later
        self.dirty = False

    def after(self, label):
        for k, (name, table) in enumerate(self.tables):
            owner, attr = self.owners[k]
            cur = getattr(owner, attr)
            if cur is not table or cur != self.pristine[k]:
                if not (self.defer and self.dirty):
                    self.on_change(name, label, list(self.pristine[k]), list(cur) if isinstance(cur, list) else cur)
                self.dirty = True
                if not self.defer:
                    self.restore()
                return
        for name, owner, attr, val in self.strings:
            if getattr(owner, attr) != val:
                self.on_change(name, label, val, getattr(owner, attr))
                setattr(owner, attr, val)

    def restore(self):
        for k, (name, table) in enumerate(self.tables):
            owner, attr = self.owners[k]
            table[:] = self.pristine[k]
            setattr(owner, attr, table)
        self.dirty = False


MAX_FAILURES = 400      # the verdict is decided long before: a pathological tree must still end within the budget


class Runner:
    def __init__(self, chk):
        import experiment.model.frontends.flowir as FL
        import experiment.model.graph as G
        import experiment.model.errors as E
        self.guard = GlobalState(FL, G, self.global_changed)
        self.E = E
        self.FL = Guarded(FL, "flowir", self.guard)
        self.F = Guarded(FL.FlowIR, "FlowIR", self.guard)
        self.G = Guarded(G, "graph", self.guard)
        self.nfail = 0
        self.current = None
        self.chk = chk
        self.classes = {}
        self.reasons = {}
        self.manifest_tlf = {}
        self.real_deps = {}
        self.failures = {}          # key -> [count, [(what, replay), ...]]
        self.e2e_methods = ("ref", "copy")

    # -- helpers -------------------------------------------------------------
    def bad(self, case, ctx, clause, what, root=None):
        ic = root or getattr(self, "root", None) or input_class(case)
        key = ic if ic else "%s:%s" % (clause, case["kind"])
        self.fail(key, "%s [reference %r, consumer stage %d, context %d: keys=%s deps=%s]" % (
            what, R(case["s"]), case["n"], ctx.id, ctx.keys, ctx.deps),
            {"kind": "case", "case": case, "ctx": ctx.raw, "prior_ctx": getattr(self, "prior_raw", None) if case.get("prior") else None})

    def global_changed(self, table, label, before, after):
        case, ctx = self.current or (None, None)
        self.fail("global-state:%s-modified-by:%s" % (table.split(".")[-1], label),
                  "%s changed the process-wide table %s from %s to %s%s" % (
                      label, table, before, after,
                      "" if case is None else " [while handling reference %r in context %d]" % (R(case["s"]), ctx.id)),
                  None if case is None else {"kind": "case", "case": case, "ctx": ctx.raw})

    def fail(self, key, what, replay):
        f = self.failures.setdefault(key, [0, []])
        f[0] += 1
        # (a write to a process-wide table is one fact per function: it is restored and counted, but only its first
        # occurrences count towards the early stop, so that the histories that depend on it are still executed)
        if not key.startswith("global-state:") or f[0] <= 20:
            self.nfail += 1
        if len(f[1]) < 3 and all(w != what for w, _ in f[1]):
            f[1].append((what, replay))

    def report(self):
        """at most three examples per class of input; the number of failing clauses of the class is part of the text"""
        for key in sorted(self.failures):
            n, examples = self.failures[key]
            for what, rp in examples:
                self.chk.violation(key, "%s (%d failed comparisons in this class)" % (what, n), rp)
        self.failures = {}

    def check_context(self, ctx):
        """Manifest.top_level_folders and application_dependency_to_name against TopLevel / DepName of the spec"""
        F, FL = self.F, self.FL
        m = FL.Manifest({k: "/nowhere/%d:copy" % i for i, k in enumerate(ctx.keys)})
        got = sorted(set(m.top_level_folders))
        self.manifest_tlf[ctx.id] = list(m.top_level_folders)
        self.chk.evaluated(("manifest", tuple(ctx.keys)))
        if got != ctx.toplevel:
            nested = any("/" in k for k in ctx.keys)
            self.fail("manifest:nested-key-top-level-folder" if nested else "manifest:top-level-folders",
                      "Manifest(%s).top_level_folders == %s, specification (left-most folders of the keys) %s" % (
                          ctx.keys, got, ctx.toplevel), {"kind": "ctx", "ctx": ctx.raw})
        # the application dependencies that hold for the loaded platform, through the real FlowIRConcrete
        try:
            conc = FL.FlowIRConcrete(ctx.document([{"name": "only", "stage": 0, "command": {"executable": "echo"}}]), ctx.platform, {})
            real = list(conc.get_application_dependencies())
        except Exception as e:
            real = ["<raised %r>" % e]
        self.real_deps[ctx.id] = real
        self.chk.evaluated(("appdeps", ctx.platform, json.dumps(ctx.appdeps_doc, sort_keys=True)))
        if sorted(real) != ctx.deps:
            self.fail("appdep:platform-layering",
                      "package with application-dependencies %s loaded for platform %r: get_application_dependencies() == %s, "
                      "specification (the platform's own entry, even when empty; the default's when it has none) %s" % (
                          ctx.appdeps_doc, ctx.platform, sorted(real), ctx.deps), {"kind": "ctx", "ctx": ctx.raw})
        for d, nm in sorted(ctx.depnames.items()):
            g = F.application_dependency_to_name(d)
            self.chk.evaluated(("dep", d))
            if g != nm:
                self.fail("appdep:name", "application_dependency_to_name(%r) == %r, specification %r" % (d, g, nm),
                          {"kind": "ctx", "ctx": ctx.raw})

    # -- one case --------------------------------------------------------------
    def run_history(self, case, ctx, prior):
        """two-step history: the process first inspects ANOTHER package (its folders are handed to the functions), then
        handles the reference of the case; the second answers must be the pure function of the case's own inputs"""
        F = self.F
        self.current = (case, ctx)
        self.prior_raw = prior.raw
        self.guard.defer = True
        s, n = R(case["s"]), case["n"]
        probes = [s, "some-component/f.txt:ref"] + ["%s/f.txt:copy" % f for f in prior.toplevel[:2]]
        folders = list(prior.toplevel) + sorted(set(prior.depnames.values()))
        try:
            for ref in probes:
                F.is_datareference_to_component(ref, folders)
                F.ParseDataReferenceFull(ref, n, prior.deps, prior.toplevel)
                F.expand_component_references([ref], n, prior.known, prior.deps, prior.toplevel)
                F.expand_potential_component_reference(ref, n, prior.known, folders + list(F.SpecialFolders))
        except Exception as e:
            self.bad(case, ctx, "history", "inspecting the other package raised %r" % e)
        leaked = self.guard.dirty
        try:
            # step two under whatever the first step left behind
            self.run_case(case, ctx, e2e=False, root="history:answer-depends-on-package-inspected-earlier" if leaked else None)
        finally:
            self.guard.defer = False
            if self.guard.dirty:
                self.guard.restore()

    def run_case(self, case, ctx, e2e=True, root=None):
        F, G = self.F, self.G
        self.current = (case, ctx)
        self.root = root
        s, n = R(case["s"]), case["n"]
        r = case["r"]
        kind, cls = case["kind"], case["cls"]
        prod, fil, method = R(r["prod"]), ROpt(r["file"]), r["method"]
        explicit = S(r["stage"])
        resolved = explicit if explicit is not None else n
        tlf, deps = ctx.toplevel, ctx.deps
        self.classes[cls] = self.classes.get(cls, 0) + 1
        self.chk.evaluated((s, n, ctx.id, case.get("prior", 0)))

        # (a) ParseDataReference / ParseProducerReference as documented
        try:
            got = F.ParseDataReference(s)
        except Exception as e:
            return self.bad(case, ctx, "parse", "ParseDataReference raised %r" % e)
        want = (R(case["pref"]), ROpt(case["file"]), case["method"])
        if tuple(got) != want:
            self.bad(case, ctx, "parse", "ParseDataReference -> %r, specification %r" % (got, want))
        pref = got[0]
        for idx, ws in ((n, S(case["pstage"])), (None, S(case["pstage0"]))):
            try:
                g = F.ParseProducerReference(R(case["pref"]), idx)
            except Exception as e:
                self.bad(case, ctx, "parse", "ParseProducerReference raised %r" % e)
                continue
            w = (ws, R(case["pname"]), case["phas"])
            if tuple(g) != w:
                self.bad(case, ctx, "parse", "ParseProducerReference(%r, %r) -> %r, specification %r" % (R(case["pref"]), idx, g, w))

        # (b) parts + classification: ParseDataReferenceFull in the context of the package
        try:
            full = tuple(F.ParseDataReferenceFull(s, n, deps, tlf))
            full0 = tuple(F.ParseDataReferenceFull(s, None, deps, tlf))
        except Exception as e:
            return self.bad(case, ctx, "parse", "ParseDataReferenceFull raised %r" % e)
        if full[1:] != (prod, fil, method) or full0[1:] != (prod, fil, method):
            self.bad(case, ctx, "roundtrip", "ParseDataReferenceFull -> parts %r, the reference was printed from %r" % (
                full[1:], (prod, fil, method)))
        if cls == "direct":
            self.reasons[self.reason(case, ctx)] = 1
            if full[0] is not None or full0[0] is not None:
                self.bad(case, ctx, "classify-direct", "a reference the statement calls direct (%s) is treated as a reference to "
                         "component stage %r by ParseDataReferenceFull" % (self.reason(case, ctx), full[0]))
        elif cls == "component":
            if full[0] != resolved:
                self.bad(case, ctx, "classify-component", "reference to the known component stage%d.%s: ParseDataReferenceFull "
                         "gives stage %r" % (resolved, prod, full[0]))
            if full0[0] != explicit:
                self.bad(case, ctx, "parse", "without a stage context ParseDataReferenceFull gives stage %r, the reference says %r" % (
                    full0[0], explicit))
        else:
            if full[0] not in (None, resolved) or full0[0] not in (None, explicit):
                self.bad(case, ctx, "roundtrip", "ParseDataReferenceFull gives stage %r / %r, the reference says %r" % (
                    full[0], full0[0], explicit))
        if cls != "unspecified":
            try:
                g = F.is_datareference_to_component(s, list(tlf) + sorted(set(ctx.depnames.values())))
            except Exception as e:
                g = repr(e)
            if g is not (cls == "component"):
                self.bad(case, ctx, "classify-" + cls, "is_datareference_to_component -> %r for a %s reference" % (g, cls))

        # (c) printing the parts gives back the same reference (real parse -> real print)
        try:
            st0, nm0, _ = F.ParseProducerReference(pref, None)
            back = F.compile_reference(nm0, got[1], got[2], st0)
            if back != s:
                self.bad(case, ctx, "roundtrip", "compile_reference(parts of the reference) == %r" % back)
            pr = F.compile_reference(prod, fil, method, explicit)
            if pr != s:
                self.bad(case, ctx, "roundtrip", "compile_reference%r == %r, specification %r" % ((prod, fil, method, explicit), pr, s))
        except Exception as e:
            self.bad(case, ctx, "roundtrip", "printing raised %r" % e)
        try:
            if kind == "name":
                d = G.DataReference(s, n)
                w = (R(case["absolute"]), R(case["relative"]), "stage%d.%s" % (resolved, prod), prod, resolved, fil, method)
                g = (d.absoluteReference, d.relativeReference, d.producerIdentifier.identifier, d.producerName, d.stageIndex,
                     d.path, d.method)
                if g != w:
                    self.bad(case, ctx, "roundtrip", "DataReference(%r, %d): (absolute, relative, producer, name, stage, path, method) == %r, "
                             "specification %r" % (s, n, g, w))
                ci = G.ComponentIdentifier(R(case["pref"]), n)
                g = (ci.identifier, ci.relativeIdentifier, ci.namespace, ci.stageIndex)
                w = ("stage%d.%s" % (resolved, prod), prod, "stage%d" % resolved, resolved)
                if g != w:
                    self.bad(case, ctx, "roundtrip", "ComponentIdentifier(%r, %d) == %r, specification %r" % (R(case["pref"]), n, g, w))
            d = G.DataReference(s)
            g = (d.stringRepresentation, d.producerName, d.stageIndex, d.path, d.method)
            w = (s, prod, explicit, fil, method)
            if g != w:
                self.bad(case, ctx, "roundtrip", "DataReference(%r): (string, name, stage, path, method) == %r, specification %r" % (s, g, w))
            if explicit is None and d.relativeReference != s:
                self.bad(case, ctx, "roundtrip", "DataReference(%r).relativeReference == %r" % (s, d.relativeReference))
        except Exception as e:
            self.bad(case, ctx, "roundtrip", "DataReference raised %r" % e)

        # (d) relative and absolute spellings name the same producer, file and method
        if kind == "name" and cls != "direct":
            a = R(case["absolute"])
            for m in STAGES:
                try:
                    fa = tuple(F.ParseDataReferenceFull(a, m, deps, tlf))
                    da = G.DataReference(a, m)
                    ga = (da.producerIdentifier.identifier, da.path, da.method)
                except Exception as e:
                    self.bad(case, ctx, "spelling", "absolute spelling %r raised %r" % (a, e))
                    break
                if fa != (resolved, prod, fil, method):
                    self.bad(case, ctx, "spelling", "absolute spelling %r read in stage %d -> %r, the reference is %r" % (
                        a, m, fa, (resolved, prod, fil, method)))
                    break
                if ga != ("stage%d.%s" % (resolved, prod), fil, method):
                    self.bad(case, ctx, "spelling", "DataReference(%r, %d) names %r" % (a, m, ga))
                    break

        # (e) expansion: direct stays, component -> absolute, idempotent under every stage context, parts kept
        folders_all = list(tlf) + sorted(set(ctx.depnames.values())) + list(F.SpecialFolders)
        outs = []
        try:
            outs.append(("expand_component_references", F.expand_component_references([s], n, ctx.known, deps, tlf)[0]))
            outs.append(("expand_potential_component_reference", F.expand_potential_component_reference(s, n, ctx.known, folders_all)))
            outs.append(("expand_potential_component_reference(no folders)", F.expand_potential_component_reference(s, n, ctx.known, None)))
        except Exception as e:
            self.bad(case, ctx, "expand", "expansion raised %r" % e)
        for fn, e1 in outs:
            if cls == "direct" and e1 != s:
                self.bad(case, ctx, "expand-direct", "%s rewrites the direct reference (%s) to %r" % (fn, self.reason(case, ctx), e1))
            if cls == "component" and e1 != R(case["absolute"]):
                self.bad(case, ctx, "expand-component", "%s -> %r, the absolute spelling is %r" % (fn, e1, R(case["absolute"])))
            try:
                p1 = F.ParseDataReferenceFull(e1, None)
                if tuple(p1[1:]) != (prod, fil, method) or p1[0] not in (None, resolved):
                    self.bad(case, ctx, "expand", "%s -> %r which names %r, the reference is %r" % (fn, e1, tuple(p1), (resolved, prod, fil, method)))
                for m in STAGES:
                    if fn == "expand_component_references":
                        e2 = F.expand_component_references([e1], m, ctx.known, deps, tlf)[0]
                    elif fn.endswith("(no folders)"):
                        e2 = F.expand_potential_component_reference(e1, m, ctx.known, None)
                    else:
                        e2 = F.expand_potential_component_reference(e1, m, ctx.known, folders_all)
                    # idempotence is stated for the expansion to the absolute form: a reference that was expanded (or is
                    # direct / already absolute) must not change again.  A relative reference to an unknown producer that
                    # was left relative is still relative to whichever stage reads it: not covered by the statement.
                    settled = cls != "unspecified" or e1 != s or explicit is not None
                    if e2 != e1 and settled:
                        self.bad(case, ctx, "expand-idempotent", "%s: %r -> %r -> (stage %d) %r" % (fn, s, e1, m, e2))
                        break
            except Exception as e:
                self.bad(case, ctx, "expand", "re-expansion of %r raised %r" % (e1, e))

        # (e') the same classification with the folders the REAL Manifest reports for the keys of the context
        #      (Manifest.top_level_folders -> ParseDataReferenceFull / is_datareference_to_component / expand_component_references)
        if cls != "unspecified":
            rtlf = list(self.manifest_tlf[ctx.id])
            rdeps = list(self.real_deps[ctx.id])        # ... and the application dependencies the real FlowIRConcrete reports
            root = None
            if sorted(set(rtlf)) != ctx.toplevel:
                root = "manifest:nested-key-top-level-folder" if any("/" in k for k in ctx.keys) else "manifest:top-level-folders"
            elif sorted(rdeps) != ctx.deps:
                root = "appdep:platform-layering"
            try:
                f2 = F.ParseDataReferenceFull(s, n, rdeps, rtlf)[0]
                c2 = F.is_datareference_to_component(s, rtlf + sorted(set(F.application_dependency_to_name(x) for x in rdeps)))
                e2 = F.expand_component_references([s], n, ctx.known, rdeps, rtlf)[0]
                if cls == "direct":
                    ok = f2 is None and c2 is False and e2 == s
                else:
                    ok = f2 == resolved and c2 is True and e2 == R(case["absolute"])
                if not ok:
                    self.bad(case, ctx, "classify-%s-with-manifest-folders" % cls,
                             "with top_level_folders=Manifest(%s).top_level_folders=%s and application dependencies %s (platform %r) the %s "
                             "reference gives ParseDataReferenceFull stage %r, is_datareference_to_component %r, "
                             "expand_component_references %r" % (ctx.keys, rtlf, rdeps, ctx.platform, cls, f2, c2, e2), root=root)
            except Exception as e:
                self.bad(case, ctx, "classify-%s-with-manifest-folders" % cls, "raised %r" % e, root=root)

        # (f) end to end: the validator, given the folders of the real Manifest, accepts direct references and references
        #     to known components
        #     (a sub-family: every direct reference with two of the methods, every component reference without a file)
        if e2e and kind != "variable" and ((cls == "direct" and method in self.e2e_methods) or
                                           (cls == "component" and fil is None and method == self.e2e_methods[0])):
            self.validate_case(case, ctx, s, n, cls, resolved, prod)

    def reason(self, case, ctx):
        b = case["s"][:case["s"].index(":")]
        if b[0] == "/":
            return "absolute path"
        seg = R(b[:b.index("/")] if "/" in b else b)
        if seg in self.F.SpecialFolders:
            return "reserved folder"
        if seg in ctx.toplevel:
            return "nested manifest folder" if seg in ctx.nested_only else "top-level manifest folder"
        if seg in ctx.depnames.values():
            return "application dependency"
        return "variable"

    def validate_case(self, case, ctx, s, n, cls, resolved, prod):
        FL, E = self.FL, self.E

        def comp(name, stage, refs=None):
            c = {"name": name, "stage": stage, "command": {"executable": "echo", "arguments": "hello"}}
            if refs:
                c["references"] = refs
            return c
        comps = []
        if cls == "component":
            comps.append(comp(prod, resolved))
        comps.append(comp("consumer-of-it", n, [s]))
        doc = ctx.document(comps)
        try:
            conc = FL.FlowIRConcrete(doc, ctx.platform, {})
            errs = conc.validate(top_level_folders=self.manifest_tlf[ctx.id])
            self.guard.after("FlowIRConcrete.validate")
        except Exception as e:
            return self.bad(case, ctx, "validate", "FlowIRConcrete.validate raised %r" % e)
        self.chk.trace_validated()
        unknown = [e for e in errs if isinstance(e, E.FlowIRReferenceToUnknownComponent)]
        if unknown:
            root = None
            if cls == "direct" and self.reason(case, ctx) == "nested manifest folder" and \
                    sorted(set(self.manifest_tlf[ctx.id])) != ctx.toplevel:
                root = "manifest:nested-key-top-level-folder"
            self.bad(case, ctx, "validate-" + cls, "FlowIRConcrete.validate(top_level_folders=Manifest(%s).top_level_folders) rejects the %s "
                     "reference: %s" % (ctx.keys, "direct (%s)" % self.reason(case, ctx) if cls == "direct" else "component",
                                        str(unknown[0])[:160]), root=root)


def _constants(names, files, methods, contexts, emit, priors=(0,), leaky=False):
    return ("CONSTANTS\n  Names <- %s\n  Files <- %s\n  Methods <- %s\n  Contexts <- %s\n  Emit = %s\n  Priors = {%s}\n  Leaky = %s\n" % (
        names, files, methods, contexts, "TRUE" if emit else "FALSE", ", ".join(str(p) for p in priors),
        "TRUE" if leaky else "FALSE"))


INVARIANTS = ("TypeOK", "RoundTrip", "PartsKept", "SpellingsAgree", "ExpandIdempotent", "ExpandKeepsParts",
              "ClassifiedAsStated", "DirectStaysPut", "ClassExclusive", "ReadsDoNotWrite", "PureAnswers")
ACTIONS = ("InspectOther", "Write", "Read", "ExpandRef", "ReExpand")


def run(tier):
    chk = Check(PID, tier)
    gen = os.path.join(SPEC, "gen")
    os.makedirs(gen, exist_ok=True)
    thorough = tier == "thorough"
    inv = "".join("INVARIANT %s\n" % i for i in INVARIANTS)
    # families of constants: (names, files, methods, contexts)
    # the last family of each tier is the two-step family: another package (context 4 / 8 ...) was inspected first
    fams = [("NamesFull", "FilesSmall", "MethodsSmall", "ContextsQuick", (0,)),
            ("NamesFull", "FilesTwo", "MethodsOne", "ContextsQuick", (4,))]
    if thorough:
        fams = [("NamesFull", "FilesFull", "MethodsAll", "ContextsQuick", (0,)),
                ("NamesFull", "FilesThree", "MethodsOne", "ContextsFull", (0,)),
                ("NamesFull", "FilesTwo", "MethodsOne", "ContextsQuick", (2, 4, 8))]
    # 1a. vacuity guard for the actions (small constants, -coverage)
    c0 = _cfg(os.path.join(gen, "References_cov_%s.cfg" % tier),
              _constants("NamesFull", "FilesTwo", "MethodsOne", "ContextsOne", False, priors=(0, 1)) + "SPECIFICATION Spec\n" + inv + "CHECK_DEADLOCK FALSE\n")
    res = tlc.run_tlc("References", c0, timeout=600, coverage=True)
    if not res["ok"]:
        raise MachineryError("References.tla: %s fails on the model:\n%s" % (res["violated"], res["out"][-2500:]))
    for a in ACTIONS:
        if not res["coverage"].get(a):
            raise MachineryError("action %s of References.tla never taken (vacuous run): %s" % (a, res["coverage"]))
    chk.add_tlc(res)
    # 1a'. the named deviations of the spec (today's implementation: prefix match of stage<N>, manifest keys split on the
    #      wrong character) must be distinguishable on these alphabets: both invariants are expected to FAIL
    for dev in ("PrefixRuleRoundTrips", "PathsepRuleClassifies"):
        cd = _cfg(os.path.join(gen, "References_dev_%s_%s.cfg" % (dev, tier)),
                  _constants("NamesFull", "FilesTwo", "MethodsOne", "ContextsOne", False) + "SPECIFICATION Spec\nINVARIANT %s\nCHECK_DEADLOCK FALSE\n" % dev)
        rd = tlc.run_tlc("References", cd, timeout=600, workers=1, expect_violation=True)
        if rd["violated"] != dev:
            raise MachineryError("the alphabets of References.tla cannot tell the deviation %s from the specification: %s" % (
                dev, rd["out"][-800:]))
        chk.cov.setdefault("deviations_distinguished", []).append(dev)
    # 1a''. the deviation "a call leaves the folders it was given in the process-wide table": with it the answer for a later
    #       reference depends on the package inspected before (PureAnswers expected to FAIL)
    cd = _cfg(os.path.join(gen, "References_dev_Leaky_%s.cfg" % tier),
              _constants("NamesFull", "FilesTwo", "MethodsOne", "ContextsQuick", False, priors=(4,), leaky=True) +
              "SPECIFICATION Spec\nINVARIANT PureAnswers\nCHECK_DEADLOCK FALSE\n")
    rd = tlc.run_tlc("References", cd, timeout=600, workers=1, expect_violation=True)
    if rd["violated"] != "PureAnswers":
        raise MachineryError("the two-step family of References.tla cannot tell a leaking call from a pure one: %s" % rd["out"][-800:])
    chk.cov["deviations_distinguished"].append("Leaky/PureAnswers")
    runner = None
    ncases = 0
    stopped = False
    for k, (names, files, methods, contexts, priors) in enumerate(fams):
        # 1b. the design satisfies the properties on the whole family
        c1 = _cfg(os.path.join(gen, "References_mc_%s_%d.cfg" % (tier, k)),
                  _constants(names, files, methods, contexts, False, priors=priors) + "SPECIFICATION Spec\n" + inv + "CHECK_DEADLOCK FALSE\n")
        res = tlc.run_tlc("References", c1, timeout=1500)
        if not res["ok"]:
            raise MachineryError("References.tla: %s fails on the model:\n%s" % (res["violated"], res["out"][-2500:]))
        chk.add_tlc(res)
        # 2. cases
        c2 = _cfg(os.path.join(gen, "References_emit_%s_%d.cfg" % (tier, k)),
                  _constants(names, files, methods, contexts, True, priors=priors) + "INIT Init\nNEXT Stutter\nINVARIANT EmitCase\nCHECK_DEADLOCK FALSE\n")
        res = tlc.run_tlc("References", c2, workers=1, timeout=1500)
        if not res["ok"]:
            raise MachineryError("References.tla: emission failed:\n%s" % res["out"][-2500:])
        emitted = res["cases"]
        res["out"] = ""
        ctxs = {d["id"]: Ctx(d) for d in emitted if d.get("t") == "ctx"}
        cases = [d for d in emitted if d.get("t") == "case"]
        if len(cases) < (10000 if priors == (0,) else 1000) or not ctxs:
            raise MachineryError("TLC emitted only %d cases / %d contexts" % (len(cases), len(ctxs)))
        # 3. spec -> code
        if runner is None:
            runner = Runner(chk)
        runner.manifest_tlf = {}
        runner.real_deps = {}
        for cid in sorted(ctxs):
            runner.check_context(ctxs[cid])
        runner.e2e_methods = ("ref", "copy") if methods != "MethodsOne" else ("ref", "ref")
        for case in cases:
            if runner.nfail >= MAX_FAILURES:
                stopped = True          # the verdict is decided; do not spend the budget on a pathological tree
                break
            if case.get("prior"):
                runner.run_history(case, ctxs[case["c"]], ctxs[case["prior"]])
                chk.trace_validated()
            else:
                runner.run_case(case, ctxs[case["c"]])
        ncases += len(cases)
        if stopped:
            break
        for case in cases[:: max(1, len(cases) // 3)][:3]:
            chk.sample({"reference": R(case["s"]), "consumer_stage": case["n"], "context": case["c"], "class": case["cls"],
                        "expand": R(case["expand"])})
        del emitted, cases
    runner.report()
    if stopped:
        chk.assumptions.append("execution stopped after %d failed comparisons: the remaining cases were not run" % runner.nfail)
        chk.cov["exhaustive"] = False
        return chk.finish()
    # vacuity guard of the implication-shaped invariants: every class and every reason of the statement occurred
    for cls in ("direct", "component", "unspecified"):
        if not runner.classes.get(cls):
            raise MachineryError("no emitted case of class %s" % cls)
    for reason in ("absolute path", "reserved folder", "top-level manifest folder", "nested manifest folder",
                   "application dependency", "variable"):
        if reason not in runner.reasons:
            raise MachineryError("no emitted direct reference because of: %s" % reason)
    chk.cov["classes"] = dict(runner.classes)
    chk.cov["rule"] = ("one case per (canonical abstract reference over the adversarial alphabets of spec/References.tla, stage of the consumer in "
                       "{0,1,12}, package context); every case runs ~40 calls of the real parse/print/expand/classify functions; "
                       "traces = end-to-end FlowIRConcrete.validate runs with the folders of the real Manifest + two-step histories "
                       "(another package inspected first); after every call the process-wide tables (FlowIR.SpecialFolders, "
                       "data_reference_methods, DataReference.methods/pathMethods/filesystemMethods, VariablePattern) are compared with "
                       "their pristine values")
    chk.cov["exhaustive"] = True
    chk.assumptions += ["strings are sequences of tokens (words and the separators . / :); character-level effects inside a word are not modelled",
                        "component names equal to a folder of the package, names whose first dot-segment is exactly stage<N>, "
                        "stage numbers with leading zeros and empty file paths are outside the grammar of the spec",
                        "the classification is compared only for references the statement speaks about (direct / known component)",
                        "ComponentIdentifier.to_uid escaping is not part of the statement and is not checked"]
    return chk.finish()


def replay(path):
    d = json.load(open(path))
    chk = Check(PID, "quick")
    rp = d["replay"]
    runner = Runner(chk)
    ctx = Ctx(rp["ctx"])
    runner.check_context(ctx)
    if rp["kind"] == "case":
        runner.e2e_methods = (rp["case"]["r"]["method"],)
        if rp["case"].get("prior") and rp.get("prior_ctx"):
            runner.run_history(rp["case"], ctx, Ctx(rp["prior_ctx"]))
        else:
            runner.run_case(rp["case"], ctx)
    runner.report()
    return chk.finish()
