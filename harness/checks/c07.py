"""C07 -- An instance reloaded from its own files is the same experiment.  Spec: spec/InstanceStore.tla

1. TLC explores every abstract state (package x description in memory x description on disk) reachable by histories of
   Create / Iterate(store) / Patch / Store / Load(update) of bounded length and checks the C07 properties on the model
   (StoreLoadIdentity, LoadYieldsStored, LoadStoreIdempotent, CreationOptionsSurvive); every action must be covered.
   The package family: platform x user variable file x replication x DoWhile x blueprint layers defining the same option
   (default/platform x global/stage) and a variable (`chunk`) that the stage scopes shadow; a stage variable that references replica / loopIteration and a variable the component
   overrides; a component that sets options explicitly to [] / "" / 0 / false where blueprint, built-in and global values are
   not (explicitly empty is not absent); the live objects are made by Create or by Load (Iterate commutes with Store;Load).
   Packages in the legacy DOSINI format (stored to / reloaded from the .instance.conf files), packages whose conf/ already
   carries a flowir_instance.yaml, and Reparam: the instance directory loaded as a package for another platform with
   updateInstanceConfiguration=True (a second store over an existing description; LastStoreWins).
   Component variables defined by override.<platform>.variables (one of them only there) and Peek: the instance directory read
   without naming the platform (experimentFromInstance(dir), what etest / ememo / ewrap do) must show every fact of what is stored
   but the platform's name.
2. spec -> code: TLC prints every transition with a shortest history that reaches it (ACTION_CONSTRAINT EmitStep).  Every
   maximal history is executed on real directories: Experiment.experimentFromPackage (platform, user variable file,
   replication, DoWhile document), WorkflowGraph.instantiate_dowhile_next_iteration, a dynamic option change,
   store_unreplicated_flowir_to_disk, Experiment.experimentFromInstance(updateInstanceConfiguration=...).
   After EVERY step the real objects are projected and compared with the spec's View (resolved values per layer, replica
   count, platform blueprint/override, iterations, patch generation); after every Load the complete projection (node set,
   dataflow edges, resolved and raw configuration of every node, references, environments, placeholders, DoWhile state,
   global variables, platform) is compared with the projection taken when the directory was last written, and after a
   Load that writes back, conf/flowir_instance.yaml and conf/manifest.yaml are compared with their previous contents.
"""
import json
import os
import shutil

from ..common import Check, MachineryError, SPEC
from .. import tlc
from .c05 import raised_by_real_code

PID = "C07"
ACTIONS = ["Create", "Iterate", "Patch", "Store", "Load", "Reparam", "Peek"]
PEEK_SKIP = ("plat",)          # a reader that does not name the platform sees everything but the platform's name
DOSINI_VIEW = ("live", "plat", "uv", "sv", "nrep", "iters", "dopt")       # the facts of View a legacy package is compared on

CHUNK = {"dg": 10, "ds": 200, "pg": 40, "ps": 500}          # the variable `chunk` given by each variable layer (spec: ChunkValue)
THREADS = {"dg": 1, "ds": 2, "pg": 4, "ps": 8}            # numberThreads given by each blueprint layer (spec: Value)
BP_LAYERS = {"g": ["dg"], "gs": ["dg", "ds"], "sP": ["ds", "pg"], "all": ["dg", "ds", "pg", "ps"]}    # spec: Defines


def lazy_suffix(pk):
    """the stage-1 variable `lz` references what only a component knows (replica, loopIteration) and `mode`"""
    if not (pk["repl"] or pk["loop"]):
        return None
    return ("-%(replica)s" if pk["repl"] else "") + ("-%(loopIteration)s" if pk["loop"] else "") + "-%(mode)s"


def lazy_kind(pk):
    """what makes the stage variable `lz` unresolvable outside a component (part of the violation keys)"""
    return "+".join(x for x, on in (("replica", pk["repl"]), ("loopIteration", pk["loop"])) if on)


def dosini_package_files(pk):
    """the same layout in the legacy format (default platform, no loop): conf/experiment.conf, variables.conf, stages.d/"""
    opt = "[opt]\nexecutable=echo\narguments=x %(zero)s [%(es)s]\n"
    if pk.get("ex", "absent") == "empty":
        opt += "max-restarts=0\nrepeatRetries=0\nresolvePath=false\nes=\nzero=0\n"
    work = "[work]\nexecutable=echo\narguments=stage0.gen:ref %(uv)s\nreferences=stage0.gen:ref\n" + ("replicate=%(n)s\n" if pk["repl"] else "")
    gather = "[gather]\nexecutable=echo\narguments=stage1.work:ref\nreferences=stage1.work:ref\n" + ("aggregate=yes\n" if pk["repl"] else "")
    return {
        "conf/experiment.conf": "[ENV-MYENV]\nDEFAULTS=PATH\nFOO=foo\n",
        "conf/variables.conf": "[GLOBAL]\nuv=d-uv\nn=2\nes=text\nzero=5\n\n[STAGE0]\nsv=d-sv\n",
        "conf/stages.d/stage0.conf": "[gen]\nexecutable=echo\narguments=%(uv)s %(sv)s\nenvironment=myenv\n\n" + opt,
        "conf/stages.d/stage1.conf": work,
        "conf/stages.d/stage2.conf": gather,
        "conf/stages.d/stage3.conf": "[report]\nexecutable=echo\narguments=stage2.gather:ref\nreferences=stage2.gather:ref\n",
    }


def package_files(pk):
    """stage 0: gen; stage 1: work (looped / replicated); stage 2: gather (+ stop, the condition); stage 3: report"""
    import yaml
    if pk.get("fmt", "flowir") == "dosini":
        return dosini_package_files(pk)
    lz = lazy_suffix(pk)
    wargs = " %(uv)s %(pv)s %(chunk)s" + (" %(lz)s" if lz else "")
    wattr = {"replicate": "%(n)s"} if pk["repl"] else None
    gattr = {"aggregate": True} if pk["repl"] else None

    def comp(name, stage, args, refs=None, attrs=None, **extra):
        c = {"name": name, "stage": stage, "command": {"executable": "echo", "arguments": args}}
        if refs:
            c["references"] = refs
        if attrs:
            c["workflowAttributes"] = attrs
        c.update(extra)
        return c
    files = {}
    comps = [comp("gen", 0, "%(uv)s %(pv)s %(sv)s %(gv)s %(pp)s %(ov)s", variables={"pp": 0, "ov": "c-ov"},
                  override={"plat": {"command": {"arguments": "OVR %(uv)s %(pv)s %(sv)s %(gv)s %(pp)s %(ov)s"},
                                     "variables": {"ov": "O-ov", "onlyo": "only"}}})]
    comps[0]["command"]["environment"] = "env1"
    opt = comp("opt", 0, "[%(es)s] %(zero)s %(flag)s")
    if pk.get("ex", "absent") == "empty":         # explicitly empty / zero / false, where the defaults are not
        opt.update({"variables": {"es": "", "zero": 0, "flag": False}, "references": [],
                    "executors": {"pre": [], "main": [], "post": []},
                    "workflowAttributes": {"restartHookOn": [], "shutdownOn": [], "repeatRetries": 0, "maxRestarts": 0,
                                           "memoization": {"disable": {"strong": False}}}})
    comps.append(opt)
    if pk["loop"]:
        doc = {"type": "DoWhile", "inputBindings": {"number": {"type": "output"}}, "condition": "stage1.stop/flag.txt:output",
               "components": [
                   comp("work", 0, "number:output" + wargs, ["number:output"], wattr, variables={"mode": "fast"}),
                   comp("gather", 1, "stage0.work:output %(mode)s", ["stage0.work:output"], gattr),
                   comp("stop", 1, "gather:output %(loopIteration)s", ["gather:output"])]}
        if not pk["repl"]:
            doc["loopBindings"] = {"number": "stage0.work:output"}      # a replicating component cannot carry the loop
        files["conf/dowhile.yaml"] = yaml.safe_dump(doc, sort_keys=False)
        comps.append({"name": "loop", "stage": 1, "$import": "dowhile.yaml", "bindings": {"number": "stage0.gen:output"}})
        refs = ["stage1.work:output", "stage2.gather:loopref"]
    else:
        comps.append(comp("work", 1, "stage0.gen:output" + wargs, ["stage0.gen:output"], wattr, variables={"mode": "fast"}))
        comps.append(comp("gather", 2, "stage1.work:output %(mode)s", ["stage1.work:output"], gattr))
        refs = ["stage1.work:output", "stage2.gather:ref"]
    comps.append(comp("report", 3, " ".join(refs), refs))
    variables = {"default": {"global": {"uv": "d-uv", "pv": "d-pv", "n": 2, "gv": "g-%(pv)s", "mode": "normal",
                                        "es": "text", "zero": 5, "flag": True},
                             "stages": {0: {"sv": "d-sv"}}},
                 "plat": {"global": {"pv": "P-pv"}, "stages": {0: {"sv": "P-sv"}}}}
    if lz:
        variables["default"]["stages"][1] = {"lz": "z" + lz}
        variables["plat"]["stages"][1] = {"lz": "pz" + lz}
    blueprint = {"default": {"global": {"resourceManager": {"config": {"walltime": 61}},
                                        "workflowAttributes": {"shutdownOn": ["KnownIssue"], "memoization": {"disable": {"strong": True}}}},
                             "stages": {}},
                 "plat": {"global": {"resourceManager": {"config": {"walltime": 62}}}, "stages": {}}}
    for layer in BP_LAYERS[pk["bp"]]:
        plat = "default" if layer[0] == "d" else "plat"
        if layer[1] == "g":
            blueprint[plat]["global"]["resourceRequest"] = {"numberThreads": THREADS[layer]}
            variables[plat]["global"]["chunk"] = CHUNK[layer]
        else:
            blueprint[plat]["stages"][1] = {"resourceRequest": {"numberThreads": THREADS[layer]}}
            variables[plat]["stages"].setdefault(1, {})["chunk"] = CHUNK[layer]
    main = {"platforms": ["default", "plat"],
            "output": {"result": {"data-in": "stage0.gen/out.stdout:copy", "description": "key output %(pv)s"}},
            "status-report": {0: {"stage-weight": 0.1}, 1: {"stage-weight": 0.4}, 2: {"stage-weight": 0.3}, 3: {"stage-weight": 0.2}},
            "variables": variables,
            "environments": {"default": {"env1": {"A": "%(pv)s", "C": "common"}}, "plat": {"env1": {"B": "plat-only"}}},
            "blueprint": blueprint, "components": comps}
    files["conf/flowir_package.yaml"] = yaml.safe_dump(main, sort_keys=False)
    return files


def user_variables(pk):
    if pk.get("fmt", "flowir") == "dosini":
        return {"global": "[GLOBAL]\nuv=U-uv\nn=3\n", "stage": "[GLOBAL]\nuv=U-uv\n\n[STAGE0]\nsv=U-sv\n"}.get(pk["uv"])
    if pk["uv"] == "global":
        return "global:\n  uv: U-uv\n  n: 3\n"
    if pk["uv"] == "stage":
        return "global:\n  uv: U-uv\nstages:\n  0:\n    sv: U-sv\n"
    return None


# ----------------------------------------------------------------------------------------------------------------
def project(exp, legacy=False):
    """the complete observable description of a live experiment (JSON-able, canonical)"""
    wg = exp.experimentGraph
    out = {"nodes": {}, "placeholders": {}, "dowhile": {}}
    fresh = wg._createCompleteGraph(inherit_graph=wg)      # dataflow implied by the description (no history artefacts)
    envkeys = dict(os.environ)
    for n in sorted(wg.graph.nodes):
        spec = wg.graph.nodes[n]["componentSpecification"]
        env = wg.environmentForNode(n) or {}
        env = {k: v for k, v in env.items() if envkeys.get(k) != v and k != "FLOW_RUN_ID"}
        out["nodes"][n] = {
            "resolved": wg.configurationForNode(n, raw=False),
            "raw": wg.configurationForNode(n, raw=True),
            "references": [r.absoluteReference for r in spec.dataReferences],
            "producers": sorted(fresh.predecessors(n)) if fresh.has_node(n) else "<missing>",
            "environment": env,
        }
    out["fresh_nodes"] = sorted(fresh.nodes)
    for p, v in wg._placeholders.items():
        out["placeholders"][p] = {"latest": v["latest"], "represents": sorted(v["represents"]), "DoWhileId": v["DoWhileId"]}
    for d, v in wg._documents.get("DoWhile", {}).items():
        out["dowhile"][d] = {"state": v.get("state"), "document": v.get("document")}
    out["platform"] = wg.configuration.platform_name
    # a legacy instance keeps its variables per stage ([META] of stageN.instance.conf): the global scope is empty after a reload
    # although every component resolves the same; the global scope is only compared for FlowIR packages
    out["globals"] = wg.configuration.get_global_variables() if not legacy else "<not compared>"
    out["stages"] = wg.numberStageConfigurations
    concrete = wg.configuration.get_flowir_concrete(return_copy=True)
    out["output"] = concrete.get_output()
    out["status-report"] = concrete.get_status()
    out["interface"] = concrete.get_interface()
    out["application-dependencies"] = concrete.get_application_dependencies()
    return json.loads(json.dumps(out, sort_keys=True, default=str))


def strip_platform(proj):
    """the projection without the platform's name and without the `override` blocks (they are folded into the component when the
    description is written and only kept, next to it, for the platform that is named)"""
    p = json.loads(json.dumps(proj))
    p.pop("platform", None)
    for n in p.get("nodes", {}).values():
        for k in ("raw", "resolved"):
            if isinstance(n.get(k), dict):
                n[k].pop("override", None)
    return p


def diff(a, b, path="", out=None, limit=12):
    out = [] if out is None else out
    if len(out) >= limit:
        return out
    if type(a) != type(b):
        out.append("%s: %r != %r" % (path, a, b))
    elif isinstance(a, dict):
        for k in sorted(set(a) | set(b)):
            if k not in a:
                out.append("%s/%s: only after the reload: %r" % (path, k, b[k]))
            elif k not in b:
                out.append("%s/%s: lost by the reload (was %r)" % (path, k, a[k]))
            else:
                diff(a[k], b[k], path + "/" + str(k), out, limit)
    elif a != b:
        out.append("%s: %r before the store, %r after the reload" % (path, a, b))
    return out


def observed_view_dosini(exp, pk):
    wg = exp.experimentGraph
    gen = wg.configurationForNode("stage0.gen", raw=False)
    oc = wg.configurationForNode("stage0.opt", raw=False)
    ow, ov = oc["workflowAttributes"], oc["variables"]
    works = sorted(n for n in wg.graph.nodes if n.startswith("stage1.work"))
    a = gen["command"]["arguments"].split()
    wargs = sorted({tuple(wg.configurationForNode(n, raw=False)["command"]["arguments"].split()[1:2]) for n in works})
    return {"live": True, "plat": wg.configuration.platform_name, "uv": a[0], "sv": a[1], "nrep": len(works) if pk["repl"] else 0,
            "iters": 0, "dopt": {"retries": ow["repeatRetries"], "maxr": -1 if ow["maxRestarts"] is None else ow["maxRestarts"],
                                 "rpath": oc["command"]["resolvePath"], "es": ov.get("es"), "zero": str(ov.get("zero"))},
            "_work_uv": wargs, "_opt_args": oc["command"]["arguments"]}


def observed_view(exp, pk):
    """the facts of spec View(), read off the real objects"""
    if pk.get("fmt", "flowir") == "dosini":
        return observed_view_dosini(exp, pk)
    wg = exp.experimentGraph
    gen = wg.configurationForNode("stage0.gen", raw=False)
    v = gen["variables"]
    nodes = list(wg.graph.nodes)
    works = {}          # (iteration, replica) -> node
    for n in nodes:
        name = n.split(".", 1)[1]
        if n.startswith("stage1.") and (name.split("#")[-1].startswith("work")):
            it = int(name.split("#")[0]) if "#" in name else 0
            rep = name.split("#")[-1][len("work"):]
            works[(it, int(rep) if rep else -1)] = n
    iters = max(i for i, _ in works)
    per_iter = [sorted(r for i, r in works if i == it) for it in range(iters + 1)]
    every = all(x == per_iter[0] for x in per_iter)
    nrep = len(per_iter[0]) if pk["repl"] else 0
    args = gen["command"]["arguments"].split()
    ovr = args[0] == "OVR"
    if ovr:
        args = args[1:]
    threads, lzs, wargs, chunks = set(), {}, set(), set()
    for (it, rep), n in sorted(works.items()):
        wk = wg.configurationForNode(n, raw=False)
        threads.add(int(wk["resourceRequest"]["numberThreads"]))
        a = wk["command"]["arguments"].split()
        wargs.add(tuple(a[1:3]))
        chunks.add(int(a[3]))
        lzs[(it, rep)] = a[4] if len(a) > 4 else None
    gathers = [n for n in nodes if n.startswith("stage2.") and n.split(".", 1)[1].split("#")[-1].startswith("gather")]
    threads2 = {int(wg.configurationForNode(n, raw=False)["resourceRequest"]["numberThreads"]) for n in gathers}
    oc = wg.configurationForNode("stage0.opt", raw=False)
    ow, ov = oc["workflowAttributes"], oc["variables"]
    opt = {"hook": ow["restartHookOn"], "shut": ow["shutdownOn"], "retries": ow["repeatRetries"],
           "maxr": -1 if ow["maxRestarts"] is None else ow["maxRestarts"],
           "memo": ow["memoization"]["disable"]["strong"], "es": ov.get("es"), "zero": ov.get("zero"), "flag": ov.get("flag")}
    return {"opt": opt, "live": True, "plat": wg.configuration.platform_name, "ov": v.get("ov"), "onlyo": v.get("onlyo") or "", "uv": v.get("uv"), "pv": v.get("pv"), "sv": v.get("sv"),
            "nrep": nrep, "wall": int(gen["resourceManager"]["config"]["walltime"]), "ovr": ovr,
            "pp": int(v.get("pp")), "iters": iters,
            "threads": sorted(threads)[0] if len(threads) == 1 else sorted(threads),
            "threads2": sorted(threads2)[0] if len(threads2) == 1 else sorted(threads2),
            "chunk": sorted(chunks)[0] if len(chunks) == 1 else sorted(chunks),
            "_args": args, "_work_args": sorted(wargs), "_lz": lzs, "_every_iteration_same_replicas": every}


def canon_files(loc, legacy=False):
    """the stored description; for a legacy package it is the .instance.conf files (flowir_instance.yaml is a by-product there)"""
    import yaml
    out = {}
    conf = os.path.join(loc, "conf")
    ini = [os.path.join("stages.d", f) for f in sorted(os.listdir(os.path.join(conf, "stages.d")))
           if f.endswith(".instance.conf")] if os.path.isdir(os.path.join(conf, "stages.d")) else []
    for f in ["experiment.instance.conf"] + ini:
        p = os.path.join(conf, f)
        if os.path.exists(p):
            with open(p) as fh:
                out[f] = {"lines": sorted(l.strip() for l in fh if l.strip())}
    for f in (("manifest.yaml",) if legacy else ("flowir_instance.yaml", "manifest.yaml")):
        p = os.path.join(loc, "conf", f)
        if not os.path.exists(p):
            out[f] = None
            continue
        d = yaml.safe_load(open(p))
        if isinstance(d, dict) and isinstance(d.get("components"), list):
            d["components"] = sorted(d["components"], key=lambda c: (c.get("stage", 0), c.get("name")))
        out[f] = json.loads(json.dumps(d, sort_keys=True, default=str))
    return out


class History:
    """one history on real directories"""

    def __init__(self, pk, scratch):
        self.pk, self.scratch = pk, scratch
        self.exp = None
        self.loc = None
        self.stored_projection = None      # projection of the live objects when the directory was last written
        self.stored_files = None
        self.patch = 0
        self.platform = None if pk["plat"] == "default" else pk["plat"]

    def create(self):
        import experiment.model.data
        import experiment.model.storage
        os.makedirs(self.scratch)
        pkdir = os.path.join(self.scratch, "p.package")
        for rel, text in package_files(self.pk).items():
            os.makedirs(os.path.dirname(os.path.join(pkdir, rel)), exist_ok=True)
            with open(os.path.join(pkdir, rel), "w") as f:
                f.write(text)
        vf = None
        uv = user_variables(self.pk)
        if uv:
            vf = os.path.join(self.scratch, "uservars.%s" % ("conf" if self.pk.get("fmt") == "dosini" else "yaml"))
            with open(vf, "w") as f:
                f.write(uv)
        if self.pk.get("stale"):
            # conf/ of the package was copied from an old instance of the same workflow (made for the other platform, without
            # user variables): its flowir_instance.yaml / manifest.yaml come along
            other = "plat" if self.platform is None else None
            donor_root = os.path.join(self.scratch, "donor")
            os.makedirs(donor_root)
            dpkg = experiment.model.storage.ExperimentPackage.packageFromLocation(pkdir, platform=other)
            donor = experiment.model.data.Experiment.experimentFromPackage(dpkg, location=donor_root, platform=other)
            for f in ("flowir_instance.yaml", "manifest.yaml"):
                shutil.copy(os.path.join(donor.instanceDirectory.location, "conf", f), os.path.join(pkdir, "conf", f))
            shutil.rmtree(donor_root, ignore_errors=True)
        pkg = experiment.model.storage.ExperimentPackage.packageFromLocation(pkdir, platform=self.platform)
        self.exp = experiment.model.data.Experiment.experimentFromPackage(
            pkg, location=self.scratch, platform=self.platform, variable_files=[vf] if vf else None)
        self.exp.validateExperiment(checkExecutables=False)
        self.loc = self.exp.instanceDirectory.location
        self.remember()

    def remember(self):
        legacy = self.pk.get("fmt") == "dosini"
        self.stored_projection = project(self.exp, legacy)
        self.stored_files = canon_files(self.loc, legacy)

    def iterate(self, store):
        wg = self.exp.experimentGraph
        meta = wg._documents["DoWhile"]["stage1.loop"]
        nxt = meta["state"]["currentIteration"] + 1       # as Controller._instantiate_next_dowhile_iteration
        wg.instantiate_dowhile_next_iteration(meta["document"], nxt, store)
        if store:
            self.remember()

    def reparam(self, platform):
        """the directory is loaded as a package for another platform; the experiment stores its description over the old one"""
        import experiment.model.data
        import experiment.model.storage
        self.platform = None if platform == "default" else platform
        inst = experiment.model.storage.ExperimentInstanceDirectory(self.loc, ignoreExisting=True)
        self.exp = experiment.model.data.Experiment(inst, platform=self.platform, is_instance=False, updateInstanceConfiguration=True)
        self.exp.validateExperiment(checkExecutables=False)
        self.remember()

    def peek(self, update=False):
        """what etest / ememo / ewrap see: the instance directory, no platform (update: the default updateInstanceConfiguration=True)"""
        import experiment.model.data
        e = experiment.model.data.Experiment.experimentFromInstance(self.loc, platform=None, updateInstanceConfiguration=update)
        e.validateExperiment(checkExecutables=False)
        return e

    def do_patch(self):
        conf = self.exp.configuration
        cur = self.exp.experimentGraph.configurationForNode("stage0.gen", raw=False)["variables"]["pp"]
        self.patch = int(cur) + 1
        for concrete in (conf.get_flowir_concrete(return_copy=False), conf.get_unreplicated_flowir(return_copy=False)):
            concrete.set_component_option((0, "gen"), "pp", self.patch)

    def store(self):
        self.exp.configuration.store_unreplicated_flowir_to_disk()
        self.remember()

    def load(self, update):
        import experiment.model.data
        self.exp = experiment.model.data.Experiment.experimentFromInstance(
            self.loc, platform=self.platform, updateInstanceConfiguration=update)
        self.exp.validateExperiment(checkExecutables=False)

    def close(self):
        shutil.rmtree(self.scratch, ignore_errors=True)


def key_of(pk, site, hist, detail=""):
    """canonical class of a failing history: observation site x what differs (fields of View / part of the projection /
    exception type).  Package features and the preceding actions are in the text, not in the key."""
    return "%s:%s" % (site, detail or "-")


def diff_class(d):
    """'/nodes/stage1.0#work0/resolved/command/arguments: ...' -> 'nodes/resolved/command'"""
    parts = d.split(":", 1)[0].strip("/").split("/")
    if parts and parts[0] == "nodes":
        parts = ["nodes"] + parts[2:4]
    else:
        parts = parts[:1]
    return "/".join(parts)


def label(pk):
    return "%s-%s%s%s-bp%s%s" % (pk["plat"], pk["uv"], "-repl" if pk["repl"] else "", "-loop" if pk["loop"] else "", pk["bp"],
                                 ("-explicit-empties" if pk.get("ex") == "empty" else "") + ("-dosini" if pk.get("fmt") == "dosini" else "") +
                                 ("-stale-instance-file-in-package" if pk.get("stale") else ""))


def hist_str(hist):
    def one(h):
        if h["a"] == "Iterate":
            return "Iterate(%s)" % ("store" if h["flag"] else "nostore")
        if h["a"] == "Load":
            return "Load(%s)" % ("update" if h["flag"] else "readonly")
        if h["a"] == "Peek":
            return "Load(without naming the platform, %s)" % ("update" if h["flag"] else "readonly")
        if h["a"] == "Reparam":
            return "Reparam(%s)" % ("plat" if h["flag"] else "default")
        return h["a"]
    return " ".join(one(h) for h in hist)


def run_history(args):
    pk, hist, expected, scratch = args
    from .. import realenv  # noqa: F401
    res = {"viol": [], "steps": 0, "loads": 0}
    h = History(pk, scratch)

    def viol(site, i, msg, detail=""):
        res["viol"].append((key_of(pk, site, hist[:i + 1], detail), "package %s, history [%s]: %s" % (label(pk), hist_str(hist[:i + 1]), msg),
                            {"pk": pk, "hist": hist[:i + 1]}))
    known_bad = set()
    dosini_pk = pk.get("fmt", "flowir") == "dosini"
    try:
        for i, step in enumerate(hist):
            a, flag = step["a"], step["flag"]
            subject = None          # the experiment to look at: the live one, or the one a platform-less reader gets
            try:
                if a == "Create":
                    h.create()
                elif a == "Iterate":
                    h.iterate(flag)
                elif a == "Patch":
                    h.do_patch()
                elif a == "Store":
                    h.store()
                elif a == "Load":
                    before_files = h.stored_files
                    h.load(flag)
                elif a == "Reparam":
                    h.reparam("plat" if flag else "default")
                elif a == "Peek":
                    subject = h.peek(flag)
                else:
                    raise MachineryError("unknown action %s" % a)
            except MachineryError:
                raise
            except Exception as e:
                # real code that raises on a package / history the spec calls valid is a violation, a harness failure is not
                if raised_by_real_code(e):
                    viol("raises-%s" % a, i, "%s raised %s: %s" % (a, type(e).__name__, str(e)[:300]), type(e).__name__)
                    break
                raise
            res["steps"] += 1
            peek = a == "Peek"
            want = expected[i]["disk" if peek else "mem"]
            subject = subject or h.exp
            try:
                got = observed_view(subject, pk)
                after = project(subject, dosini_pk) if a in ("Load", "Peek") else None
            except Exception as e:
                if raised_by_real_code(e):
                    viol("raises-observing-after-%s" % a, i, "reading the configuration of the experiment after %s raised %s: %s" % (
                        a, type(e).__name__, str(e)[:300]), type(e).__name__)
                    break
                raise
            dosini = pk.get("fmt", "flowir") == "dosini"
            keys = DOSINI_VIEW if dosini else [k for k in want if k not in ("lzp", "dopt")]
            bad = {k: (got[k], want[k]) for k in keys if got[k] != want[k] and not (peek and k in PEEK_SKIP)}
            if dosini:
                if got["_work_uv"] != [(want["uv"],)]:
                    bad["command line of work"] = (got["_work_uv"], want["uv"])
                wopt = "x %s [%s]" % (want["dopt"]["zero"], want["dopt"]["es"])
                if got["_opt_args"] != wopt:
                    bad["command line of opt"] = (got["_opt_args"], wopt)
            lz = lazy_suffix(pk)
            for (it, rep), val in sorted(({} if dosini else got["_lz"]).items()):
                wlz = None if not lz else (want["lzp"] + ("-%d" % rep if pk["repl"] else "") + ("-%d" % it if pk["loop"] else "") + "-fast")
                if val != wlz:
                    bad["lazy stage variable lz[%s]" % lazy_kind(pk)] = ((it, rep, val), wlz)
                    break
            exp_args = [want["uv"], want["pv"], want["sv"], "g-" + want["pv"], str(want["pp"]), want["ov"]]
            if not dosini and got["_args"] != exp_args:
                bad["command line of stage0.gen"] = (got["_args"], exp_args)
            if not dosini and got["_work_args"] != [(want["uv"], want["pv"])]:
                bad["command line of work"] = (got["_work_args"], [(want["uv"], want["pv"])])
            if not dosini and not got["_every_iteration_same_replicas"]:
                bad["replicas per iteration"] = ("differ", "equal")
            fields = sorted(k.split()[-1] for k in bad if k not in known_bad)
            fields = "+".join(fields[:3] + (["more"] if len(fields) > 3 else []))
            if fields:
                acts = [x["a"] for x in hist[:i + 1]]
                if peek:
                    viol("view-after-load-without-platform", i, "the experiment a reader gets without naming the platform differs from the "
                         "specification of what is stored (observed, specified): %s" % bad, fields)
                elif a == "Load":
                    viol("view-after-load", i, "the reloaded experiment differs from the specification (observed, specified): %s" % bad, fields)
                elif a == "Create":
                    # how a package is resolved at creation is the subject of C04; for C07 it is the baseline
                    # the history goes on: whether what was created survives store/load is decided on the real projection
                    res["drift"] = "package %s: the created experiment does not match View (spec drift): %s" % (label(pk), bad)
                elif "Load" in acts[:-1]:
                    viol("view-after-%s-of-reloaded-experiment" % a, i, "%s on an experiment rebuilt from its directory does not give what it gives "
                         "on the original (observed, specified): %s" % (a, bad), fields)
                else:
                    viol("view-after-%s" % a, i, "the experiment in memory differs from the specification (observed, specified): %s" % bad, fields)
            if peek:
                d = diff(strip_platform(h.stored_projection), strip_platform(after))
                if d:
                    viol("projection-after-load-without-platform", i, "%d difference(s) between the experiment that wrote the directory and what a reader "
                         "gets without naming the platform: %s" % (len(d), "; ".join(x[:300] for x in d[:4])), diff_class(d[0]))
                if flag:
                    # the reader wrote back: the description must be as it was, and the reload that names the platform still yields it
                    # (one key per history: what the NEXT reload does, else what changed in the directory)
                    try:
                        h.load(False)
                        d = diff(h.stored_projection, project(h.exp, dosini_pk))
                        if d:
                            viol("reload-after-platformless-load", i, "after a platform-less load that wrote back, the reload for platform %s differs from "
                                 "the experiment that wrote the directory: %s" % (h.platform or "default", "; ".join(x[:300] for x in d[:4])), "projection")
                        else:
                            d = diff(h.stored_files, canon_files(h.loc, dosini_pk))
                            if d:
                                viol("reload-after-platformless-load", i, "a platform-less load that wrote back changed the stored description: %s" % (
                                    "; ".join(x[:300] for x in d[:4])), "stored-description-changed")
                    except Exception as e:
                        if not raised_by_real_code(e):
                            raise
                        viol("reload-after-platformless-load", i, "after a platform-less load that wrote back (what etest / ememo / ewrap do), the reload "
                             "for platform %s (elaunch --restart) raised %s: %s" % (h.platform or "default", type(e).__name__, str(e).replace("\n", " ")[:300]),
                             "raises-" + type(e).__name__)
                    break               # the directory is not what the history assumes any more
                continue                # a read: nothing else changed
            known_bad |= set(bad)       # a divergence is reported where it first shows
            if a == "Load":
                res["loads"] += 1
                d = diff(h.stored_projection, after)
                if d:
                    viol("projection-after-load", i, "%d difference(s) between the experiment that wrote the directory and the reloaded one: %s" % (
                        len(d), "; ".join(x[:300] for x in d[:4])),
                         diff_class(d[0]) + ("[lz:%s]" % lazy_kind(pk) if any("/lz:" in x for x in d) else ""))
                if flag:
                    now = canon_files(h.loc, dosini_pk)
                    d = diff(before_files, now)
                    if d:
                        viol("stored-description-changed", i, "load + store changed the stored description: %s" % "; ".join(x[:300] for x in d[:4]),
                             d[0].split(":", 1)[0].strip("/").split("/")[0])
                    h.stored_files = now
                # from now on the reloaded experiment is "the experiment"; what it would write is what it read
                h.stored_projection = after
    except MachineryError:
        raise
    except Exception as e:
        import traceback
        res["error"] = "package %s history [%s]: %s\n%s" % (label(pk), hist_str(hist), e, traceback.format_exc())
    finally:
        h.close()
    return res


def cfg_text(platforms, uservars, repls, loops, maxiter, maxpatch, maxlen, emit, props=True, blueprints=("g", "gs", "sP", "all"),
             empties=("absent", "empty"), formats=("flowir",), stales=(False,), reparam=("default", "plat"), peek=True):
    def s(xs):
        return "{" + ", ".join(xs) + "}"
    t = ("CONSTANTS\n  Platforms = %s\n  UserVars = %s\n  Repls = %s\n  LoopsC = %s\n  Blueprints = %s\n  Empties = %s\n  Formats = %s\n  Stales = %s\n  ReparamTo = %s\n  PeekOn = %s\n  MaxIter = %d\n  MaxPatch = %d\n  MaxLen = %d\n  Emit = %s\n"
         "SPECIFICATION Spec\nVIEW view\nCONSTRAINT Bounded\nCHECK_DEADLOCK FALSE\n") % (
        s('"%s"' % p for p in platforms), s('"%s"' % u for u in uservars), s("TRUE" if r else "FALSE" for r in repls),
        s("TRUE" if r else "FALSE" for r in loops), s('"%s"' % b for b in blueprints), s('"%s"' % e for e in empties),
        s('"%s"' % f for f in formats), s("TRUE" if x else "FALSE" for x in stales), s('"%s"' % q for q in reparam), "TRUE" if peek else "FALSE", maxiter, maxpatch, maxlen, "TRUE" if emit else "FALSE")
    if props:
        t += ("INVARIANT TypeOK\nINVARIANT CreationOptionsSurvive\nINVARIANT DiskNeverAhead\nINVARIANT ViewIndependentOfOrigin\n"
              "PROPERTY StoreLoadIdentity\nPROPERTY LoadYieldsStored\nPROPERTY LoadStoreIdempotent\nPROPERTY StoreCapturesAll\nPROPERTY IterateCommutesWithReload\n"
              "PROPERTY PlatformOnlyChangesByReparam\nPROPERTY LastStoreWins\nPROPERTY PeekIsARead\n")
    if emit:
        t += "ACTION_CONSTRAINT EmitStep\n"
    return t


def _cfg(path, text):
    with open(path, "w") as f:
        f.write(text)
    return path


def histories_from(cases):
    """transitions printed by TLC -> maximal histories with the expected View after every step"""
    by = {}
    for c in cases:
        key = (json.dumps(c["pk"], sort_keys=True), json.dumps(c["hist"], sort_keys=True))
        by[key] = c
    out = []
    keys = set(by)
    prefixes = set()
    for (pkk, hk) in keys:
        hist = json.loads(hk)
        for i in range(1, len(hist)):
            prefixes.add((pkk, json.dumps(hist[:i], sort_keys=True)))
    for (pkk, hk) in sorted(keys - prefixes):
        hist = json.loads(hk)
        exp = []
        for i in range(1, len(hist) + 1):
            c = by.get((pkk, json.dumps(hist[:i], sort_keys=True)))
            if c is None:
                raise MachineryError("TLC printed no transition for the prefix %s of a history" % hist[:i])
            exp.append({"mem": c["mem"], "disk": c["disk"]})
        out.append((json.loads(pkk), hist, exp))
    return out


def execute(chk, jobs, procs):
    import multiprocessing as mp
    if procs <= 1 or len(jobs) < 4:
        results = [run_history(j) for j in jobs]
    else:
        with mp.get_context("fork").Pool(procs) as pool:
            results = pool.map(run_history, jobs, chunksize=2)
    loads = 0
    chk.cov.setdefault("drift_notes", [])
    for job, res in zip(jobs, results):
        if res.get("drift") and len(chk.cov["drift_notes"]) < 5:
            chk.cov["drift_notes"].append(res["drift"])
        if res.get("error"):
            raise MachineryError("history could not be executed: " + res["error"])
        chk.trace_validated(1)
        chk.evaluated(("hist", json.dumps(job[0], sort_keys=True), hist_str(job[1])), n=res["steps"])
        loads += res["loads"]
        seen = set()
        for key, what, rp in res["viol"]:
            if key in seen:
                continue
            seen.add(key)
            chk.violation(key, what, rp)
    return loads


def _summary(chk):
    per = {}
    for key, what, _ in chk.violations:
        per.setdefault(key, [0, what])
        per[key][0] += 1
    for key in sorted(per):
        print("C07 class %s: %d violation(s), e.g. %s" % (key, per[key][0], per[key][1][:400]))


def run(tier):
    chk = Check(PID, tier)
    gen = os.path.join(SPEC, "gen")
    os.makedirs(gen, exist_ok=True)
    thorough = tier == "thorough"
    full = dict(platforms=["default", "plat"], uservars=["none", "global", "stage"], repls=[False, True], loops=[False, True],
                blueprints=["g", "gs", "sP", "all"], empties=["absent", "empty"], formats=["flowir", "dosini"], stales=[False, True])
    maxlen, maxiter, maxpatch = 5, 2, 1
    flowir = dict(full, formats=["flowir"], stales=[False], reparam=["default", "plat"])
    norp = dict(flowir, reparam=[], peek=False)          # quick: most families without re-parametrisation / platform-less reads
    if thorough:
        families = [
            dict(flowir, reparam=[]),                                                         # all 192 FlowIR packages
            dict(flowir, blueprints=["sP"], empties=["empty"]),                               # + re-parametrisation for the other platform
            dict(flowir, stales=[True], blueprints=["sP"], empties=["empty"]),                # + a stale instance file in the package
            dict(full, platforms=["default"], loops=[False], blueprints=["g"], formats=["dosini"], stales=[False]),   # legacy format
        ]
    else:
        # sub-families (each a product) that together cover every value of every dimension with a loop and every pair
        # (platform, blueprint layers), (platform, user variables), (user variables, replication)
        families = [
            dict(norp, platforms=["plat"], uservars=["none"], repls=[True], loops=[True], blueprints=["g", "gs", "all"], empties=["empty"]),
            dict(flowir, platforms=["plat"], uservars=["none"], repls=[True], loops=[True], blueprints=["sP"], empties=["empty"]),
            dict(flowir, platforms=["default"], uservars=["none"], repls=[True], loops=[True], blueprints=["g", "gs"], empties=["absent"], stales=[True], peek=False),
            dict(norp, platforms=["plat"], uservars=["global"], repls=[True], loops=[True], blueprints=["sP"], empties=["absent"], peek=True),
            dict(norp, platforms=["default"], uservars=["stage"], repls=[False], loops=[True], blueprints=["gs"], empties=["empty"]),
            dict(norp, loops=[False], blueprints=["gs"], peek=True),
            dict(flowir, uservars=["global"], repls=[True], loops=[False], blueprints=["gs"], empties=["empty"], stales=[True], peek=False),
            dict(norp, platforms=["plat"], uservars=["none"], repls=[True], loops=[False], blueprints=["g", "sP", "all"], empties=["empty"]),
            dict(full, platforms=["default"], loops=[False], blueprints=["g"], formats=["dosini"], stales=[False], peek=False),
        ]
    # 1. the design (whole family, one step deeper than the histories that are executed)
    c1 = _cfg(os.path.join(gen, "InstanceStore_mc_%s.cfg" % tier), cfg_text(maxiter=maxiter, maxpatch=2, maxlen=maxlen + 2, emit=False, **full))
    r = tlc.run_tlc("InstanceStore", c1, timeout=600, coverage=True)
    if not r["ok"]:
        raise MachineryError("InstanceStore.tla: %s fails on the model:\n%s" % (r["violated"], r["out"][-2000:]))
    for act in ACTIONS:
        if not r["coverage"].get(act):
            raise MachineryError("action %s of InstanceStore.tla never taken (vacuous run): %s" % (act, r["coverage"]))
    chk.add_tlc(r)
    # 2. transitions with witness histories
    hs, npk = [], set()
    for fi, fam in enumerate(families):
        c2 = _cfg(os.path.join(gen, "InstanceStore_emit_%s_%d.cfg" % (tier, fi)), cfg_text(maxiter=maxiter, maxpatch=maxpatch, maxlen=maxlen, emit=True, props=False, **fam))
        r2 = tlc.run_tlc("InstanceStore", c2, workers=1, timeout=900)
        if not r2["ok"]:
            raise MachineryError("InstanceStore.tla emission failed: %s" % r2["out"][-2000:])
        chk.add_tlc(r2)
        hs += histories_from(r2["cases"])
    npk = {json.dumps(pk, sort_keys=True) for pk, _, _ in hs}
    if len(hs) < 300:
        raise MachineryError("TLC produced only %d histories" % len(hs))
    acts = {h["a"] for _, hist, _ in hs for h in hist}
    if acts != set(ACTIONS):
        raise MachineryError("the histories do not use every action: %s" % sorted(acts))
    if not any([x["a"] for x in hist][-2:] == ["Load", "Iterate"] for _, hist, _ in hs):
        raise MachineryError("no history unrolls a reloaded experiment")
    jobs = [(pk, hist, exp, os.path.join(chk.scratch, "h%04d" % i)) for i, (pk, hist, exp) in enumerate(hs)]
    procs = max(1, min(8, (os.cpu_count() or 2) // 2))
    loads = execute(chk, jobs, procs)
    chk.sample({"package": jobs[0][0], "history": hist_str(jobs[0][1])}, limit=3)
    chk.sample({"package": jobs[len(jobs) // 2][0], "history": hist_str(jobs[len(jobs) // 2][1])}, limit=3)
    chk.sample({"package": jobs[-1][0], "history": hist_str(jobs[-1][1])}, limit=3)
    chk.cov["rule"] = ("every transition of the abstract state graph of InstanceStore.tla (%d packages: platform x user variable file x "
                       "replication x DoWhile x blueprint layers; lazily resolved stage variable overridden at component level; live objects made by "
                       "Create or by Load; histories of <= %d actions) is executed once on real directories along a shortest history; "
                       "evaluations = executed steps, distinct = distinct (package, history)" % (len(npk), maxlen))
    chk.cov["packages"] = len(npk)
    chk.cov["exhaustive"] = True
    chk.cov["histories"] = len(jobs)
    chk.cov["loads_compared"] = loads
    chk.assumptions += [
        "loop iterations <= %d (histories with >= 10 iterations belong to C05's finding iteration-order:k>=10)" % maxiter,
        "the platform is passed to the reload explicitly, as elaunch does from elaunch.yaml",
        "dataflow edges are those implied by the description (a freshly computed graph); the live graph additionally keeps edges to the "
        "condition producers of earlier iterations, which a reload does not recreate",
        "environment variables inherited from the harness process and FLOW_RUN_ID are excluded from the comparison",
        "Patch changes a component variable in both the replicated and the unreplicated FlowIR (the runtime's own pattern for the interface section); "
        "options set only on the replicated FlowIR (setOptionForNode) are by design not part of the stored description",
        "the stored description is compared as parsed YAML (component order ignored), not byte by byte",
        "legacy (DOSINI) packages: default platform, no loop; compared on user / stage variables, replica count and the falsy-but-set options "
        "(max-restarts=0, repeatRetries=0, resolvePath=false, empty variable); the global variable scope and flowir_instance.yaml (a by-product "
        "there) are not compared because a legacy instance keeps its variables per stage",
        "quick tier: Reparam, Peek and stale instance files only in some sub-families",
        "Peek is read-only (updateInstanceConfiguration=False); for it the platform's name and the `override` blocks (folded into the component "
        "when the description is written) are not compared.  The write-back variant (Peek(update), the default of experimentFromInstance) is followed by "
        "the reload that names the platform (key reload-after-platformless-load:*)",
    ]
    _summary(chk)
    rc = chk.finish()
    if rc == 0 and chk.cov.get('drift_notes'):
        # no property violation, but creation does not resolve as InstanceStore.tla's View says: the oracle is out of date
        raise MachineryError(chk.cov['drift_notes'][0])
    return rc


def replay(path):
    d = json.load(open(path))
    chk = Check(PID, "quick")
    rp = d["replay"]
    pk, hist = rp["pk"], rp["hist"]
    gen = os.path.join(SPEC, "gen")
    os.makedirs(gen, exist_ok=True)
    c = _cfg(os.path.join(gen, "InstanceStore_replay_%d.cfg" % os.getpid()),
             cfg_text([pk["plat"]], [pk["uv"]], [pk["repl"]], [pk["loop"]], 2, 2, len(hist) + 1, True, props=False,
                      blueprints=[pk.get("bp", "g")], empties=[pk.get("ex", "absent")], formats=[pk.get("fmt", "flowir")],
                      stales=[pk.get("stale", False)]).replace("VIEW view\n", ""))
    r = tlc.run_tlc("InstanceStore", c, workers=1, timeout=300)
    os.remove(c)
    by = {json.dumps(x["hist"], sort_keys=True): x for x in r["cases"]}
    exp = []
    for i in range(1, len(hist) + 1):
        x = by.get(json.dumps(hist[:i], sort_keys=True))
        if x is None:
            raise MachineryError("history %s is not a behaviour of InstanceStore.tla" % hist_str(hist))
        exp.append({"mem": x["mem"], "disk": x["disk"]})
    execute(chk, [(pk, hist, exp, os.path.join(chk.scratch, "replay"))], 1)
    _summary(chk)
    return chk.finish()
