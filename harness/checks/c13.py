"""C13 -- A repeating observer sees its producers' final output and then stops.   Spec: spec/Repeating.tla

1. TLC on the design (spec/Repeating.tla, Deviations = {}): the three clauses of the property as invariants
   (NoExecutionBeforeOutput, FinalOutputObserved, BoundedAttempts, StopsForAReason, StopsInTime), liveness
   EventuallyStops under fairness, per-action coverage guard; with each named deviation enabled TLC must find the
   counterexample (sensitivity of the invariants), reachability witnesses must be reachable.
2. spec -> code: TLC enumerates every behaviour of small configurations with the environment schedule recorded
   (Record = TRUE) and emits (cfg, schedule, expected launches / timer / final observation).  Every schedule is
   executed on the REAL RepeatingEngine.run() + monitor.CreateMonitor in the lock-step world
   (harness/world_c13.py) and launches (virtual time, producers already finished?), the kill-delay timer, isAlive(),
   exitReason(), repeatRetries, ... are compared with the specification.  The families include transient filesystem
   faults: the k-th canConsume() listing of a still output-less producer directory raises OSError (the directory is
   moved away around the real os.listdir); a check that raised has seen nothing, so no launch may follow from it.
   "mixed": one repeating and one plain producer with per-producer output (the REAL Job.producersHaveOutputSinceDate on
   the real directories decides); "ofault": the listing of the repeating producer's directory fails for a whole attempt
   during the output check -- the attempt must be aborted (monitor sleeps 30 s + 5 s), never charged to repeatRetries.
   The "plumbing" family drives the observer through the REAL ComponentState.stageIn() producer subscription (real
   ComponentState objects for the observer and its producers: two live producers, same-named producers in two stages
   with one already finished, both reference orders, only finished producers): notify_all_producers_finished() must be
   entered exactly when the last producer that was alive at stageIn() -- identified by stage and name -- has finished.
3. code -> spec: seeded random schedules over a larger space (long tasks, long intervals, several outputs, external
   kill, kill delay) are executed on the real engine, every run is recorded as a trace and validated by TLC with
   spec/Repeating_trace.tla: "conform" (the run must be a behaviour of the spec; the named deviations needed to
   explain it are reported) and "observe" (the property predicates evaluated on the history of the real run).
   A run that is still alive at its horizon (producers finished, StopBound exceeded) violates StopsInTime.
Verdicts: property predicate false on a real run, or a named deviation needed -> VIOLATION (key = deviation / clause);
a run that the spec cannot explain although the property holds on it -> machinery error (spec drift), exit 2.
"""
import json
import multiprocessing
import os
import random
import shutil
from concurrent.futures import ThreadPoolExecutor

from ..common import Check, MachineryError, SPEC
from .. import tlc

PID = "C13"
ALL_MODES = ["repeatingProducer", "plainProducer", "earlierStage", "noCheck", "mixedProducers"]
KEY_OF_DEV = {
    "stale-suicide": "killdelay:expires-while-idle-after-an-execution",
    "stale-check": "race:last-output-and-notification-inside-output-check:no-retries-left",
}
KEY_OF_CLAUSE = {
    "p4": "fault:attempt-with-failed-output-check-charged-to-repeatRetries",
    "p0": "plumbing:producers-finished-notification-before-every-live-producer-finished",
    "p1": "clause1:executed-before-consumable-output",
    "p2": "clause2:stopped-before-an-execution-that-began-after-the-last-output",
    "p3a": "clause3:more-attempts-than-retries-allow-or-launch-after-final-success",
    "p3b": "clause3:stopped-on-its-own-without-success-and-with-retries-left",
    "p3c": "clause3:still-alive-after-the-stop-bound",
}


def _set(xs):
    return "{" + ", ".join(json.dumps(x) if isinstance(x, str) else str(x) for x in xs) + "}"


def _b(x):
    return "TRUE" if x else "FALSE"


def constants(intervals=(7,), retries=(0, 1), die=(0,), modes=("repeatingProducer",), durations=(2, 6), outcomes=("ok", "fail"),
              notify_by=7, max_outputs=1, extkill=False, prenotify=True, window=True, prerun=False, deviations=(), record=False,
              max_faults=0, shapes=("direct",)):
    return ("CONSTANTS\n  Intervals = %s\n  RetrySet = %s\n  DieAfterSet = %s\n  Modes = %s\n  Shapes = %s\n  Durations = %s\n  Outcomes = %s\n"
            "  NotifyBy = %d\n  MaxOutputs = %d\n  MaxFaults = %d\n  AllowExternalKill = %s\n  AllowPreNotify = %s\n  AllowWindow = %s\n"
            "  PreRunOutput = %s\n  Deviations = %s\n  Record = %s\n" % (
                _set(intervals), _set(retries), _set(die), _set(modes), _set(shapes), _set(durations), _set(outcomes), notify_by, max_outputs, max_faults,
                _b(extkill), _b(prenotify), _b(window), _b(prerun), _set(deviations), _b(record)))


INVARIANTS = ["TypeOK", "Consistent", "FaultNeverCharged", "NotifiedOnlyWhenFinished", "NoExecutionBeforeOutput", "FinalOutputObserved", "BoundedAttempts", "StopsForAReason", "StopsInTime"]
ACTIONS = ["Run", "Poll", "Begin", "Sample", "TaskEnd", "Decide", "LastAction", "Tick", "ProducerFinishes", "NewOutputFrom", "FaultRecover1", "FaultRecover2",
           "KillDelay", "ExternalKill"]
WITNESSES = ["W_StopsAfterSuccess", "W_StopsOutOfRetries", "W_StopsByKillDelayIdle", "W_ForcedRun", "W_WindowNotify"]


def _cfg(name, body):
    gen = os.path.join(SPEC, "gen")
    os.makedirs(gen, exist_ok=True)
    path = os.path.join(gen, name)
    with open(path, "w") as f:
        f.write(body)
    return path


# ---------------------------------------------------------------------------------------------------------------
# 1. the design

def design_checks(chk, tier):
    thorough = tier == "thorough"
    inv = "".join("INVARIANT %s\n" % i for i in INVARIANTS)
    if thorough:
        c = constants(intervals=(3, 7, 12), retries=(0, 2), die=(0, 4), modes=ALL_MODES[:4], durations=(2, 6), notify_by=12, max_outputs=2,
                      extkill=True, max_faults=1, shapes=("direct", "two", "earlierOnly"))
    else:
        # ("mixedProducers" is model-checked with the invariants in its emission run)
        c = constants(intervals=(3, 12), retries=(0, 2), die=(0, 4), modes=ALL_MODES[:4], durations=(2, 6), notify_by=8, max_outputs=1,
                      extkill=True, max_faults=1, shapes=("direct",))      # the other shapes: invariants checked in the "plumbing" emission run
    r = tlc.run_tlc("Repeating", _cfg("Repeating_design_%s.cfg" % tier, c + "SPECIFICATION Spec\n" + inv), coverage=True, deadlock=False,
                    timeout=1500)
    if not r["ok"]:
        raise MachineryError("Repeating.tla: %s fails on the model:\n%s" % (r["violated"], r["out"][-2500:]))
    for a in ACTIONS:
        if not r["coverage"].get(a):
            raise MachineryError("action %s of Repeating.tla never taken (vacuous run): %s" % (a, r["coverage"]))
    chk.add_tlc(r)
    # liveness (and the 20 s forced run, long tasks) on a narrower configuration
    c = constants(intervals=(7, 30), retries=(0, 1, 3) if thorough else (1, 3), die=(0, 9), modes=("repeatingProducer", "earlierStage"),
                  durations=(3, 22) if thorough else (3,), outcomes=("ok", "fail", "rexh") if thorough else ("ok", "fail"),
                  notify_by=9 if thorough else 6, max_outputs=1, extkill=False)
    r = tlc.run_tlc("Repeating", _cfg("Repeating_live_%s.cfg" % tier, c + "SPECIFICATION Spec\n" + inv + "PROPERTY EventuallyStops\n"),
                    deadlock=False, timeout=1500)
    if not r["ok"]:
        raise MachineryError("Repeating.tla (liveness run): %s fails on the model:\n%s" % (r["violated"], r["out"][-2500:]))
    chk.add_tlc(r)
    # sensitivity: with the code's deviation enabled the invariants must break;
    # vacuity: the antecedents / interesting corners are reachable.  (Independent TLC processes, run side by side.)
    jobs = []
    for dev, want, kw in (("stale-suicide", "StopsInTime", dict(intervals=(7,), retries=(1,), die=(4,), modes=("earlierStage",))),
                          ("stale-check", "FinalOutputObserved", dict(intervals=(7,), retries=(0,), die=(0,), modes=("repeatingProducer",)))):
        c = constants(durations=(2, 6), notify_by=12, deviations=(dev,), **kw)
        jobs.append(("deviation " + dev, want, _cfg("Repeating_dev_%s.cfg" % dev, c + "SPECIFICATION Spec\n" + inv)))
    for wname in (WITNESSES if thorough else WITNESSES[:3]):
        c = constants(intervals=(7, 30), retries=(0, 1, 3), die=(0, 4), modes=("repeatingProducer", "earlierStage"), durations=(2, 6), notify_by=12)
        jobs.append(("witness " + wname, wname, _cfg("Repeating_wit_%s.cfg" % wname, c + "SPECIFICATION Spec\nINVARIANT %s\n" % wname)))
    c = constants(intervals=(3,), retries=(1,), die=(0,), modes=("plainProducer", "noCheck"), durations=(2,), notify_by=12, max_faults=2)
    jobs.append(("witness W_FaultedCheck", "W_FaultedCheck", _cfg("Repeating_wit_W_FaultedCheck.cfg", c + "SPECIFICATION Spec\nINVARIANT W_FaultedCheck\n")))
    c = constants(intervals=(7,), retries=(1,), die=(0,), shapes=("two", "sameNameEarlierLast"), durations=(2,), notify_by=8)
    jobs.append(("witness W_PlumbingNotified", "W_PlumbingNotified", _cfg("Repeating_wit_W_PlumbingNotified.cfg", c + "SPECIFICATION Spec\nINVARIANT W_PlumbingNotified\n")))
    with ThreadPoolExecutor(max_workers=4) as ex:
        res = list(ex.map(lambda j: tlc.run_tlc("Repeating", j[2], deadlock=False, timeout=600, expect_violation=True, workers=2), jobs))
    for (what, want, _), r in zip(jobs, res):
        if r["violated"] != want:
            raise MachineryError("%s: expected TLC to violate %s, got %s (insensitive / vacuous invariant)" % (what, want, r["violated"]))
        # (search stops at the counterexample: state counts vary with worker timing, keep them out of the totals)
        chk.cov.setdefault("sensitivity", []).append({"run": what, "violates": want})


# ---------------------------------------------------------------------------------------------------------------
# 2. behaviours out of TLC

def families(tier):
    if tier == "thorough":
        return [
            ("timeline", dict(intervals=(7, 12), retries=(0, 1, 2), die=(0,), modes=("repeatingProducer",), durations=(2, 6), notify_by=12, max_outputs=1)),
            ("timeline2", dict(intervals=(7,), retries=(0, 1), die=(0,), modes=("repeatingProducer",), durations=(2, 6), notify_by=8, max_outputs=2)),
            ("killdelay", dict(intervals=(7,), retries=(0, 1), die=(4, 9), modes=("earlierStage", "repeatingProducer"), durations=(2, 6), notify_by=8)),
            ("extkill", dict(intervals=(3,), retries=(0, 1), die=(0, 4), modes=("plainProducer", "repeatingProducer"), durations=(6,), notify_by=6, extkill=True)),
            ("modes", dict(intervals=(12, 3), retries=(2,), die=(0,), modes=("noCheck", "plainProducer", "earlierStage"), durations=(3,),
                           outcomes=("ok", "fail", "rexh"), notify_by=8)),
            ("forced", dict(intervals=(30,), retries=(3, 5), die=(0,), modes=("repeatingProducer",), durations=(3, 22), notify_by=6, window=False)),
            ("fsfault", dict(intervals=(3, 7), retries=(0, 2), die=(0, 9), modes=("plainProducer", "noCheck"), durations=(2,), notify_by=8,
                             max_outputs=1, max_faults=3, window=False)),
            ("mixed", dict(intervals=(3,), retries=(0, 1, 2), die=(0,), modes=("mixedProducers",), durations=(2,), outcomes=("ok",), notify_by=7,
                           max_outputs=2, window=False, prenotify=False)),
            ("ofault", dict(intervals=(7,), retries=(0, 1), die=(0, 9), modes=("repeatingProducer",), durations=(2,), notify_by=8,
                            max_outputs=1, max_faults=2, window=False)),
            ("plumbing", dict(intervals=(7,), retries=(0, 1), die=(0, 4), shapes=("one", "two", "sameNameEarlierLast", "sameNameEarlierFirst",
                                                                                   "twoAndEarlier", "earlierOnly"),
                              durations=(2,), notify_by=8, max_outputs=1)),
        ]
    return [
        ("timeline", dict(intervals=(7,), retries=(0, 1), die=(0,), modes=("repeatingProducer",), durations=(2, 6), notify_by=7, max_outputs=1)),
        ("race", dict(intervals=(7,), retries=(0, 1), die=(0,), modes=("repeatingProducer",), durations=(2,), notify_by=12, max_outputs=1, prenotify=False)),
        ("killdelay", dict(intervals=(7,), retries=(1,), die=(4,), modes=("earlierStage", "repeatingProducer"), durations=(2, 6), notify_by=5)),
        ("extkill", dict(intervals=(3,), retries=(0,), die=(0, 4), modes=("plainProducer",), durations=(6,), notify_by=4, extkill=True)),
        ("modes", dict(intervals=(12,), retries=(2,), die=(0,), modes=("noCheck", "plainProducer", "earlierStage"), durations=(3,),
                       outcomes=("ok", "rexh"), notify_by=5, window=False)),
        ("forced", dict(intervals=(30,), retries=(3,), die=(0,), modes=("repeatingProducer",), durations=(3,), notify_by=3, window=False,
                        prenotify=False)),
        ("fsfault", dict(intervals=(3,), retries=(0, 1), die=(0,), modes=("plainProducer", "noCheck"), durations=(2,), outcomes=("ok",), notify_by=6,
                         max_outputs=1, max_faults=2, window=False)),
        ("plumbing", dict(intervals=(7,), retries=(0, 1), die=(0,), shapes=("two", "sameNameEarlierLast", "sameNameEarlierFirst", "earlierOnly"),
                          durations=(2,), notify_by=4, max_outputs=1, window=False)),
        ("mixed", dict(intervals=(3,), retries=(0,), die=(0,), modes=("mixedProducers",), durations=(2,), outcomes=("ok",), notify_by=6,
                       max_outputs=2, window=False, prenotify=False)),
        ("ofault", dict(intervals=(7,), retries=(0, 1), die=(0,), modes=("repeatingProducer",), durations=(2,), outcomes=("ok",), notify_by=7,
                        max_outputs=1, max_faults=1, window=False)),
    ]


def emit_behaviours(chk, tier):
    fams = families(tier)
    cfgs = [_cfg("Repeating_emit_%s_%s.cfg" % (name, tier), constants(record=True, **kw) + "INIT Init\nNEXT Next\nINVARIANT EmitBehaviour\n" + "".join("INVARIANT %s\n" % i for i in INVARIANTS))
            for name, kw in fams]
    # one single-worker TLC process per family (emission order inside a family is deterministic), side by side
    with ThreadPoolExecutor(max_workers=4) as ex:
        res = list(ex.map(lambda c: tlc.run_tlc("Repeating", c, workers=1, deadlock=False, timeout=1500, jvm=["-Xss16m"]), cfgs))
    cases = []
    for (name, kw), r in zip(fams, res):
        if not r["ok"]:
            raise MachineryError("emission run %s failed (%s):\n%s" % (name, r["violated"], r["out"][-2000:]))
        if len(r["cases"]) < 20:
            raise MachineryError("emission run %s produced only %d behaviours" % (name, len(r["cases"])))
        chk.add_tlc(r)
        for b in r["cases"]:
            b["family"] = name
        cases += sorted(r["cases"], key=lambda b: json.dumps(b, sort_keys=True))
    return cases


# ---------------------------------------------------------------------------------------------------------------
# 3. random schedules

def stop_bound(cfg):
    wait = max(5, 5 * ((cfg["R"] + 4) // 5))
    by = 2 * (cfg["maxd"] + (cfg["retries0"] + 2) * (wait + cfg["maxd"]) + wait)
    return min(by, cfg["die"] + 2) if cfg["die"] > 0 else by


def world_shapes():
    from .. import world_c13
    return world_c13.SHAPES


def random_cases(n, seed):
    rnd = random.Random(seed)
    out = []
    for i in range(n):
        maxd = rnd.choice([2, 4, 9, 14, 27])
        cfg = {"R": rnd.choice([3, 5, 7, 10, 12, 17, 25, 30]), "retries0": rnd.choice([0, 1, 2, 3, 5]),
               "die": rnd.choice([0, 0, 0, 3, 8, 15, 40]), "mode": rnd.choice(ALL_MODES), "maxd": maxd}
        tn = rnd.choice([-1, -1] + list(range(1, 121, 2)) + [10 * k for k in range(1, 8)])
        cfg["shape"] = "direct"
        if rnd.random() < 0.3:
            # through the real ComponentState plumbing: plain producers, some already finished, same names in two stages
            cfg["shape"] = rnd.choice(sorted(world_shapes()))
            cfg["mode"] = "plainProducer" if any(st == 1 for st, _, _ in world_shapes()[cfg["shape"]]) else "earlierStage"
        sched = []
        if tn >= 1:          # output appears while the producers run (output before run() is outside the claim)
            for _ in range(rnd.choice([0, 1, 1, 2, 3, 4])):
                if rnd.random() < 0.85:
                    sched.append({"a": "output", "s": rnd.randrange(1, tn + 1, 2)})
                else:
                    sched.append({"a": "output", "s": min(tn, 10 * rnd.randrange(1, 8))})      # aims at an output-check window
        for e in sched:
            if e["a"] == "output":
                e["src"] = rnd.choice(["P", "R", "B", "B"]) if cfg["mode"] == "mixedProducers" and cfg["shape"] == "direct" else "-"
        if cfg["shape"] == "direct":
            sched.append({"a": "notify", "s": tn})
        else:
            live = [k + 1 for k, x in enumerate(world_shapes()[cfg["shape"]]) if x[2]]
            rnd.shuffle(live)
            if not live:
                sched = []               # nobody is left who could write output
            for k, pidx in enumerate(live):          # the last one finishes at tn, the others somewhere before
                last = k == len(live) - 1
                sched.append({"a": "pfinish", "s": tn if last or tn == -1 else rnd.randrange(-1, tn + 1, 2), "p": pidx})
        if rnd.random() < 0.15:
            sched.append({"a": "extkill", "s": rnd.randrange(-1, 160, 2)})
        sched.sort(key=lambda e: (e["s"], {"output": 0, "pfinish": 1, "notify": 1, "extkill": 2}[e["a"]]))
        if cfg["mode"] in ("plainProducer", "noCheck") and rnd.random() < 0.5:
            # transient filesystem faults: the k-th canConsume() listing of the (still empty) producer directory raises OSError
            for _ in range(rnd.randint(1, 5)):
                sched.append({"a": "check", "s": rnd.choice([1, 1, 0])})
        if cfg["mode"] == "repeatingProducer" and cfg["shape"] == "direct" and rnd.random() < 0.5:
            # ... during the k-th attempt that checks for new output the repeating producer's directory cannot be listed
            for _ in range(rnd.randint(1, 12)):
                sched.append({"a": "ocheck", "s": rnd.choice([1, 0, 0, 0])})
        for _ in range(40):
            sched.append({"a": "task", "s": rnd.randint(1, maxd)})
            sched.append({"a": "rc", "s": rnd.choice([0, 0, 1, 1, 2])})
        horizon = max(tn // 2, 0) + stop_bound(cfg) + 12 + 35 * sum(e["s"] for e in sched if e["a"] == "ocheck")
        out.append({"cfg": cfg, "sched": sched, "horizon": horizon, "family": "random", "id": "r%d" % i})
    return out


# ---------------------------------------------------------------------------------------------------------------
# execution on the real engine (worker processes; every run is independent and deterministic)

_runner = None


def _work(arg):
    global _runner
    scratch, items = arg
    from .. import world_c13
    if _runner is None:
        d = os.path.join(scratch, "w%d" % os.getpid())
        os.makedirs(d, exist_ok=True)
        _runner = world_c13.Runner(d)
    out = []
    for it in items:
        try:
            res = _runner.run(it["cfg"], it["sched"], horizon=it.get("horizon"))
            res["finished_emissions"] = [{"isAlive": e.get("isAlive"), "reason": str(e.get("engineExitReason"))} for e in res["finished_emissions"]]
        except MachineryError as e:
            res = {"machinery": str(e)}
        except Exception as e:
            import traceback
            res = {"machinery": "harness exception: %s" % traceback.format_exc()[-1500:]}
        out.append(res)
    return out


def execute(chk, items, nproc):
    if not items:
        return []
    if nproc <= 1 or len(items) < 40:
        return _work((chk.scratch, items))
    chunks = [items[i:i + 25] for i in range(0, len(items), 25)]
    ctx = multiprocessing.get_context("fork")
    with ctx.Pool(nproc) as pool:
        parts = pool.map(_work, [(chk.scratch, c) for c in chunks], chunksize=1)
    return [r for p in parts for r in p]


# ---------------------------------------------------------------------------------------------------------------
# comparison (spec -> code) and trace validation (code -> spec)

def compare_with_spec(case, res):
    """list of differences between the specification's behaviour and the real run"""
    diffs = []
    exp_l = [(o["t"], o["saw"]) for o in case["obs"] if o["k"] == "launch"]
    got_l = [(l["t"], l["saw"]) for l in res["launches"]]
    if exp_l != got_l:
        diffs.append("launches (t, producersFinished): spec %s real %s" % (exp_l, got_l))
    exp_t = [o["t"] for o in case["obs"] if o["k"] == "timer"]
    got_t = [e["s"] for e in res["events"] if e["k"] == "timer"]
    if exp_t != got_t:
        diffs.append("kill-delay timer fired at stamps: spec %s real %s" % (exp_t, got_t))
    last = [e for e in res["events"] if e["k"] == "blocked"][-1]["o"]
    if res["cut"]:
        diffs.append("real engine still running at the horizon (t=%s, alive=%s)" % (res["final"]["now"], res["final"]["alive"]))
    else:
        for k, v in case["final"].items():
            if last.get(k) != v:
                diffs.append("final %s: spec %r real %r" % (k, v, last.get(k)))
    if res["late"] or res["unused"]:
        diffs.append("environment events could not be delivered at their stamps: %s" % (res["late"] + res["unused"]))
    return diffs


def emission_diffs(res):
    """the public notification (notifyFinished) must agree with exitReason()"""
    d = []
    f = res["final"]
    em = res["finished_emissions"]
    if not f["alive"]:
        if len(em) != 1 or em[0]["isAlive"] is not False or em[0]["reason"] != f["reason"]:
            d.append("engine dead with %s but notifyFinished emitted %s" % (f["reason"], em))
    elif em:
        d.append("engine alive but notifyFinished emitted %s" % em)
    if res["errors"]:
        d.append("exceptions in rx callbacks / monitor thread: %s" % res["errors"][:3])
    return d


def trace_constants(tf, verbose=False):
    return (constants(intervals=(5,), retries=(0,), die=(0,), modes=("earlierStage",), shapes=("direct",), durations=tuple(range(1, 41)),
                      outcomes=("ok", "fail", "rexh"), notify_by=1000000, max_outputs=1000, extkill=True, prenotify=True, window=True,
                      prerun=True, deviations=("stale-suicide", "stale-check"), max_faults=1000) +
            "  Verbose = %s\n  TraceFile = \"%s\"\nINIT TInit\nNEXT TNext\nINVARIANT Report\nCHECK_DEADLOCK FALSE\n" % (_b(verbose), tf))


def validate_traces(chk, runs, tag):
    """runs: [(item, res)].  Returns per run {conform: bool, dev: [...], failed: [clauses], stuck_at: l|None}"""
    if not runs:
        return []
    tf = os.path.join(chk.scratch, "traces_%s.ndjson" % tag)
    with open(tf, "w") as f:
        for it, res in runs:
            f.write(json.dumps({"cfg": res["cfg"], "ev": res["events"]}) + "\n")
    r = tlc.run_tlc("Repeating_trace", _cfg("Repeating_trace_%s_%d.cfg" % (tag, os.getpid()), trace_constants(tf)), workers=8, timeout=1500)
    if not r["ok"]:
        raise MachineryError("trace validation failed to run:\n%s" % r["out"][-2500:])
    chk.add_tlc(r)
    out = [{"conform": False, "dev": None, "failed": set(), "n": len(res["events"]), "observed": False, "stuck_at": None} for it, res in runs]
    for c in r["cases"]:
        o = out[c["tid"] - 1]
        if c["m"] == "observe":
            o["failed"] |= {k for k, v in c["v"].items() if not v}
            if c["done"]:
                o["observed"] = True
        elif c["done"]:
            o["conform"] = True
            if o["dev"] is None or len(c["dev"]) < len(o["dev"]):
                o["dev"] = sorted(c["dev"])
    for o in out:
        if not o["observed"]:
            raise MachineryError("observe-mode verdict missing for a trace")
    # where did the unexplained runs get stuck?
    stuck = [i for i, o in enumerate(out) if not o["conform"]]
    if stuck:
        tf2 = os.path.join(chk.scratch, "traces_%s_stuck.ndjson" % tag)
        with open(tf2, "w") as f:
            for i in stuck[:20]:
                f.write(json.dumps({"cfg": runs[i][1]["cfg"], "ev": runs[i][1]["events"]}) + "\n")
        r2 = tlc.run_tlc("Repeating_trace", _cfg("Repeating_trace_%s_%d_v.cfg" % (tag, os.getpid()), trace_constants(tf2, True)), workers=4, timeout=900)
        for j, i in enumerate(stuck[:20]):
            ls = [c["l"] for c in r2["cases"] if c["tid"] == j + 1 and c["m"] == "conform"]
            out[i]["stuck_at"] = max(ls) if ls else 0
    return out


def describe(item, res):
    env = [e for e in item["sched"] if e["a"] in ("notify", "pfinish", "output", "extkill")]
    flt = [e["s"] for e in item["sched"] if e["a"] == "check"]
    if any(flt):
        env = env + [{"a": "listing-faults", "s": flt}]
    flt = [e["s"] for e in item["sched"] if e["a"] == "ocheck"]
    if any(flt):
        env = env + [{"a": "output-check-faults", "s": flt}]
    return "cfg %s env %s -> launches %s, final alive=%s reason=%s retries=%s t=%s" % (
        {k: item["cfg"][k] for k in ("R", "retries0", "die", "mode", "shape") if k in item["cfg"]},
        [(e["a"], e["s"]) + ((e["p"],) if e["a"] == "pfinish" else ()) + ((e["src"],) if e.get("src", "-") != "-" else ()) for e in env],
        [(l["t"], l["saw"]) for l in res["launches"]], res["final"]["alive"], res["final"]["reason"], res["final"]["retries"], res["final"]["now"])


def judge(chk, runs, verdicts, unexplained):
    for (it, res), v in zip(runs, verdicts):
        replay = {"cfg": it["cfg"], "sched": it["sched"], "horizon": it.get("horizon"), "family": it.get("family")}
        if v["conform"] and v["dev"]:
            for d in v["dev"]:
                chk.violation(KEY_OF_DEV[d], "run only explained by the deviation '%s' of spec/Repeating.tla%s: %s" % (
                    d, (" (property predicates false: %s)" % sorted(v["failed"])) if v["failed"] else "", describe(it, res)), replay)
        elif v["failed"]:
            for cl in sorted(v["failed"]):
                chk.violation(KEY_OF_CLAUSE[cl] + (":killdelay" if it["cfg"]["die"] > 0 and cl == "p3c" else ""),
                              "property predicate %s false on the real run: %s" % (cl, describe(it, res)), replay)
        elif not v["conform"]:
            ev = res["events"]
            at = v.get("stuck_at")
            unexplained.append("run not explained by spec/Repeating.tla at event %s %s (property predicates hold): %s" % (
                at, json.dumps(ev[at]) if at is not None and at < len(ev) else "", describe(it, res)))
        chk.trace_validated()


def prepare_replays(cases):
    items = []
    for b in cases:
        items.append({"cfg": b["cfg"], "sched": b["sched"], "horizon": b["final"]["now"] + 40, "family": b["family"], "spec": b})
    return items


def run(tier):
    chk = Check(PID, tier)
    try:
        return _run(chk, tier)
    finally:
        shutil.rmtree(chk.scratch, ignore_errors=True)
        for fn in os.listdir(os.path.join(SPEC, "gen")):
            if fn.startswith("Repeating_trace_") and fn.endswith("_%d.cfg" % os.getpid()) or fn.endswith("_%d_v.cfg" % os.getpid()):
                os.remove(os.path.join(SPEC, "gen", fn))


def _run(chk, tier):
    thorough = tier == "thorough"
    nproc = max(1, min(8 if thorough else 6, (os.cpu_count() or 2) - 1))
    design_checks(chk, tier)
    behaviours = emit_behaviours(chk, tier)
    replays = prepare_replays(behaviours)
    rand = random_cases(2000 if thorough else 250, chk.seed)
    slim = [{k: it[k] for k in ("cfg", "sched", "horizon")} for it in replays + rand]
    results = execute(chk, slim, nproc)
    for res in results:
        if "machinery" in res:
            raise MachineryError(res["machinery"])
    unexplained = []
    to_trace = []
    nmis = 0
    for it, res in zip(replays, results[:len(replays)]):
        chk.evaluated((it["cfg"], [(e["a"], e["s"], e.get("p"), e.get("src")) for e in it["sched"]]))
        diffs = compare_with_spec(it["spec"], res)
        ed = emission_diffs(res)
        if diffs:
            nmis += 1
            it["diffs"] = diffs
            if len(to_trace) < (1500 if thorough else 400):
                to_trace.append((it, res))
        elif ed:
            unexplained.append("%s: %s" % (describe(it, res), ed))
        chk.sample({"cfg": it["cfg"], "schedule": [(e["a"], e["s"]) for e in it["sched"]], "spec_launches": [(o["t"], o["saw"]) for o in it["spec"]["obs"] if o["k"] == "launch"],
                    "real_launches": [(l["t"], l["saw"]) for l in res["launches"]], "final": res["final"]}, limit=4)
    rruns = list(zip(rand, results[len(replays):]))
    for it, res in rruns:
        chk.evaluated((it["cfg"], it["id"]))
        ed = emission_diffs(res)
        if ed and not res["cut"]:
            unexplained.append("%s: %s" % (describe(it, res), ed))
    # mismatching replays are classified by the trace validation; a sample of matching ones goes through it too
    step = max(1, len(replays) // (300 if thorough else 60))
    sample = [(it, res) for i, (it, res) in enumerate(zip(replays, results[:len(replays)])) if i % step == 0 and "diffs" not in it]
    v1 = validate_traces(chk, to_trace, "replay")
    for (it, res), v in zip(to_trace, v1):
        alt = any(o["k"] == "choice" for o in it["spec"]["obs"])       # the spec allowed the engine a choice: the real one took the other branch
        if v["conform"] and not v["dev"] and not v["failed"] and not alt:
            unexplained.append("replay differs from the TLC behaviour but its trace is accepted: %s :: %s" % (describe(it, res), it["diffs"][:2]))
    judge(chk, to_trace, v1, unexplained)
    allr = sample + rruns
    v2 = validate_traces(chk, allr, "random")
    judge(chk, allr, v2, unexplained)
    chk.cov["replayed_behaviours"] = len(replays)
    chk.cov["replay_mismatches"] = nmis + 0
    chk.cov["random_runs"] = len(rand)
    chk.cov["unexplained"] = len(unexplained)
    chk.cov["rule"] = ("behaviours: every terminated behaviour of Repeating.tla (Record) for the emission families "
                       "(repeat interval, retries, kill delay, producer kind, task durations/outcomes, every half-second placement of the "
                       "producers-finished notification incl. before run() and inside the output-check window, of new output, of an external "
                       "kill); distinct = distinct (configuration, environment schedule); random: seeded schedules with long tasks/intervals")
    chk.cov["exhaustive"] = True
    chk.assumptions += [
        "task durations are whole seconds >= 1, a killed task dies within the second; environment events fall strictly between the monitor's instants or into the output-check window",
        "producer output that exists before run() (mtime <= the primed lastLaunched) is outside the claim (constant PreRunOutput = FALSE)",
        "the task generator never raises; the optimizer and restart() (lastExecution) are not modelled; filesystem faults: canConsume()'s listing of an output-less producer directory (non-repeating producer / check-producer-output=false) and the output check of a repeating producer for a whole attempt, at most MaxFaults (the monitor giving up after 5 consecutive faults is not modelled)",
        "stopping because the configured kill delay expired counts as a permitted stop for clause 2",
        "bounded termination is checked as StopBound = 2*(maxd + (retries0+2)*(poll-rounded interval + maxd) + interval), or kill delay + 2 s",
    ]
    if unexplained and not chk.violations:
        chk.finish()
        raise MachineryError("%d run(s) of the real engine are not explained by spec/Repeating.tla although the property holds on them "
                             "(spec drift, not a verdict); first: %s" % (len(unexplained), unexplained[0][:1500]))
    for u in unexplained[:3]:
        print("note: unexplained run: %s" % u[:600])
    return chk.finish()


def replay(path):
    d = json.load(open(path))
    chk = Check(PID, "quick")
    rp = d["replay"]
    it = {"cfg": rp["cfg"], "sched": rp["sched"], "horizon": rp.get("horizon"), "family": rp.get("family"), "id": "replay"}
    res = execute(chk, [it], 1)[0]
    if "machinery" in res:
        raise MachineryError(res["machinery"])
    print("replay: %s" % describe(it, res))
    unexplained = []
    v = validate_traces(chk, [(it, res)], "one")
    judge(chk, [(it, res)], v, unexplained)
    for u in unexplained:
        print("note: %s" % u[:1500])
    rc = chk.finish()
    for fn in os.listdir(os.path.join(SPEC, "gen")):
        if fn.startswith("Repeating_trace_one_%d" % os.getpid()):
            os.remove(os.path.join(SPEC, "gen", fn))
    return rc
