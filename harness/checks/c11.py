"""C11 -- A workflow that loads is structurally executable; a broken one is rejected.  Spec: spec/Validate.tla (EXTENDS Replicate)

1. TLC checks the design: on every single-fault mutant of every base workflow the declarative Valid(mw) (unique identifiers,
   references resolve, acyclic, variables defined, keys and types in the schema) agrees with the operational Verdict(mw)
   (phases of a loader), the reason reported is one of the broken clauses, and every fault kind has the specified effect
   (a dropped component nobody consumes from / a removed variable nobody uses keeps the workflow valid).
2. TLC emits every mutant (named components, fault, expected validity) of the conformance slices as JSON.
3. spec -> code: every mutant is rendered to FlowIR and loaded through WorkflowGraph.graphFromFlowIR(primitive=False) and
   (every k-th mutant) through a package directory + Experiment.experimentFromPackage + validateExperiment, under SIGALRM.
   accepted  => the spec says Valid, and: DAG, #nodes == #components, every component reference names a node,
                configurationForNode(raw=False) works for every node.
   rejected  => the spec says not Valid, and the exception is ExperimentInvalidConfigurationError (nothing else leaks).
   a hang is a violation.
"""
import json
import os
import threading

from ..common import Check, MachineryError, SPEC
from .. import tlc
from .. import wf_io
from .c03 import _set

PID = "C11"
ALL_FAULTS = ["none", "drop", "rename", "restage", "cycle", "dup", "key", "type", "var"]
INVARIANTS = ["TypeOKV", "VerdictAgrees", "ReasonIsSound", "FaultEffects", "BaseValid"]
# The documented invalid-configuration error (and its subclasses) is what a load from a package must raise.  The in-memory
# entry point graphFromFlowIR builds the FlowIRConcrete outside the error collection of the loader, so a FlowIR error
# (errors.FlowIRException family: FlowIRInconsistency for a duplicate identifier, ...) may surface unwrapped there; that is
# still a typed invalid-FlowIR error.  KeyError / ValueError / TypeError / AttributeError / RecursionError ... are leaks.
# a primitive load (no replication) is only judged for faults it can see: without the replication pass nothing sorts the
# graph, so a cycle is only found later by validateExperiment
PRIMITIVE_KINDS = ("none", "var", "drop", "rename", "restage")
ALLOWED = {"package": ("ExperimentInvalidConfigurationError",),
           "primitive": ("ExperimentInvalidConfigurationError", "FlowIRException"),
           "graph": ("ExperimentInvalidConfigurationError", "FlowIRException")}

ALL_TSITES = ["numberProcesses", "numberThreads", "ranksPerNode", "threadsPerCore", "gpus", "maxRestarts", "repeatRetries",
              "gracePeriod", "replicate", "walltime", "cpuUnitsPerCore", "statusRequestInterval", "arguments", "executable", "queue",
              "aggregate", "isMigratable", "resolvePath", "references", "shutdownOn", "backend", "stage"]
ALL_TCLASSES = ["ffrac", "fwhole", "int", "bool", "numstr", "boolstr", "word", "list", "dict", "none"]
# the sites / classes used where the type fault is only one of many (the full matrix has its own slice)
FEW_TSITES = ["replicate", "aggregate", "references", "arguments", "numberProcesses", "stage", "shutdownOn"]
FEW_TCLASSES = ["word", "int", "ffrac"]
DECL = {}
for _d, _sites in (("int", ALL_TSITES[:9]), ("float", ALL_TSITES[9:12]), ("str", ALL_TSITES[12:15]), ("bool", ALL_TSITES[15:18]),
                   ("list", ALL_TSITES[18:20]), ("enum", ["backend"]), ("stage", ["stage"])):
    for _s in _sites:
        DECL[_s] = _d


def V(names=("p", "q", "r"), stages=(0, 1), reps=("none", "n2", "vs"), aggs=(True, False), spell=("rel", "abs"), paths=("",),
      methods=("ref",), styles=("same",), comps=3, refs=2, faults=ALL_FAULTS, package=8, tsites=FEW_TSITES, tclasses=FEW_TCLASSES,
      sv0=(0,), sv1=(2,), mst=(0,), primitive=0, fixed=True, appdep=False):
    """package / primitive: every k-th mutant is ALSO loaded as a package directory / with graphFromFlowIR(primitive=True)"""
    return dict(names=names, stages=stages, reps=reps, aggs=aggs, spell=spell, paths=paths, methods=methods, styles=styles,
                comps=comps, refs=refs, faults=faults, package=package, tsites=tsites, tclasses=tclasses,
                sv0=sv0, sv1=sv1, mst=mst, primitive=primitive, fixed=fixed, appdep=appdep)


SLICES = {
    "quick": {
        # every fault kind at every position, two components, all ways of asking for replicas
        "two": V(names=("p", "q"), reps=("none", "n2", "vs", "vc"), comps=2, package=4),
        # structural faults on three components (chains, diamonds, aggregators), one stage
        "three": V(stages=(0,), reps=("none", "n2"), spell=("rel",), faults=["none", "drop", "rename", "cycle", "dup", "var"], package=16),
        # structural faults across two stages
        "stages": V(reps=("none",), aggs=(False,), spell=("abs",), faults=["drop", "rename", "restage", "cycle", "dup"], package=4,
                    primitive=1),
        # dangling references whose NAME still exists in another stage: the same name in both stages (names are not fixed here);
        # drop stage1.a while stage0.a exists, stage0.a:ref -> stage1.a:ref; judged on the primitive load too
        "samename": V(names=("a", "c"), fixed=False, reps=("none",), aggs=(False,), spell=("rel", "abs"), refs=2,
                      faults=["none", "drop", "rename", "restage"], package=8, primitive=1),
        # where a variable is defined: `rs` (replica count) and `msg` (arguments) in the global scope and/or in the scope of the
        # own / the OTHER stage; removing the global definition leaves it undefined unless the component's OWN stage defines it.
        # Loaded with primitive=False and primitive=True.
        "varscope": V(names=("p", "q"), reps=("none", "vs"), aggs=(False,), spell=("abs",), comps=2, refs=1, faults=["none", "var"],
                      sv0=(0, 2), sv1=(0, 2), mst=(0, 1, 2), package=4, primitive=1),
        # loaded for platform "other", which declares NO application dependencies while the default platform declares one that is
        # named like the first component (p.application): on "other" `p:ref` is a reference to the component p
        "appdep": V(stages=(0,), reps=("none", "n2"), aggs=(False,), spell=("rel",), faults=["none", "drop", "rename", "cycle", "dup"],
                    package=0, primitive=1, appdep=True),
        # the whole type matrix: every typed option site x every class of value, on small bases
        "types": V(names=("p", "q"), stages=(0,), reps=("none", "n2"), spell=("rel",), comps=2, refs=1, faults=["type"],
                   tsites=ALL_TSITES, tclasses=ALL_TCLASSES, package=8),
    },
    "thorough": {
        "two": V(names=("p", "q"), reps=("none", "n1", "n2", "n3", "vg", "vs", "vc"), comps=2, package=4, paths=("", "out.txt")),
        "three": V(stages=(0,), reps=("none", "n2"), spell=("rel",), faults=["none", "drop", "rename", "cycle", "dup", "var"], package=16),
        "three2": V(reps=("none", "n2"), spell=("abs",), faults=["none", "drop", "rename", "restage", "cycle", "dup", "var"], package=32),
        "options": V(stages=(0,), reps=("none", "vg"), spell=("rel",), refs=1, faults=["key", "type"], package=16),
        "varscope": V(reps=("none", "vs"), aggs=(False,), spell=("abs",), refs=1, faults=["none", "var", "drop"],
                      sv0=(0, 2), sv1=(0, 2), mst=(0, 1, 2), package=8, primitive=2),
        "samename": V(names=("a", "c"), fixed=False, reps=("none", "n2"), aggs=(False,), spell=("rel", "abs"), refs=2,
                      faults=["none", "drop", "rename", "restage"], package=16, primitive=1),
        "appdep": V(reps=("none", "n2"), spell=("rel", "abs"), faults=["none", "drop", "rename", "restage", "cycle", "dup"],
                    package=0, primitive=1, appdep=True),
        "types": V(names=("p", "q"), reps=("none", "n2", "vg"), spell=("rel", "abs"), comps=2, refs=1, faults=["type"],
                   tsites=ALL_TSITES, tclasses=ALL_TCLASSES, package=4),
        "four": V(names=("p", "q", "r", "s"), stages=(0,), reps=("none", "n2"), aggs=(False,), spell=("rel",), comps=4,
                  faults=["drop", "cycle", "dup", "rename"], package=32),
    },
}
MODEL = {
    "quick": V(names=("p", "q"), reps=("none", "n1", "n2", "n3", "vg", "vs", "vc"), comps=2, paths=("", "out.txt")),
    "thorough": V(reps=("none", "vs"), spell=("abs",)),
}


def write_cfg(path, sl, emit, invariants):
    body = ("CONSTANTS\n  Names = %s\n  Stages = %s\n  RepChoices = %s\n  AggChoices = %s\n  Spellings = %s\n  Paths = %s\n"
            "  Methods = %s\n  ArgStyles = %s\n  DocOrders = {\"fwd\"}\n  MaxComps = %d\n  MaxRefs = %d\n  FixedNames = %s\n"
            "  Emit = FALSE\n  OvrPrivChoices = {0}\n  PrivChoices = {0}\n  AggVarChoices = {FALSE}\n  StageVals0 = %s\n  StageVals1 = %s\n  MaxSame = 1\n"
            "  Platforms = {0}\n  PlatGlobalVals = {0}\n  PlatStageVals0 = {0}\n  PlatStageVals1 = {0}\n  MsgStageVals = %s\n"
            "  FaultKinds = %s\n  EmitV = %s\n  TypeSitesC = %s\n  TypeClassesC = %s\nINIT InitV\nNEXT NextV\n%sCHECK_DEADLOCK FALSE\n" % (
                _set(sl["names"]), _set(sl["stages"]), _set(sl["reps"]), _set(sl["aggs"]), _set(sl["spell"]), _set(sl["paths"]),
                _set(sl["methods"]), _set(sl["styles"]), sl["comps"], sl["refs"], "TRUE" if sl["fixed"] else "FALSE", _set(sl["sv0"]), _set(sl["sv1"]), _set(sl["mst"]),
                _set(sl["faults"]),
                "TRUE" if emit else "FALSE", _set(sl["tsites"]), _set(sl["tclasses"]), "".join("INVARIANT %s\n" % i for i in invariants)))
    with open(path, "w") as f:
        f.write(body)
    return path


def classify(case):
    f = case["fault"]
    if f["kind"] == "type":
        # class of the input: which kind of value for which declared type (the site only for the non-uniform ones)
        d = DECL.get(f["site"], f["site"])
        return "validate:type:%s-for-%s%s" % (f["cls"], d, (":" + f["site"]) if f["site"] in ("replicate", "stage", "backend") else "")
    if f["kind"] in ("key", "var"):
        return "validate:%s:%s" % (f["kind"], f["site"])
    return "validate:%s%s" % (f["kind"], ":component-named-like-application-dependency" if case.get("appdep") else "")


def judge(case, res, path):
    """-> list of problems for one load of one mutant"""
    valid = case["valid"]
    either = valid and case.get("unspec")        # the property does not decide the outcome: both are fine, the manner still counts
    if res.get("hang"):
        return ["%s: the load did not return within the alarm (hang)" % path]
    if "error" in res:
        bad = []
        if not any(a in res["mro"] for a in ALLOWED[path]):
            bad.append("%s: refused with %s (%s), not with an invalid-configuration error" % (path, res["error"], res["msg"][:200]))
        if valid and not either:
            bad.append("%s: the workflow is valid (%s) but was refused: %s: %s" % (
                path, "fault '%s' keeps it valid" % (case["fault"]["kind"] + ("/" + case["fault"]["cls"] if case["fault"].get("cls") else "")), res["error"], res["msg"].replace("\n", " | ")[:300]))
        return bad
    bad = []
    if not valid:
        bad.append("%s: the workflow is broken (%s) but was accepted" % (path, ", ".join(case["broken"])))
    bad += ["%s: accepted but %s" % (path, p) for p in res["problems"]]
    return bad


def case_id(case):
    return json.dumps([case["comps"], sorted(case["gvars"]), case.get("sv"), case.get("appdep")], sort_keys=True)


def check_cases(chk, cases, package_every, procs, label="", primitive_every=0, appdep=False):
    work = []
    for i, case in enumerate(cases):
        if appdep and case["comps"]:
            case["appdep"] = case["comps"][0]["n"]
        paths = ("graph", "package") if package_every and i % package_every == 0 else ("graph",)
        if primitive_every and i % primitive_every == 0 and case["fault"]["kind"] in PRIMITIVE_KINDS:
            paths += ("primitive",)
        work.append((case, paths, chk.scratch))
    results = wf_io.pool_map(wf_io.v_exec_case, work, procs, chunk=32)
    for (case, paths, _), res in zip(work, results):
        if "render_error" in res:
            raise MachineryError("cannot render mutant %s: %s" % (case["fault"], res["render_error"]))
        chk.evaluated(case_id(case), nontrivial=case["fault"]["kind"] != "none")
        if "package" in res:
            chk.trace_validated()
        bad = []
        for p in paths:
            bad += judge(case, res[p], p)
        if bad:
            key = classify(case)
            tally = chk.cov.setdefault("violations_by_key", {})
            tally[key] = tally.get(key, 0) + 1
            chk.violation(key, "%sfault %s: %s" % (("[%s] " % label) if label else "", json.dumps(case["fault"], sort_keys=True), "; ".join(bad[:3])),
                          {"kind": "mutant", "case": case, "paths": list(paths), "flowir": wf_io.v_render_flowir(case)})
        else:
            chk.sample({"slice": label, "fault": case["fault"], "valid": case["valid"], "broken": case["broken"],
                        "components": [wf_io.v_render_component(c) for c in case["comps"]],
                        "outcome": {p: ("accepted" if res[p].get("accepted") else res[p].get("error")) for p in paths}}, limit=5)


def run(tier):
    chk = Check(PID, tier)
    gen = os.path.join(SPEC, "gen")
    os.makedirs(gen, exist_ok=True)
    procs = max(1, min(12, (os.cpu_count() or 2) - 2))
    from .. import realenv  # noqa: F401   imported before the worker processes are forked

    results, errors = {}, []

    def tlc_job(name, cfg, **kw):
        try:
            results[name] = tlc.run_tlc("Validate", cfg, **kw)
        except Exception as e:
            errors.append((name, e))

    threads = []
    mcfg = write_cfg(os.path.join(gen, "Validate_model_%s.cfg" % tier), MODEL[tier], False, INVARIANTS)
    threads.append(threading.Thread(target=tlc_job, args=("model", mcfg), kwargs=dict(workers=8, coverage=True, timeout=800)))
    slices = SLICES[tier]
    for name, sl in slices.items():
        cfg = write_cfg(os.path.join(gen, "Validate_%s_%s.cfg" % (name, tier)), sl, True, INVARIANTS + ["EmitMutant"])
        threads.append(threading.Thread(target=tlc_job, args=("slice:" + name, cfg), kwargs=dict(workers=1, timeout=800)))
    for t in threads:
        t.start()
    seen = {}
    for (name, sl), t in zip(slices.items(), threads[1:]):
        t.join()
        if errors:
            raise errors[0][1]
        r = results["slice:" + name]
        if not r["ok"]:
            raise MachineryError("Validate.tla slice %s: TLC failed: %s" % (name, r["out"][-1500:]))
        cases = r["cases"]
        r["out"] = ""
        if len(cases) < 50:
            raise MachineryError("TLC emitted only %d mutants for slice %s" % (len(cases), name))
        for c in cases:
            k = (c["fault"]["kind"], c["valid"])
            seen[k] = seen.get(k, 0) + 1
        chk.add_tlc(r)
        check_cases(chk, cases, sl["package"], procs, label=name, primitive_every=sl["primitive"], appdep=sl["appdep"])
    threads[0].join()
    if errors:
        raise errors[0][1]
    m = results["model"]
    if not m["ok"]:
        raise MachineryError("Validate.tla: invariant %s fails on the model:\n%s" % (m["violated"], m["out"][-2500:]))
    for act in ("AddComponentV", "AddRefV", "Mutate"):
        if not m["coverage"].get(act):
            raise MachineryError("action %s of Validate.tla never taken (vacuous run): %s" % (act, m["coverage"]))
    m["out"] = ""
    chk.add_tlc(m)
    # vacuity: every fault kind was applied; the validity-preserving mutations and the breaking ones both occur
    for k in ALL_FAULTS:
        if not any(kk[0] == k for kk in seen):
            raise MachineryError("fault kind %s never applied" % k)
    for k in (("drop", True), ("drop", False), ("var", True), ("var", False), ("none", True), ("cycle", False), ("dup", False)):
        if not seen.get(k):
            raise MachineryError("no mutant with fault/validity %s (vacuous)" % (k,))
    if tier == "thorough":
        # reachability witnesses: each Never* invariant must FAIL
        for wit in ("NeverAcceptsMutant", "NeverRejects"):
            cfg = write_cfg(os.path.join(gen, "Validate_wit_%s.cfg" % wit), SLICES["quick"]["two"], False, [wit])
            r = tlc.run_tlc("Validate", cfg, workers=4, expect_violation=True, timeout=300)
            if r["violated"] != wit:
                raise MachineryError("witness %s was not reached: %s" % (wit, r["out"][-800:]))
    chk.cov["mutants_by_fault_and_validity"] = {"%s/%s" % k: v for k, v in sorted(seen.items())}
    chk.cov["rule"] = ("one case = one mutated state of spec/Validate.tla: (base workflow of the Replicate family with fixed names, one "
                       "fault at one position) of the slices %s; every mutant is loaded with WorkflowGraph.graphFromFlowIR(primitive=False), "
                       "traces_validated = mutants also loaded as a package directory through experimentFromPackage + validateExperiment; "
                       "distinct_nontrivial = distinct mutated documents (fault != none)" % sorted(slices))
    chk.cov["exhaustive"] = True
    chk.assumptions += ["base workflows use well separated names p,q,r,s (the name relations of C03 are kept out of this family)",
                        "type faults: every typed option site x every class of value; spec/Validate.tla Rule(site, cls) = reject (the property), "
                        "accept (documented lossless conversions: null, \"2\" for a number, 2 for a float or a string, \"true\" for a boolean) or "
                        "either (2.0 for an integer, a float/boolean for a string, null executable: both outcomes pass, the manner is still checked)",
                        "executables are not checked (checkExecutables=False); DoWhile placeholders are outside the family",
                        "the invalid-configuration family is ExperimentInvalidConfigurationError (+ subclasses); for the in-memory entry "
                        "point graphFromFlowIR an unwrapped errors.FlowIRException subclass is also taken as a typed refusal"]
    return chk.finish()


def replay(path):
    from .. import realenv  # noqa: F401
    d = json.load(open(path))
    chk = Check(PID, "quick")
    rp = d["replay"]
    case = rp["case"]
    paths = tuple(rp.get("paths") or ("graph", "package"))
    res = wf_io.v_exec_case((case, paths, chk.scratch))
    bad = []
    for p in paths:
        bad += judge(case, res[p], p)
    chk.evaluated(case_id(case))
    if bad:
        chk.violation(classify(case), "fault %s: %s" % (json.dumps(case["fault"], sort_keys=True), "; ".join(bad[:3])), rp)
    return chk.finish()
