"""G06 (growth item) -- K8sTask: the Kubernetes task of the runtime (backend_interfaces/k8s.py NativeScheduledTask).
Spec: spec/K8sTask.tla (+ spec/K8sTask_trace.tla).  Environment: harness/world_g06.py (a scripted cluster below the real
`kubernetes` client, virtual clock, the rx polling pipeline on a lane).

1. TLC on the design models (cluster scenarios x API scripts x ticks / kills): invariants, action properties, liveness under
   fairness; the promises with the deviations excluded; every NAMED DEVIATION and finding as an expected counterexample.
2. spec -> code: TLC prints EVERY transition <<state, step, state'>> of bounded models (slices); a set of schedules from the
   initial state covering every transition is replayed on the REAL NativeScheduledTask (built by the real
   KubernetesTaskGenerator) over the fake cluster; after every step the real projection -- status, isAlive, returncode,
   exitReason, the exact sequence of HTTP requests (incl. retries), what escaped from the call, the hidden memory
   (_epoch_started, pull budget, error counter, api_unavailable_since, stdout, terminated, ...), the virtual clock and the
   cluster -- is compared with the specified state.
3. code -> spec: seeded random schedules of the real class are recorded and validated by TLC with K8sTask_trace.tla; one field
   of recorded runs is corrupted as a self-test of the binding.
4. function specifications: _getTaskState over the grid of job / pod status fields the code distinguishes (x memory x API
   scripts), isAlive / returncode / exitReason / status / poll over (lastReportedState, terminated, stdout).

Findings of the unchanged tree are reported as KNOWN-FINDING lines (keys F_*); switches G06_* flip the model to the repaired
behaviour once /repo is repaired.
"""
import json
import multiprocessing
import os
import random
import re
import shutil
import time

from ..common import Check, MachineryError, SPEC
from .. import tlc
from .g04 import cover_paths

PID = "G06"
MODULE = "K8sTask"
GEN = os.path.join(SPEC, "gen", "g06_%d" % os.getpid())
LIGHT = ["-XX:TieredStopAtLevel=1"]

F_NODES = "G06:api-error-while-recording-nodes"
F_KILL = "G06:kill-gives-up-when-a-request-fails-or-two-pods"
F_PODGONE = "G06:job-complete-but-pod-object-gone"
F_COND = "G06:non-terminal-job-condition-listed-first"
F_GCFLIP = "G06:garbage-collection-error-flips-verdict"
FINDING_TEXT = {
    F_NODES: "one failed request in _get_nodes() (image cache bookkeeping when the task is first seen running / finished) marks the task failed "
             "(SystemIssue / UnknownIssue) although the pod runs on; the job is left in the cluster",
    F_KILL: "terminate() gives up without deleting the job when a request fails (API error, connection error) or the job has two pods, and nobody "
            "retries: kill() is lost, the job runs on until it ends by itself; a connection error at the deletion escapes from kill()",
    F_PODGONE: "job Complete but its pod object is gone (node scaled down, pod garbage collection): the task reports waiting_on_resource for ever "
               "(pod never seen running) or failed/Cancelled (seen running) instead of Success",
    F_COND: "job conditions [SuccessCriteriaMet|FailureTarget, Complete|Failed] with equal time stamps (job controllers with two-phase "
            "termination): the first listed condition wins the sort, the state becomes None and the task never ends",
    F_GCFLIP: "garbage collection (terminate() inside task_completed) hitting a connection error turns finished/Success into failed/UnknownIssue",
}
FOUND = {}

def _sw(name, default="TRUE"):
    v = os.environ.get(name, default).upper()
    if v not in ("TRUE", "FALSE"):
        raise MachineryError("%s must be TRUE or FALSE" % name)
    return v


# TRUE = the code as found at HEAD; set to FALSE (environment or here) once /repo carries the repair findings/G06_*.diff
SW = {"NodesFatal": _sw("G06_NODES_FATAL"), "DeleteConnEscapes": _sw("G06_DELETE_CONN_ESCAPES"), "KillForgotten": _sw("G06_KILL_FORGOTTEN"),
      "CompleteNeedsPod": _sw("G06_COMPLETE_NEEDS_POD"), "FirstConditionWins": _sw("G06_FIRST_CONDITION_WINS")}

BASE = dict(Part='"run"', Emit="FALSE", Gcs='{"none"}', Archives='{"none"}', Caches="{TRUE}", CreateKinds='{"ok"}', Kinds="{}", Froms="{}",
            KillFroms="{}", Mids="{}", MaxTicks=4, MaxKills=0, MaxBad=0, MaxMid=0, MaxPeek=0, Outcomes='{"ok"}', Pendings="{}", MaxDel=0,
            JobDel="FALSE", PodGC="FALSE", TwoPhase="FALSE", Lost="FALSE", Idle="FALSE", Interrupts="FALSE", MapSlice='"quick"', **SW)

RUN_INV = ["TypeOK", "ResultIffDead", "DeadIsFinal", "FinishedIsSuccess", "FailedHasReason", "NotFinalNoVerdict", "SuccessIsReal", "PullVerdict",
           "TerminatedMeansDeleted", "ArchiveRule", "GcRule", "EscapeRule", "VerdictHasCause", "VerdictIsFunctionOfOutcome"]
RUN_PROP = ["FinalStaysFinal", "DeadStaysDead", "VerdictStable", "StartedMonotone", "QuietWhenOver", "ForwardOnly", "OutageNeedsLimit", "KillWorks"]
ACTIONS = ["Create", "Tick", "TickBad", "TickMid", "Kill", "KillBad", "Interrupt", "WaitPeek", "Env"]


def sset(xs):
    return "{" + ", ".join('"%s"' % x if isinstance(x, str) else str(x) for x in xs) + "}"


def cfg(name, consts, body):
    os.makedirs(GEN, exist_ok=True)
    c = dict(BASE)
    c.update(consts)
    path = os.path.join(GEN, name + ".cfg")
    with open(path, "w") as f:
        f.write("CONSTANTS\n" + "".join("  %s = %s\n" % kv for kv in c.items()) + body + "CHECK_DEADLOCK FALSE\n")
    return path


def body(spec="SpecRun", invs=(), props=()):
    head = "SPECIFICATION %s\n" % spec if spec else "INIT Init\nNEXT Next\n"
    return head + "".join("INVARIANT %s\n" % i for i in invs) + "".join("PROPERTY %s\n" % p for p in props)


def violated_of(r):
    m = re.search(r"Error: Temporal property (\S+) was violated", r["out"])
    if m:
        return m.group(1)
    if r["violated"] and "Temporal properties were violated" in str(r["violated"]):
        return "temporal"
    return r["violated"]


def must_hold(chk, r, what):
    v = violated_of(r)
    if not r["ok"] or v:
        raise MachineryError("K8sTask.tla: %s: %s fails on the model\n%s" % (what, v, r["out"][-3000:]))
    chk.add_tlc(r)


# --------------------------------------------------------------------------------------------------------------------------
# slices of the run part (scenario families)

ALL_OUT = ["ok", "err", "oom", "term143", "sig15", "deadline", "deadline0", "evicted", "evicted137", "nostart"]
ALL_KINDS = ["e503", "e504", "conn", "blip503", "blip504", "blipconn"]


def slices(tier):
    th = tier == "thorough"
    s = {}
    # the life of a healthy job: every outcome, pending situations, cluster changes inside a poll, a kill at any point, wait()
    s["life"] = dict(Outcomes=sset(ALL_OUT), Pendings='{"creating"}', MaxTicks=4 if th else 3, MaxKills=1, Mids="{1, 2}", MaxMid=1, Idle="TRUE",
                     MaxPeek=1, Gcs='{"none"}', Interrupts="TRUE" if th else "FALSE")
    # configuration: garbage collection and archiving rules, cacheImage off, creation failures
    s["config"] = dict(Outcomes='{"ok", "err"}', Gcs='{"none", "all", "failed", "successful"}', Archives='{"none", "all", "failed", "successful"}',
                       Caches="{TRUE, FALSE}", CreateKinds='{"ok", "e403", "e504", "conn", "blip504", "blipconn"}', MaxTicks=3, MaxKills=1)
    # image pull errors: the budget of 5 (+1) observations, also spent by terminate()
    s["pull"] = dict(Outcomes='{"deadline0"}', Pendings='{"errpull"}', MaxTicks=7, MaxKills=1 if th else 0, Gcs='{"none", "failed"}')
    # an API outage over many polls: limits (5 minutes / 3 polls), every failure kind, at the first or a later request
    s["outage"] = dict(Outcomes='{"ok"}', Kinds=sset(["e503", "conn"] + (["e504"] if th else [])), Froms="{1}", MaxTicks=7 if th else 6,
                       MaxBad=6 if th else 5)
    # failures at every request position of a step (nodes call, log calls, deletion, ...), blips (retry succeeds)
    s["faults"] = dict(Outcomes='{"ok", "err"}' if th else '{"ok"}', Kinds=sset(ALL_KINDS), Froms="{1, 2, 3, 4, 5, 6}", KillFroms="{1, 2, 3, 4, 5}", MaxTicks=2, MaxBad=1,
                       MaxKills=1, Gcs='{"none", "all"}', Archives='{"none", "all"}' if th else '{"none"}', Interrupts="TRUE")
    # other actors: pod deleted (replacement -> two pods), job deleted, pod object garbage-collected, node lost, two-phase conditions
    s["others"] = dict(Outcomes='{"ok", "err"}', MaxDel=1, JobDel="TRUE", PodGC="TRUE", Lost="TRUE", MaxTicks=4 if th else 3, MaxKills=1, Gcs='{"none", "all"}' if th else '{"none"}')
    s["twophase"] = dict(Outcomes='{"ok", "err"}', TwoPhase="TRUE", MaxTicks=3, MaxKills=1)
    # kill under an outage, twice, with two pods
    s["kills"] = dict(Outcomes='{"ok"}', Kinds=sset(["e503", "conn"] + (["e504"] if th else [])), Froms="{1}", KillFroms="{1, 2, 3, 4}" if th else "{1, 3}", MaxTicks=2,
                      MaxBad=1, MaxKills=2, MaxDel=1, Interrupts="TRUE")
    return s


# --------------------------------------------------------------------------------------------------------------------------
# 1. the models

def model_check(chk, tier):
    from concurrent.futures import ThreadPoolExecutor
    sl = slices(tier)
    jobs = []       # (name, consts, body, expected violated property | None)
    promise = dict(Caches="{FALSE}")      # without the image cache bookkeeping no request can be fatal by itself
    for name in ("life", "config", "pull", "outage", "others"):
        c = dict(sl[name])
        inv = list(RUN_INV)
        if name == "others":
            c.update(PodGC="FALSE")
        jobs.append(("safety-" + name, c, body("SpecRun", inv, RUN_PROP), None))
    jobs.append(("safety-faults", dict(sl["faults"], Kinds=sset(["e503", "e504", "blip503", "blip504", "blipconn"])), body("SpecRun", RUN_INV, RUN_PROP), None))
    jobs.append(("safety-faults-conn", sl["faults"], body("SpecRun", [i for i in RUN_INV], [p for p in RUN_PROP]), None))
    jobs.append(("safety-kills", sl["kills"], body("SpecRun", RUN_INV, RUN_PROP), None))
    # promises that hold once the findings are excluded by the constants
    jobs.append(("promise-no-fatal-request", dict(sl["outage"], **promise), body("SpecRun", ["NoFatalNodesCall", "NoGcFlip"], ["OutageNeedsLimit"]), None))
    jobs.append(("promise-kill-with-healthy-api", dict(sl["life"], MaxKills=2), body("SpecRun", [], ["KillWorks"]), None))
    live = dict(Outcomes=sset(ALL_OUT), Pendings='{"creating"}', MaxTicks=99, MaxKills=1, Gcs='{"none", "all"}')
    jobs.append(("liveness-ends", live, body("FairRun", [], ["Ends"]), None))
    jobs.append(("liveness-ends-after-outage", dict(Outcomes='{"ok", "err"}', MaxTicks=99, Kinds=sset(["e503", "conn", "e504"]), Froms="{1, 2}", MaxBad=3,
                                                    Caches="{FALSE}"), body("FairRun", [], ["Ends"]), None))
    # named deviations and findings: expected counterexamples
    dev = [
        ("KillIsTerminate", "INVARIANT", "SomeoneIsKilled", dict(Outcomes='{"oom"}', MaxKills=1)),
        ("OomIsKilled", "INVARIANT", "OomIsResourceExhausted", dict(Outcomes='{"oom"}')),
        ("RunningIsActive", "INVARIANT", "RunningMeansPodRunning", dict(Pendings='{"creating"}')),
        ("RunningIsActive/back-to-waiting", "PROPERTY", "StrictlyForward", dict(Idle="TRUE", MaxTicks=4)),
        ("PollDependentReason", "INVARIANT", "VerdictIndependentOfPolling", dict(Outcomes='{"evicted"}', MaxTicks=4)),
        ("ConnOutageThreePolls", "PROPERTY", "OutageNeedsMinutes", dict(Kinds='{"conn"}', Froms="{1}", MaxBad=3, MaxTicks=4)),
        ("GivesUpWithoutDelete", "INVARIANT", "GivingUpDeletes", dict(Kinds='{"conn"}', Froms="{1}", MaxBad=3, MaxTicks=4)),
        ("TwoPodsThreePolls", "INVARIANT", "NoVerdictFromConfusion", dict(MaxDel=1, MaxTicks=5)),
        ("finding:NodesCallIsFatal", "INVARIANT", "NoFatalNodesCall", dict(Kinds='{"e503"}', Froms="{1, 2, 3, 4}", MaxBad=1, Pendings="{}"), "SpecRun", "NodesFatal"),
        ("finding:KillLost", "PROPERTY", "KillLeadsToEnd" if SW["KillForgotten"] == "FALSE" else "KillAlwaysWorks",
         dict(Kinds='{"e503", "conn"}', KillFroms="{1, 3}", MaxBad=1, MaxKills=1, MaxTicks=99 if SW["KillForgotten"] == "FALSE" else 4),
         "FairRun" if SW["KillForgotten"] == "FALSE" else "SpecRun", "KillForgotten"),
        ("finding:KillLost/two-pods", "PROPERTY", "KillLeadsToEnd" if SW["KillForgotten"] == "FALSE" else "KillAlwaysWorks",
         dict(MaxDel=1, MaxKills=1, MaxTicks=99 if SW["KillForgotten"] == "FALSE" else 4), "FairRun" if SW["KillForgotten"] == "FALSE" else "SpecRun", "KillForgotten"),
        ("finding:KillLost/connection-error-escapes", "INVARIANT", "NothingEscapesFromKill", dict(Kinds='{"conn"}', KillFroms="{1, 2, 3}", MaxBad=1, MaxKills=1), "SpecRun",
         "DeleteConnEscapes"),
        ("finding:CompleteButPodGone", "PROPERTY", "Ends", dict(PodGC="TRUE", MaxTicks=99), "FairRun", "CompleteNeedsPod"),
        ("finding:NonTerminalFirst", "INVARIANT", "NeverNoneState", dict(TwoPhase="TRUE"), "SpecRun", "FirstConditionWins"),
        ("finding:GcErrorFlipsVerdict", "INVARIANT", "NoGcFlip", dict(Gcs='{"all"}', Kinds='{"conn"}', Froms="{1, 2, 3, 4, 5, 6}", MaxBad=1), "SpecRun", "DeleteConnEscapes"),
    ]
    for d in dev:
        name, kind, prop, consts = d[:4]
        spec = d[4] if len(d) > 4 else "SpecRun"
        repaired = len(d) > 5 and SW[d[5]] == "FALSE"
        jobs.append((("repaired:" if repaired else "deviation:") + name, consts, "SPECIFICATION %s\n%s %s\n" % (spec, kind, prop), None if repaired else prop))
    # function specifications: promises on the grids
    jobs.append(("map-grid", dict(Part='"map"', MapSlice='"full"' if tier == "thorough" else '"quick"'), body(None, ["MapTotal", "MapNoEarlyVerdict"]), None))
    jobs.append(("map-grid-api", dict(Part='"map"', MapSlice='"api"'), body(None, ["MapTotal"]), None))
    jobs.append(("exit-grid", dict(Part='"exit"'), body(None, ["ExitSane"]), None))

    def one(job):
        name, consts, text, prop = job
        c = cfg("mc_%s" % re.sub(r"\W", "_", name), consts, text)
        try:
            return tlc.run_tlc(MODULE, c, timeout=1500, workers=4 if prop is None else 1, expect_violation=True, jvm=LIGHT if prop is not None else None)
        except MachineryError as e:
            return e
    with ThreadPoolExecutor(5) as ex:
        results = list(ex.map(one, jobs))
    devs, sizes = {}, {}
    for (name, consts, text, prop), r in zip(jobs, results):
        if isinstance(r, Exception):
            raise r
        if prop is None:
            must_hold(chk, r, name)
            sizes[name] = r.get("distinct", 0)
        else:
            v = violated_of(r)
            if v != prop and not (v == "temporal" and "PROPERTY" in text):
                raise MachineryError("K8sTask.tla: expected a counterexample to %s (%s), got %s\n%s" % (prop, name, v, r["out"][-1500:]))
            chk.add_tlc(r)
            devs[name[10:]] = "counterexample to %s found by TLC (%d states)" % (prop, r.get("distinct", 0))
    chk.cov["named_deviations_witnessed"] = devs
    chk.cov["model_sizes"] = sizes


# --------------------------------------------------------------------------------------------------------------------------
# 2. spec -> code: transition cover

def graph_of(cases):
    """cases: [[from, label, to], ...] -> (init key, {key: state}, {key: [(label, to key)]}); TLC prints record fields in varying order"""
    states, out, has_in = {}, {}, set()
    for f, lab, t in cases:
        kf, kt = json.dumps(f, sort_keys=True), json.dumps(t, sort_keys=True)
        states.setdefault(kf, f)
        states.setdefault(kt, t)
        out.setdefault(kf, []).append((lab, kt))
        if kt != kf:
            has_in.add(kt)
    roots = [s for s in states if s not in has_in]
    if len(roots) != 1:
        raise MachineryError("the transition graph printed by TLC has %d roots" % len(roots))
    return roots[0], states, out


def script_of(f):
    from .. import world_g06 as G
    mid = None
    if f["midn"]:
        mid = (f["midn"], [("job", f["midcl"]["job"]), ("pods", f["midcl"]["pods"])])
    return G.Script(f["from"] if f["from"] < 99 else None, f["kind"] if f["from"] < 99 else None, mid)


def spec_view(ts):
    """the part of a specification state that is compared with the real objects"""
    v = {"job": ts["cl"]["job"], "pods": ts["cl"]["pods"], "created": ts["created"]}
    if ts["created"]:
        v.update(last=[ts["last"]["st"], ts["last"]["rs"], ts["last"]["rc"]], started=ts["started"], pull=ts["pull"], errs=ts["errs"], age=ts["age"], off=ts["off"],
                 cached=ts["cached"], closed=ts["closed"], done=ts["done"], terminated=ts["terminated"], called=ts["called"], req=ts["req"], archived=ts["archived"],
                 ndel=ts["g"]["ndel"], alive=ts["pub"]["alive"], rc=ts["pub"]["rc"], reason=ts["pub"]["reason"], status=ts["pub"]["status"])
    return v


def real_view(D):
    from .. import world_g06 as G
    c = D.cluster
    v = {"job": c.job["st"], "pods": [{k: p[k] for k in ("ph", "prs", "cs", "code", "trs", "sig", "tst")} for p in c.pods], "created": D.task is not None}
    t = D.task
    if t is not None:
        st, rs, rc = t.lastReportedState
        m = D.memory()
        o = D.obs()
        now = D.world.now / G.UNIT
        tick0 = D.last_tick_start / G.UNIT
        v.update(last=[st if st is not None else "None", rs or "none", -1 if rc is None else rc], started=m["started"], pull=m["pullerrs"], errs=m["errs"],
                 age=-1000 if m["since"] is None else _num(tick0 - m["since"]), off=_num(now - tick0), cached=m["cached"], closed=m["closed"], done=o["done"],
                 terminated=o["terminated"], called=m["called"], req=bool(getattr(t, "_terminate_requested", False)), archived=D.archive_calls, ndel=c.deletes_ok, alive=o["alive"], rc=o["rc"], reason=o["reason"],
                 status=o["state"])
    return v


def _num(x):
    return int(x) if float(x).is_integer() else x


def diff(real, want):
    fields = sorted(f for f in set(real) | set(want) if real.get(f) != want.get(f))
    return fields, "; ".join("%s: code %s, specification %s" % (f, json.dumps(real.get(f)), json.dumps(want.get(f))) for f in fields)


def apply_step(D, lab, target):
    """one labelled transition on the real task; -> observation {calls, raised}"""
    a, f = lab[0], lab[1]
    if a == "Create":
        conf = target["conf"]
        D.configure(conf["gc"], conf["archive"])
        o = D.construct(script_of(f), cache_image=conf["cache"])
    elif a == "Tick":
        o = D.tick(script_of(f))
        if o is None:
            return None
    elif a == "Kill":
        o = D.kill(script_of(f), how="kill" if (len(D.cluster.all_calls) % 2) else "terminate")
    elif a == "Interrupt":
        o = D.wait_interrupt(script_of(f))
    elif a == "WaitPeek":
        o = D.wait_peek()
    elif a == "Env":
        D.cluster.apply(("job", target["cl"]["job"]))
        D.cluster.apply(("pods", target["cl"]["pods"]))
        D.cluster.begin_step()
        return {"calls": [], "raised": D.raised_sticky()}
    else:
        raise MachineryError("unknown step %s" % a)
    return {"calls": o["calls"], "raised": o["raised"]}


def replay_path(d, init_state, path):
    """path: [(label, spec state after)] -> None | (key, what)"""
    from .. import world_g06 as G
    D = G.Driver(d)
    done = []
    try:
        for lab, want in path:
            a, f = lab[0], lab[1]
            what = a if f["from"] >= 99 and not f["midn"] else "%s[%s%s]" % (a, "" if f["from"] >= 99 else "%s@%d" % (f["kind"], f["from"]),
                                                                             "" if not f["midn"] else " mid@%d" % f["midn"])
            got = apply_step(D, lab, want)
            done.append(what)
            if got is None:
                return ("replay:%s:not-enabled" % a, "after %s the specification allows a tick but the polling pipeline of the task has ended" % done[:-1])
            if got != lab[2]:
                fields = [k for k in ("calls", "raised") if got[k] != lab[2][k]]
                return ("replay:%s:%s" % (lab[3], "+".join(fields)), "after %s: the step made the requests %s and raised %s; specification: %s, %s" % (
                    done, got["calls"], got["raised"], lab[2]["calls"], lab[2]["raised"]))
            fields, det = diff(real_view(D), spec_view(want))
            if fields:
                return ("replay:%s:%s" % (lab[3], "+".join(fields)), "after %s (requests %s): %s" % (done, got["calls"], det[:1500]))
            if D.cluster.unexpected:
                return ("replay:%s:unknown-request" % lab[3], "after %s: request(s) the cluster model does not know: %s" % (done, D.cluster.unexpected))
            if a == "Create" and want["created"]:
                bad = check_job_body(D)
                if bad:
                    return ("replay:Create:job-document", "; ".join(bad))
        return None
    finally:
        D.close()


def check_job_body(D, light=False):
    """the Job document the real generator + task submitted"""
    b = D.cluster.body
    bad = []
    walltime = 10 if light else D.walltime
    try:
        spec = b["spec"]
        pod = spec["template"]["spec"]
        c = pod["containers"][0]
        if spec.get("backoffLimit") != 0 or spec.get("completions") != 1:
            bad.append("backoffLimit/completions %s/%s" % (spec.get("backoffLimit"), spec.get("completions")))
        if pod.get("restartPolicy") != "Never":
            bad.append("restartPolicy %s" % pod.get("restartPolicy"))
        if pod.get("activeDeadlineSeconds") != int(walltime * 60):
            bad.append("activeDeadlineSeconds %s for walltime %s min" % (pod.get("activeDeadlineSeconds"), walltime))
        if c.get("command") != ["/bin/app"] or c.get("args") != ["-n", "3", "a b"]:
            bad.append("command %s args %s" % (c.get("command"), c.get("args")))
        env = {e["name"]: e.get("value") for e in c.get("env", [])}
        if env.get("FOO") != "bar" or env.get("OMP_NUM_THREADS") != "1":
            bad.append("environment %s" % env)
        if not re.fullmatch(r"[a-z0-9]([-a-z0-9]*[a-z0-9])?", b["metadata"]["name"]) or len(b["metadata"]["name"]) > 63:
            bad.append("job name %r is not a DNS-1123 label" % b["metadata"]["name"])
        if (b["metadata"].get("labels") or {}).get("workflow") != "wf-g06":
            bad.append("labels %s" % b["metadata"].get("labels"))
        if [m.get("mountPath") for m in c.get("volumeMounts") or []] != ["/tmp/workdir"]:
            bad.append("volume mounts %s" % c.get("volumeMounts"))
        lim = (c.get("resources") or {}).get("limits") or {}
        if lim != (c.get("resources") or {}).get("requests"):
            bad.append("guaranteed qos needs requests == limits: %s" % c.get("resources"))
        want = {"cpu": 0.1, "memory": str(250 * 1024 * 1024)} if light else {"cpu": 1.0, "memory": "2Gi"}
        if {k: lim.get(k) for k in want} != want:
            bad.append("resource limits %s, expected %s" % (lim, want))
    except (KeyError, TypeError, IndexError) as e:
        bad.append("job document incomplete: %r" % e)
    return bad


def _replay_chunk(args):
    d, init_state, paths = args
    out = []
    import logging
    logging.disable(logging.CRITICAL)
    for p in paths:
        try:
            out.append(replay_path(d, init_state, p))
        except MachineryError as e:
            out.append(("MACHINERY", str(e)))
        except Exception:     # noqa
            import traceback
            out.append(("MACHINERY", "replay crashed on %s: %s" % ([x[0][0] for x in p], traceback.format_exc()[-1500:])))
    shutil.rmtree(d, ignore_errors=True)
    return out


def pool_map(fn, chunks, procs=12):
    ctx = multiprocessing.get_context("fork")
    with ctx.Pool(min(procs, max(1, len(chunks)))) as p:
        return list(p.imap(fn, chunks))


def emit_transitions(chk, plan):
    from concurrent.futures import ThreadPoolExecutor

    def one(item):
        name, consts = item
        c = cfg("edges_%s" % name, dict(consts, Emit="TRUE"), "SPECIFICATION SpecRun\n")
        try:
            return tlc.run_tlc(MODULE, c, workers=1, timeout=1500)
        except MachineryError as e:
            return e
    with ThreadPoolExecutor(8) as ex:
        results = list(ex.map(one, plan))
    out = []
    for item, r in zip(plan, results):
        if isinstance(r, Exception):
            raise r
        must_hold(chk, r, "transition emission %s" % item[0])
        edges = r["cases"]
        r["out"] = ""
        r["cases"] = []
        if len(edges) < 50:
            raise MachineryError("TLC printed only %d transitions for %s" % (len(edges), item[0]))
        out.append(edges)
    return out


def prepare_cover(chk, name, edges):
    acts = chk.cov.setdefault("action_coverage", {})
    for e in edges:
        acts[e[1][3]] = acts.get(e[1][3], 0) + 1
    init, states, out = graph_of(edges)
    paths = cover_paths(init, out, max_len=40)
    full = [[(lab, states[t]) for lab, t in p] for p in paths]
    n = 25
    chunks = [(os.path.join(chk.scratch, "rp_%s_%d" % (name, i)), states[init], full[i:i + n]) for i in range(0, len(full), n)]
    return dict(name=name, edges=edges, init=states[init], nstates=len(states), full=full, chunks=chunks)


def finish_cover(chk, prep, res):
    name, edges, full = prep["name"], prep["edges"], prep["full"]
    steps = 0
    seen = {}
    for p, rr in zip(full, res):
        steps += len(p)
        chk.evaluated((name, [(x[0][0], x[0][1]["from"], x[0][1]["kind"], x[0][1]["midn"]) for x in p] + [json.dumps(p[-1][1], sort_keys=True)]))
        if rr is None:
            chk.trace_validated()
            continue
        if rr[0] == "MACHINERY":
            raise MachineryError(rr[1])
        seen[rr[0]] = seen.get(rr[0], 0) + 1
        if seen[rr[0]] <= 3:
            chk.violation(rr[0], "%s: %s" % (name, rr[1]), {"kind": "replay", "init": prep["init"], "path": [[lab, st] for lab, st in p]})
    for k, n_ in seen.items():
        if n_ > 3:
            print("  (%d more schedules of slice %s fail with key %s)" % (n_ - 3, name, k))
    chk.cov.setdefault("transition_cover", {})[name] = dict(states=prep["nstates"], transitions=len(edges), schedules=len(full), replayed_steps=steps)
    # the findings are reported from what the REAL task did on the replayed schedules (they conformed to the as-found model)
    if seen:
        return
    for e in edges:
        why = e[2]["g"]["why"]
        if SW["NodesFatal"] == "TRUE" and why == "nodes" and e[0]["g"]["why"] != "nodes":
            FOUND[F_NODES] = FOUND.get(F_NODES, 0) + 1
        if SW["DeleteConnEscapes"] == "TRUE" and why == "gcexc" and e[0]["g"]["why"] != "gcexc":
            FOUND[F_GCFLIP] = FOUND.get(F_GCFLIP, 0) + 1
        if SW["KillForgotten"] == "TRUE" and e[1][0] in ("Kill", "Interrupt") and e[2]["pub"]["alive"] and e[2]["cl"]["job"] != "gone":
            FOUND[F_KILL] = FOUND.get(F_KILL, 0) + 1
        if SW["DeleteConnEscapes"] == "TRUE" and e[1][0] == "Kill" and e[1][2]["raised"] == "MaxRetryError":
            FOUND[F_KILL] = FOUND.get(F_KILL, 0) + 1
        if SW["FirstConditionWins"] == "TRUE" and e[2]["last"]["st"] == "None" and e[0]["last"]["st"] != "None":
            FOUND[F_COND] = FOUND.get(F_COND, 0) + 1
        if SW["CompleteNeedsPod"] == "TRUE" and e[1][0] == "Tick" and e[0]["cl"]["job"] == "complete" and not e[0]["cl"]["pods"] and e[1][1]["from"] >= 99 \
                and e[0]["last"]["st"] not in ("finished", "failed") and e[2]["last"]["rs"] != "Success":
            FOUND[F_PODGONE] = FOUND.get(F_PODGONE, 0) + 1
    if full:
        p = max(full, key=len)
        chk.sample({"slice": name, "longest_schedule": [x[0][0] for x in p]}, limit=8)


def spec_to_code(chk, tier):
    sl = slices(tier)
    plan = [(name, sl[name]) for name in sl]
    t0 = time.time()
    all_edges = emit_transitions(chk, plan)
    walls = {"emission": round(time.time() - t0, 1)}
    t0 = time.time()
    preps = [prepare_cover(chk, name, edges) for (name, _c), edges in zip(plan, all_edges)]
    chunks = [c for pr in preps for c in pr["chunks"]]
    order = sorted(range(len(chunks)), key=lambda i: -sum(len(p) for p in chunks[i][2]))       # long chunks first
    res = pool_map(_replay_chunk, [chunks[i] for i in order])
    by_chunk = {i: r for i, r in zip(order, res)}
    k = 0
    for pr in preps:
        flat = []
        for _c in pr["chunks"]:
            flat += by_chunk[k]
            k += 1
        finish_cover(chk, pr, flat)
    walls["replay"] = round(time.time() - t0, 1)
    chk.cov["cover_wall_s"] = walls
    missing = [a for a in ACTIONS if not chk.cov["action_coverage"].get(a)]
    if missing:
        raise MachineryError("action(s) %s of K8sTask.tla have zero coverage in the emitted transition graphs" % missing)


# --------------------------------------------------------------------------------------------------------------------------
# 3. code -> spec: seeded random schedules validated by TLC

def P(ph, prs="none", cs="nocs", code=0, trs="none", sig=0, tst=False):
    return dict(ph=ph, prs=prs, cs=cs, code=code, trs=trs, sig=sig, tst=tst)


PK = {"unsched": P("Pending"), "creating": P("Pending", cs="waiting"), "errpull": P("Pending", cs="errpull"), "running": P("Running", cs="running"),
      "lost": P("Unknown", "NodeLost", "running"), "ok": P("Succeeded", cs="term", trs="Completed", tst=True), "err": P("Failed", cs="term", code=1, trs="Error", tst=True),
      "oom": P("Failed", cs="term", code=137, trs="OOMKilled", tst=True), "term143": P("Failed", cs="term", code=143, trs="Error", tst=True),
      "sig15": P("Failed", cs="term", code=143, trs="Error", sig=15, tst=True), "deadline": P("Failed", "DeadlineExceeded", "term", 137, "Error", 0, True),
      "deadline0": P("Failed", "DeadlineExceeded"), "evicted": P("Failed", "Evicted"), "evicted137": P("Failed", "Evicted", "term", 137, "Error", 0, True),
      "nostart": P("Failed", cs="term", code=128, trs="ContainerCannotRun"), "okoom": P("Succeeded", cs="term", trs="OOMKilled", tst=True),
      "two": P("Running", cs="two"), "nophase": P("None")}
TERMINAL = ("ok", "err", "oom", "term143", "sig15", "deadline", "deadline0", "evicted", "evicted137", "nostart", "okoom")


def env_moves(rnd, job, pods):
    """plausible next situations of the cluster (and now and then an odd one); -> list of (job, pods)"""
    out = []
    kind = next((k for k, v in PK.items() if pods and v == pods[0]), None)
    if job == "new" and not pods:
        out += [("active", [PK["unsched"]])] * 4
    if len(pods) == 1:
        nxt = {"unsched": ["creating", "errpull", "running", "evicted", "deadline0"], "errpull": ["creating", "errpull", "deadline0"], "creating": ["running", "nostart"],
               "running": ["ok", "ok", "err", "oom", "term143", "sig15", "deadline", "evicted", "evicted137", "lost", "okoom", "two"], "lost": ["running", "unsched"],
               "two": ["running"]}.get(kind, [])
        out += [(job, [PK[k]]) for k in nxt]
        if kind in TERMINAL and job in ("active", "idle"):
            good = pods[0]["ph"] == "Succeeded"
            out += [("complete" if good else "failed", pods)] * 4 + [("idle", pods), ("otherok" if good else "other", pods)]
        if job == "active" and kind not in TERMINAL:
            out.append((job, [pods[0], PK["unsched"]]))
        if job in ("complete", "failed"):
            out.append((job, []))
        if rnd.random() < 0.05:
            out.append((job, []))
    if len(pods) == 2:
        out += [(job, [pods[1]])] * 3
    if job in ("new", "active", "idle", "complete", "failed") and rnd.random() < 0.15:
        out.append(("gone", pods))
    if job == "gone" and pods:
        out += [("gone", [])] * 2
    return out


def random_run(seed, d):
    """One seeded random schedule on the real task.  -> [step records]"""
    from .. import world_g06 as G
    rnd = random.Random(seed)
    D = G.Driver(d)
    trace = []

    def log(ev, f=None, conf=None, kind="ok", o=None):
        v = real_view(D)
        rec = {"ev": ev, "from": 99, "kind": "ok", "midn": 0, "midjob": "none", "midpods": [], "gc": "none", "archive": "none", "cache": True,
               "job": v["job"], "pods": v["pods"], "created": v["created"], "calls": (o or {}).get("calls", []), "raised": (o or {}).get("raised", "none"),
               "st": "-", "rs": "none", "rc": -1, "started": False, "pull": 5, "errs": 0, "age": -1000, "off": 0, "cached": False, "closed": False, "done": False,
               "terminated": False, "called": False, "req": False, "archived": 0, "ndel": 0, "alive": True, "prc": -1, "reason": "none", "status": "-"}
        if f is not None:
            rec.update({"from": f["from"], "kind": f["kind"], "midn": f["midn"], "midjob": f["midcl"]["job"], "midpods": f["midcl"]["pods"]})
        if conf is not None:
            rec.update(gc=conf[0], archive=conf[1], cache=conf[2], kind=kind)
        if v["created"]:
            rec.update(st=v["last"][0], rs=v["last"][1], rc=v["last"][2], prc=v["rc"], **{k: v[k] for k in (
                "started", "pull", "errs", "age", "off", "cached", "closed", "done", "terminated", "called", "req", "archived", "ndel", "alive", "reason", "status")})
        trace.append(rec)
    try:
        conf = (rnd.choice(["none", "none", "all", "failed", "successful"]), rnd.choice(["none", "none", "all", "failed", "successful"]), rnd.random() < 0.8)
        kind = rnd.choice(["ok"] * 12 + ["e403", "e504", "conn", "blip504", "blipconn"])
        D.configure(conf[0], conf[1])
        o = D.construct(G.Script(None if kind == "ok" else 1, None if kind == "ok" else kind), cache_image=conf[2])
        log("Create", conf=conf, kind=kind, o=o)
        if D.task is None:
            return trace, None
        nofail = {"from": 99, "kind": "ok", "midn": 0, "midcl": {"job": "none", "pods": []}}
        sick = 0            # a failing API tends to stay so for a few steps
        for _ in range(rnd.choice([8, 14, 22, 30])):
            c = D.cluster
            alive = D.task.isAlive()
            done = D.tick_item() is None
            r = rnd.random()
            f = dict(nofail)
            if sick > 0 or rnd.random() < 0.2:
                if sick <= 0:
                    sick = rnd.choice([1, 1, 2, 4, 6])
                    sick_kind = rnd.choice(ALL_KINDS)
                    sick_from = rnd.choice([1, 1, 1, 2, 3, 4, 5, 6])
                f.update({"from": sick_from, "kind": sick_kind})
            if r < 0.33:
                moves = env_moves(rnd, c.job["st"], [{k: p[k] for k in ("ph", "prs", "cs", "code", "trs", "sig", "tst")} for p in c.pods])
                if not moves:
                    continue
                job, pods = rnd.choice(moves)
                c.apply(("job", job))
                c.apply(("pods", pods))
                c.begin_step()
                D.raised = None
                log("Env")
            elif r < 0.78:
                if done:
                    continue
                if f["from"] >= 99 and rnd.random() < 0.2 and D.task.status not in ("finished", "failed"):
                    moves = env_moves(rnd, c.job["st"], [{k: p[k] for k in ("ph", "prs", "cs", "code", "trs", "sig", "tst")} for p in c.pods])
                    if moves:
                        job, pods = rnd.choice(moves)
                        f.update(midn=rnd.choice([1, 2]), midcl={"job": job, "pods": pods})
                if f["from"] < 99:
                    sick -= 1
                log("Tick", f, o=D.tick(script_of(f)))
            elif r < 0.86:
                if f["from"] < 99:
                    sick -= 1
                log("Kill", f, o=D.kill(script_of(f), how=rnd.choice(["kill", "terminate"])))
            elif r < 0.90:
                if not alive:
                    continue
                if f["from"] < 99:
                    sick -= 1
                log("Interrupt", f, o=D.wait_interrupt(script_of(f)))
            else:
                log("WaitPeek", o=D.wait_peek())
            if D.cluster.unexpected:
                return trace, ("trace:unknown-request", "request(s) the cluster model does not know: %s" % D.cluster.unexpected)
        return trace, None
    finally:
        D.close()


def _runs_chunk(args):
    seeds, d = args
    import logging
    logging.disable(logging.CRITICAL)
    out = []
    for sd in seeds:
        try:
            tr, problem = random_run(sd, d)
            out.append((sd, tr, problem))
        except Exception as e:      # noqa
            import traceback
            out.append((sd, [], ("trace:exception:%s" % type(e).__name__, traceback.format_exc()[-1200:])))
    shutil.rmtree(d, ignore_errors=True)
    return out


def tla(v):
    if isinstance(v, bool):
        return "TRUE" if v else "FALSE"
    if isinstance(v, int):
        return str(v) if v >= 0 else "(0 - %d)" % -v
    if isinstance(v, float):
        if v.is_integer():
            return tla(int(v))
        raise MachineryError("non-integral time %r in a recorded run (the clock of the harness drifted from the 5 s grid)" % v)
    if isinstance(v, str):
        return '"%s"' % v
    if isinstance(v, (list, tuple)):
        return "<<" + ", ".join(tla(x) for x in v) + ">>"
    if isinstance(v, dict):
        return "[" + ", ".join("%s |-> %s" % (k, tla(x)) for k, x in v.items()) + "]"
    raise MachineryError("cannot render %r" % (v,))


TRACE_CONSTS = dict(Gcs='{"none", "all", "failed", "successful"}', Archives='{"none", "all", "failed", "successful"}', Caches="{TRUE, FALSE}",
                    CreateKinds='{"ok", "e403", "e504", "conn", "blip504", "blipconn"}', Kinds=sset(ALL_KINDS), Froms="{1}", KillFroms="{1}", Mids="{1, 2}",
                    MaxTicks=98, MaxKills=98, MaxBad=98, MaxMid=98, MaxPeek=98, Outcomes=sset(ALL_OUT), Interrupts="TRUE")
TRACE_PROPS = ["TFinalStaysFinal", "TDeadStaysDead", "TVerdictStable", "TQuietWhenOver", "TForwardOnly"]
TRACE_INV = ["ResultIffDead", "DeadIsFinal", "FinishedIsSuccess", "NotFinalNoVerdict", "TerminatedMeansDeleted", "EscapeRule"]


def validate_traces(chk, tag, traces):
    """traces: [[step, ...], ...] -> ({index: matched steps} of the rejected ones | {"property": name}, tlc result)"""
    d = os.path.join(GEN, "trace_%s" % tag)
    shutil.rmtree(d, ignore_errors=True)
    os.makedirs(d)
    for f in ("K8sTask.tla", "K8sTask_trace.tla"):
        shutil.copy(os.path.join(SPEC, f), os.path.join(d, f))
    with open(os.path.join(d, "K8sTaskTraceData.tla"), "w") as f:
        f.write("---- MODULE K8sTaskTraceData ----\nEXTENDS Integers, TLC\nTraces == <<\n  %s\n>>\n====\n" % ",\n  ".join(
            "[steps |-> <<%s>>]" % ",\n    ".join(tla(s) for s in steps) for steps in traces))
    text = ("SPECIFICATION TraceSpec\nCONSTRAINT Furthest\nPOSTCONDITION AllAccepted\n" + "".join("PROPERTY %s\n" % p for p in TRACE_PROPS)
            + "".join("INVARIANT %s\n" % i for i in TRACE_INV))
    cpath = cfg("trace_%s" % tag, TRACE_CONSTS, text)
    shutil.copy(cpath, os.path.join(d, "trace.cfg"))
    r = tlc.run_tlc("K8sTask_trace", os.path.join(d, "trace.cfg"), specdir=d, workers=1, timeout=1500, expect_violation=True)
    chk.add_tlc(r)
    out = r["out"]
    rejected = {}
    m = re.search(r'<<\s*"REJECTED",(.*?)>>\s*\nError', out, re.S)
    if m:
        pairs = re.findall(r"(\d+) :> (\d+)", m.group(1))
        if not pairs:
            pairs = [(str(i + 1), v) for i, v in enumerate(re.findall(r"\d+", m.group(1)))]
        if not pairs:
            raise MachineryError("cannot parse REJECTED report: %s" % m.group(1)[:300])
        for t, ll in pairs:
            rejected[int(t) - 1] = int(ll)
    elif not r["ok"]:
        v = violated_of(r)
        if v in TRACE_PROPS or v in TRACE_INV:
            return {"property": v}, r
        raise MachineryError("trace validation failed to run:\n%s" % out[-3000:])
    shutil.rmtree(d, ignore_errors=True)
    return rejected, r


def code_to_spec(chk, tier, only_seed=None):
    n = 240 if tier == "quick" else 1200
    seeds = [chk.seed * 1000003 + i for i in range(n)] if only_seed is None else [only_seed]
    k = max(1, (len(seeds) + 13) // 14)
    res = pool_map(_runs_chunk, [(seeds[i:i + k], os.path.join(chk.scratch, "rr_%d" % i)) for i in range(0, len(seeds), k)])
    runs = []
    for chunk in res:
        for sd, tr, problem in chunk:
            if problem:
                chk.violation(problem[0], "seed %d: %s" % (sd, problem[1]), {"kind": "trace", "seed": sd})
            else:
                runs.append((sd, tr))
    batches = [runs[i:i + 300] for i in range(0, len(runs), 300)]
    from concurrent.futures import ThreadPoolExecutor
    with ThreadPoolExecutor(4) as ex:
        results = list(ex.map(lambda ib: validate_traces(chk, "random%d" % ib[0], [tr for _sd, tr in ib[1]]), enumerate(batches)))
    events, nsteps, nacc, good = {}, 0, 0, []
    for batch, (rej, _r) in zip(batches, results):
        if "property" in rej:
            chk.violation("trace:property:%s" % rej["property"], "a recorded run of the real task violates %s" % rej["property"], {"kind": "trace-batch"})
            continue
        for i, (sd, tr) in enumerate(batch):
            chk.evaluated(("trace", sd))
            if i in rej:
                s = tr[rej[i]] if rej[i] < len(tr) else {}
                what = s.get("ev") if s.get("from", 99) >= 99 else "%s-with-failing-request" % s.get("ev")
                chk.violation("trace:no-step-of-the-specification:%s" % what, "seed %d: step %d (%s, script %s@%s mid %s) of the recorded run is not the step the "
                              "specification computes after %s; recorded: %s" % (sd, rej[i] + 1, s.get("ev"), s.get("kind"), s.get("from"), s.get("midn"),
                                                                                  [x["ev"] for x in tr[:rej[i]]], json.dumps(s)[:1200]), {"kind": "trace", "seed": sd})
            else:
                chk.trace_validated()
                nacc += 1
                nsteps += len(tr)
                good.append(tr)
                for st in tr:
                    name = st["ev"] if st["ev"] not in ("Tick", "Kill") else st["ev"] + ("Bad" if st["from"] < 99 else "Mid" if st["midn"] else "")
                    events[name] = events.get(name, 0) + 1
    missing = set(ACTIONS) - set(events)
    if missing and not chk.violations and only_seed is None:
        raise MachineryError("no validated recorded run takes the trace-spec step(s) %s" % sorted(missing))
    chk.cov["recorded_runs_validated"] = nacc
    chk.cov["recorded_steps_validated"] = nsteps
    chk.cov["recorded_steps_by_action"] = events
    if only_seed is not None:
        return
    # self-test of the binding: corrupt one recorded field per run, the runs must be rejected
    pick = [tr for tr in good if any(s["ev"] == "Tick" and s["created"] and s["st"] in ("finished", "failed") for s in tr)][:4]
    if len(pick) < 3:
        if chk.violations:
            return          # the recorded runs are rejected for a reason that is already reported
        raise MachineryError("no recorded run with a verdict to corrupt")
    bad_runs = []
    for j, tr in enumerate(pick):
        tr2 = [dict(s) for s in tr]
        k_ = max(i for i, s in enumerate(tr2) if s["ev"] == "Tick" and s["st"] in ("finished", "failed"))
        if j == 0:
            tr2[k_]["rs"] = tr2[k_]["reason"] = "KnownIssue" if tr2[k_]["rs"] != "KnownIssue" else "Killed"
        elif j == 1:
            kk = next(i for i, s in enumerate(tr2) if s["calls"])
            tr2[kk]["calls"] = tr2[kk]["calls"] + ["list_pods"]
        elif j == 2:
            tr2[k_]["alive"] = not tr2[k_]["alive"]
        else:
            tr2[k_]["pull"] = tr2[k_]["pull"] - 1
        bad_runs.append(tr2)
    rej2, _r = validate_traces(chk, "corrupt", bad_runs)
    if "property" in rej2 or len(rej2) != len(bad_runs):
        raise MachineryError("self-test: corrupted traces were accepted by K8sTask_trace.tla (%s of %d rejected)" % (rej2, len(bad_runs)))
    chk.cov["corrupted_traces_rejected"] = len(rej2)


# --------------------------------------------------------------------------------------------------------------------------
# 4. function specifications

def emit_cases(chk, name, consts, inv):
    r = tlc.run_tlc(MODULE, cfg(name, dict(consts, Emit="TRUE"), "INIT Init\nNEXT Next\nINVARIANT %s\n" % inv), workers=1, timeout=1500)
    must_hold(chk, r, "case emission %s" % name)
    seen, out = set(), []
    for c in r["cases"]:
        k = json.dumps(c["case"], sort_keys=True)
        if k not in seen:
            seen.add(k)
            out.append(c)
    r["cases"] = []
    r["out"] = ""
    return out


def _map_chunk(args):
    cases, d = args
    import datetime
    import logging
    logging.disable(logging.CRITICAL)
    from .. import world_g06 as G
    D = G.Driver(d)
    out = []
    try:
        D.construct()
        t = D.task
        for c in cases:
            case, want = c["case"], c["res"]
            D.cluster.apply(("job", case["job"]))
            D.cluster.apply(("pods", case["pods"]))
            la = case["last"]
            t.lastReportedState = (la["st"], None if la["rs"] == "none" else la["rs"], None if la["rc"] < 0 else la["rc"])
            t._epoch_started = (G.EPOCH + datetime.timedelta(seconds=1)) if case["started"] else None
            t._remaining_image_pull_errors = case["pull"]
            t0 = D.world.now
            t.api_unavailable_since = None if case["age"] <= -1000 else G.EPOCH + datetime.timedelta(seconds=t0 - case["age"] * G.UNIT)
            f = case["f"]
            D.cluster.begin_step(G.Script(f["from"] if f["from"] < 99 else None, f["kind"] if f["from"] < 99 else None))
            try:
                x = t._getTaskState()           # the pipeline calls it through a wrapper that turns any exception into None
            except Exception:       # noqa
                x = None
            if x is None:
                gx = {"k": "none", "st": "-", "rs": "none", "rc": -1}
            else:
                gx = {"k": "val", "st": x[0] if x[0] is not None else "None", "rs": x[1] or "none", "rc": -1 if x[2] is None else x[2]}
            since = t.api_unavailable_since
            got = {"x": gx, "started": t._epoch_started is not None, "pull": t._remaining_image_pull_errors,
                   "age": -1000 if since is None else _num((t0 - (since - G.EPOCH).total_seconds()) / G.UNIT), "off": _num((D.world.now - t0) / G.UNIT),
                   "calls": list(D.cluster.calls)}
            out.append(None if got == want else (got, want))
    finally:
        D.close()
        shutil.rmtree(d, ignore_errors=True)
    return out


def map_key(case):
    pods = case["pods"]
    p = pods[0] if len(pods) == 1 else None
    shape = "no-pod" if not pods else "two-pods" if len(pods) > 1 else "%s/%s/%s" % (p["ph"], p["prs"], p["cs"] if p["cs"] != "term" else "term%d-%s-sig%d%s" % (
        p["code"], p["trs"], p["sig"], "" if p["tst"] else "-nostart"))
    f = case["f"]
    return "map:job-%s:%s%s" % (case["job"], shape, "" if f["from"] >= 99 else ":%s@%d" % (f["kind"], f["from"]))


def function_specs(chk, tier):
    cases = emit_cases(chk, "map_grid", dict(Part='"map"', MapSlice='"full"' if tier == "thorough" else '"quick"'), "EmitMap")
    cases += emit_cases(chk, "map_api", dict(Part='"map"', MapSlice='"api"'), "EmitMap")
    if len(cases) < 20000:
        raise MachineryError("TLC emitted only %d cases of _getTaskState" % len(cases))
    k = (len(cases) + 13) // 14
    chunks = [(cases[i:i + k], os.path.join(chk.scratch, "map_%d" % i)) for i in range(0, len(cases), k)]
    res = pool_map(_map_chunk, chunks)
    n = 0
    for (cs, _d), rr in zip(chunks, res):
        for c, r in zip(cs, rr):
            n += 1
            chk.evaluated(("map", json.dumps(c["case"], sort_keys=True)))
            if r is not None:
                fields, det = diff(r[0], r[1])
                chk.violation(map_key(c["case"]) + ":" + "+".join(fields), "_getTaskState with job %s, pods %s, memory last=%s started=%s pull=%s age=%s, API %s: %s" % (
                    c["case"]["job"], json.dumps(c["case"]["pods"]), c["case"]["last"]["st"], c["case"]["started"], c["case"]["pull"], c["case"]["age"],
                    c["case"]["f"], det), {"kind": "map", "case": c})
            if SW["CompleteNeedsPod"] == "TRUE" and c["case"]["job"] == "complete" and not c["case"]["pods"] and c["case"]["f"]["from"] >= 99 and c["res"]["x"]["rs"] != "Success":
                FOUND[F_PODGONE] = FOUND.get(F_PODGONE, 0) + (r is None)
            if SW["FirstConditionWins"] == "TRUE" and c["case"]["job"] == "other" and c["res"]["x"]["st"] == "None":
                FOUND[F_COND] = FOUND.get(F_COND, 0) + (r is None)
    chk.cov["getTaskState_cases"] = n
    # the documents of the two generators
    from .. import world_g06 as G
    for light in (False, True):
        D = G.Driver(os.path.join(chk.scratch, "gen_%s" % light), gc="failed", archive="all")
        try:
            o = D.construct(light=light)
            bad = check_job_body(D, light) if D.task is not None else ["no task: %s" % o["raised"]]
            if D.task is not None and (D.task.garbage_collect, D.task.archive_objects) != ("failed", "none" if light else "all"):
                bad.append("garbage_collect / archive_objects %s / %s" % (D.task.garbage_collect, D.task.archive_objects))
            chk.evaluated(("generator", light))
            if bad:
                chk.violation("generator:%s:job-document" % ("light" if light else "full"), "; ".join(bad), {"kind": "generator", "light": light})
        finally:
            D.close()
    # isAlive / returncode / exitReason / status / poll
    ex = emit_cases(chk, "exit_grid", dict(Part='"exit"'), "EmitExit")
    if len(ex) < 1000:
        raise MachineryError("TLC emitted only %d cases of exitReason" % len(ex))
    bad = _exit_cases(ex, os.path.join(chk.scratch, "exit"))
    for c, got in bad:
        fields, det = diff(got, c["res"])
        la = c["case"]["last"]
        chk.violation("exit:%s:rs-%s:rc-%s:%s" % (la["st"], la["rs"], "none" if la["rc"] < 0 else "0" if la["rc"] == 0 else "low" if la["rc"] < 128 else "high", "+".join(fields)),
                      "lastReportedState %s, stdout closed %s, terminated %s: %s" % ([la["st"], la["rs"], la["rc"]], c["case"]["closed"], c["case"]["terminated"], det),
                      {"kind": "exit", "case": c})
    for c in ex:
        chk.evaluated(("exit", json.dumps(c["case"], sort_keys=True)))
    chk.cov["exitReason_cases"] = len(ex)


def _exit_cases(cases, d):
    import logging
    logging.disable(logging.CRITICAL)
    from .. import world_g06 as G
    D = G.Driver(d)
    bad = []
    try:
        D.construct()
        t = D.task
        real_stdout = t.stdout
        shut = open(os.devnull, "ab")
        shut.close()
        for c in cases:
            case = c["case"]
            la = case["last"]
            t.lastReportedState = (None if la["st"] == "None" else la["st"], None if la["rs"] == "none" else la["rs"], None if la["rc"] < 0 else la["rc"])
            t.terminated = case["terminated"]
            t.stdout = shut if case["closed"] else real_stdout
            try:
                rc = t.returncode
                got = {"alive": t.isAlive(), "rc": -1 if rc is None else rc, "reason": t.exitReason or "none", "status": t.status if t.status is not None else "None"}
                if t.poll() != rc:
                    got["poll"] = t.poll()
            except Exception as e:      # noqa
                got = {"error": repr(e)}
            if got != c["res"]:
                bad.append((c, got))
        t.stdout = real_stdout
    finally:
        D.close()
        shutil.rmtree(d, ignore_errors=True)
    return bad


# --------------------------------------------------------------------------------------------------------------------------

def report_findings(chk):
    for k in sorted(FOUND):
        print("KNOWN-FINDING: property=%s %s %s [%d transition(s) / case(s) of the real task this run]" % (PID, k, FINDING_TEXT[k], FOUND[k]))
    chk.cov["findings"] = dict(FOUND)


def run(tier):
    from concurrent.futures import ThreadPoolExecutor
    chk = Check(PID, tier)
    os.makedirs(GEN, exist_ok=True)
    try:
        import logging
        logging.disable(logging.CRITICAL)
        from .. import world_g06 as G        # noqa: imported before the worker processes are forked
        import experiment.runtime.backends_base    # noqa
        t0 = time.time()
        walls = {}

        def timed(name, fn, *a):
            t = time.time()
            fn(*a)
            walls[name] = round(time.time() - t, 1)
        with ThreadPoolExecutor(2) as ex:
            fm = ex.submit(timed, "model", model_check, chk, tier) if not os.environ.get("G06_SKIP_MODEL") else None
            ff = ex.submit(timed, "functions", function_specs, chk, tier)
            timed("cover", spec_to_code, chk, tier)
            timed("traces", code_to_spec, chk, tier)
            ff.result()
            if fm is not None:
                fm.result()
        logging.disable(logging.NOTSET)
        chk.cov["phase_wall_s"] = dict(walls, total=round(time.time() - t0, 1))
        report_findings(chk)
        th = tier == "thorough"
        chk.cov["rule"] = ("run: EVERY transition of the bounded models (slices: life, config, pull, outage, faults, others, twophase, kills -- cluster scenarios x "
                           "ticks x kill / terminate / ^C x API scripts (failure kind x first failing request, blips, the cluster moving between two requests of a poll)) "
                           "lies on at least one schedule replayed on the real NativeScheduledTask, the full projection compared after every step; map: EVERY case of "
                           "the %s grid of job status x pod status fields x task memory (+ API scripts on a reduced grid) on the real _getTaskState; exit: every "
                           "(state, exit reason, return code, terminated, stdout) on the real isAlive / returncode / exitReason / status / poll; seeded random "
                           "schedules validated by TLC; distinct = distinct schedules / cases / seeds" % ("full" if th else "quick"))
        chk.cov["exhaustive"] = True
        chk.cov["switches"] = dict(SW)
        chk.assumptions += [
            "the cluster is a stand-in below the real kubernetes client (urllib3 pool manager replaced): job and pod documents carry the fields a 1.2x-1.3x API "
            "server sends for the modelled situations; deleting a job with propagationPolicy Background removes the Job object at once and leaves its pods terminating",
            "a step of the task (one emission of the polling pipeline incl. the nested manual emission and garbage collection; kill(); terminate(); wait() + ^C) is atomic: "
            "kill() racing with a poll on another thread of the rx pool is not explored (both mutate lastReportedState / _remaining_image_pull_errors without a lock)",
            "time is virtual: polling interval 100 s, random.randint(10, 15) pinned to 10 s; the 5-minute API outage limit and the retry sleeps are exact in units of 5 s",
            "API failures are 'from request k of the step on' (503 / 504 / connection refused) or a single failing request (blips); other patterns are not explored",
            "_getTaskState is called directly for the function specification (the pipeline calls it through a closure that turns exceptions into None; the harness does the same)",
            "pod templates (podSpec merge), volumes, image-id bookkeeping, performanceInfo (epoch-*) and the content of the archived yaml files are not modelled "
            "(only whether and how often the objects are archived)"]
        return chk.finish()
    finally:
        shutil.rmtree(GEN, ignore_errors=True)


def replay(path):
    d = json.load(open(path))
    chk = Check(PID, "quick")
    rp = d["replay"]
    os.makedirs(GEN, exist_ok=True)
    try:
        import logging
        logging.disable(logging.CRITICAL)
        if rp["kind"] == "replay":
            rr = replay_path(os.path.join(chk.scratch, "rp"), rp["init"], [(lab, st) for lab, st in rp["path"]])
            chk.evaluated(("replay",))
            if rr:
                chk.violation(rr[0], rr[1], rp)
        elif rp["kind"] == "trace":
            code_to_spec(chk, "quick", only_seed=rp["seed"])
        elif rp["kind"] == "map":
            r = _map_chunk(([rp["case"]], os.path.join(chk.scratch, "map")))[0]
            chk.evaluated(("map",))
            if r is not None:
                fields, det = diff(r[0], r[1])
                chk.violation(map_key(rp["case"]["case"]) + ":" + "+".join(fields), det, rp)
        elif rp["kind"] == "exit":
            chk.evaluated(("exit",))
            for c, got in _exit_cases([rp["case"]], os.path.join(chk.scratch, "exit")):
                fields, det = diff(got, c["res"])
                chk.violation("exit:" + "+".join(fields), det, rp)
        else:
            print("re-run ./check G06: the case is re-derived from the specification; case:", rp.get("case"))
        logging.disable(logging.NOTSET)
        return chk.finish()
    finally:
        shutil.rmtree(GEN, ignore_errors=True)
