"""G04 (growth item) -- the Task contract and the monitor primitives below the Engine.
Spec: spec/TaskLifecycle.tla (+ spec/TaskLifecycle_trace.tla).  Environment: harness/world_g04.py.

1. TLC on the design models (LocalTask + attached death/event monitor, CreateMonitor, SimulatorTask): invariants, action
   properties, liveness under fairness, per-action coverage, and the NAMED DEVIATIONS as expected counterexamples.
2. spec -> code: TLC prints EVERY transition <<state, action, state'>> of the bounded models; a set of paths from the initial
   state that covers every transition is computed and each path is replayed on the REAL objects in the lock-step world; the
   projection of the real state is compared with the specified state after every step (transition coverage of the model).
3. code -> spec: seeded random lock-stepped interleavings (thread steps down to single source lines) of the real objects are
   recorded and validated by TLC with TaskLifecycle_trace.tla; one field of one recorded trace is corrupted as a self-test.
4. function specifications: returncode -> exitReason / status for every code in -64..255 on both Task implementations
   (plus a few REAL processes as a check of the fake kernel), MonitorExceptionTracker.isSystemStable.
"""
import json
import multiprocessing
import os
import random
import re
import shutil
import time

from ..common import Check, MachineryError, SPEC
from .. import tlc

PID = "G04"
# FALSE: the specification models SimulatorTask._run as the code has it (finding G04:sim-poll-reads-state-before-returncode, named
# deviation SimTornPoll).  Set to "TRUE" once /repo is repaired (findings/G04_simulator_torn_poll.diff): the strong property
# SimDeadHasCode then holds and is checked as an invariant.
SIM_STATE_LAST = os.environ.get("G04_SIM_STATE_LAST", "TRUE")    # repaired in /repo, see known_findings.json
FINDING_SIM = "sim-poll-reads-state-before-returncode"
LIGHT = ["-XX:TieredStopAtLevel=1"]       # small models: the JIT costs more than it gains
GEN = os.path.join(SPEC, "gen", "g04_%d" % os.getpid())
MODULE = "TaskLifecycle"

BASE = dict(ExitCodes="{0, 3}", ExtSignals="{9}", Disps='{"die", "ignore"}', Observers="{1}", MaxKill=2, MonKind='"none"',
            TestKind='"task"', TestVals='{"True", "False"}', ActOuts='{"ok", "exc"}', LastAction="TRUE", IntervalKind='"number"',
            FsRetries=5, MaxAct=3, MaxPoll=2, SimCodes="{0}", SimUnmet="{FALSE}", MaxSimPoll=2, SimStateLast=SIM_STATE_LAST, Fine="FALSE", TrackRes="FALSE", Emit="FALSE")


def cfg(name, consts, body):
    os.makedirs(GEN, exist_ok=True)
    c = dict(BASE)
    c.update(consts)
    path = os.path.join(GEN, name + ".cfg")
    with open(path, "w") as f:
        f.write("CONSTANTS\n" + "".join("  %s = %s\n" % kv for kv in c.items()) + body + "CHECK_DEADLOCK FALSE\n")
    return path


def must_hold(chk, r, what):
    m = re.search(r"Error: Temporal property (\S+) was violated", r["out"])
    if m:
        r["violated"] = m.group(1)
    if not r["ok"]:
        raise MachineryError("TaskLifecycle.tla: %s: %s fails on the model\n%s" % (what, r["violated"], r["out"][-2500:]))
    chk.add_tlc(r)


# --------------------------------------------------------------------------------------------------------------------------
# 1. the models

TASK_INV = ["TaskTypeOK", "ViewConsistent", "RcIsKernelStatus", "LockDiscipline", "FlagsOrdered", "WaitReturnsDead", "OwnSignalIsCancelled",
            "ActionAtMostOnce", "ActionOnlyWhenDead", "OneTickAtATime", "ChainStateConsistent"]
TASK_PROP = ["RcStable", "StatusStable", "NoSignalAfterKnownDead", "ChainEndIsFinal", "NoTickAfterCancelSeen"]
PER_INV = ["PerTypeOK", "LastAtMostOnce", "LastOnlyAfterCancel", "NoLastWhenDisabled", "AtMostOneNormalAfterCancel", "EndsOnlyWhenCancelledOrBroken"]
PER_PROP = ["NothingAfterLast", "ErrorsAreTracked"]
SIM_INV = ["SimTypeOK", "SimEventOnlyWhenDead", "SimObservedFollowsReal", "SimObservedCodeWasReal", "SimWaitReturnsDead", "SimKilledOrExpected"]
SIM_PROP = ["SimDeadIsFinal"]

# named deviations: (name, specification, kind of property, property, constants)
DEVIATIONS = [
    ("KillIsTerminate", "TaskSpec", "INVARIANT", "KillGivesKilled", dict(MaxKill=1)),
    ("KillIsSoft", "TaskFair", "PROPERTY", "KillLeadsToDeath", dict(MaxKill=1, Observers="{}")),
    ("ZombieLooksAlive", "TaskSpec", "INVARIANT", "QuerySeesDeath", dict(MaxKill=1, TrackRes="TRUE")),
    ("SignalAfterReap", "TaskSpec", "INVARIANT", "NoSignalToFreedPid", dict(MaxKill=1)),
    ("EpochFinishedLate", "TaskSpec", "INVARIANT", "WaitSeesEpoch", dict(MaxKill=0)),
    ("ActionAfterCancel/death-action", "TaskSpec", "INVARIANT", "NoDeathActionAfterCancel", dict(MaxKill=0, Observers="{}", MonKind='"death"')),
    ("ActionAfterCancel/periodic", "PerSpec", "INVARIANT", "NoNormalActionAfterCancel", dict(ActOuts='{"ok"}')),
    ("TruthyIsDead", "TaskSpec", "PROPERTY", "OnlyFalseIsDead", dict(ExitCodes="{}", ExtSignals="{}", Disps="{}", Observers="{}", MaxKill=0,
                                                                  MonKind='"death"', TestKind='"env"', TestVals='{"True", "False", "One", "Zero", "None", "raise"}')),
    ("RetryIgnoresInterval", "PerSpec", "PROPERTY", "IntervalBetweenActions", dict(ActOuts='{"ok", "exc"}')),
    ("FsBailOutSkipsLast", "PerFair", "PROPERTY", "CancelLeadsToLastAction", dict(ActOuts='{"ok", "fs"}', MaxAct=8)),
    ("SimTornPoll", "SimSpec", "INVARIANT", "SimDeadHasCode", dict(MaxKill=0)),
    ("SimCodeBeforeState", "SimSpec", "INVARIANT", "SimCodeOnlyWhenDead", dict(MaxKill=0)),
    ("SimKillRewritesExit", "SimSpec", "PROPERTY", "SimFinishedStaysFinished", dict(MaxKill=1)),
    ("SimKillWaitsOut", "SimSpec", "PROPERTY", "SimKillAbortsExecution", dict(MaxKill=1)),
    ("SimKillLost", "SimSpec", "PROPERTY", "SimKillSticks", dict(MaxKill=1, Fine="TRUE", SimStateLast="FALSE")),
]


def body(spec, invs=(), props=()):
    return "SPECIFICATION %s\n" % spec + "".join("INVARIANT %s\n" % i for i in invs) + "".join("PROPERTY %s\n" % p for p in props)


def model_check(chk, tier):
    from concurrent.futures import ThreadPoolExecutor
    th = tier == "thorough"
    jobs = []     # (name, constants, cfg body, property expected to fail | None)
    mon = dict(MonKind='"death"', MaxKill=1)
    jobs.append(("task-safety", dict(mon, Observers="{1, 2}" if th else "{1}", TrackRes="TRUE", ExitCodes="{0, 3}" if th else "{3}"),
                 body("TaskSpec", TASK_INV, TASK_PROP), None))
    jobs.append(("task-safety-fine", dict(mon, Observers="{1, 2}", Fine="TRUE", MaxKill=2 if th else 1), body("TaskSpec", TASK_INV, TASK_PROP), None))
    jobs.append(("task-event-monitor", dict(mon, MonKind='"event"', Fine="TRUE"), body("TaskSpec", TASK_INV, TASK_PROP), None))
    jobs.append(("task-liveness", dict(mon, Fine="TRUE", ExitCodes="{3}"), body("TaskFair", (), ["ExitLeadsToEvent", "WaitersReturn", "HardKillLeadsToDeath"]), None))
    jobs.append(("monitor-liveness", dict(mon, Observers="{}", ExitCodes="{3}", Disps='{"die"}' if not th else '{"die", "ignore"}'),
                 body("MonFair", (), ["DeathLeadsToAction", "CancelStopsChain"]), None))
    envmon = dict(ENV, TestKind='"env"', TestVals=ALLVALS)
    for mk in ("death", "event"):
        jobs.append(("monitor-any-test-%s" % mk, dict(envmon, MonKind='"%s"' % mk), body("TaskSpec", TASK_INV, TASK_PROP), None))
    for la in ("TRUE", "FALSE"):
        for ik in ("number", "callable"):
            c = dict(ENV, ActOuts='{"ok", "exc", "fs"}', MaxAct=8 if th else 7, MaxPoll=3 if th else 2, LastAction=la, IntervalKind='"%s"' % ik)
            jobs.append(("periodic-%s-%s" % (la, ik), c, body("PerSpec", PER_INV, PER_PROP), None))
            jobs.append(("periodic-live-%s-%s" % (la, ik), dict(c, MaxAct=4), body("PerFair", (), ["CancelLeadsToEnd"]), None))
    jobs.append(("periodic-last-action-without-fs-errors", dict(ENV, ActOuts='{"ok", "exc"}', MaxAct=4), body("PerFair", (), ["CancelLeadsToLastAction"]), None))
    sim = dict(ENV, MaxKill=2 if th else 1, SimCodes="{0, 3}", SimUnmet="{FALSE, TRUE}", MaxSimPoll=3 if th else 2)
    jobs.append(("simulator-safety", dict(sim, Fine="TRUE"), body("SimSpec", SIM_INV, SIM_PROP), None))
    jobs.append(("simulator-liveness", dict(sim, SimCodes="{3}", MaxKill=1, MaxSimPoll=2), body("SimFair", (), ["SimEndLeadsToEvent", "SimKillLeadsToEnd"]), None))
    for name, spec, kind, prop, consts in DEVIATIONS:
        if name == "SimTornPoll" and SIM_STATE_LAST == "TRUE":
            jobs.append(("repaired:" + name, dict(sim, Fine="TRUE"), "SPECIFICATION %s\n%s %s\n" % (spec, kind, prop), None))
            continue
        jobs.append(("deviation:" + name, consts, "SPECIFICATION %s\n%s %s\n" % (spec, kind, prop), prop))

    def one(job):
        name, consts, text, prop = job
        c = cfg("mc_%s_%s" % (re.sub(r"\W", "_", name), tier), consts, text)
        try:
            small = prop is not None or not name.startswith(("task-safety", "task-liveness", "simulator-safety"))
            return tlc.run_tlc(MODULE, c, timeout=1500, workers=4 if prop is None else 1, expect_violation=prop is not None, jvm=LIGHT if small else None)
        except MachineryError as e:
            return e
    with ThreadPoolExecutor(4) as ex:
        results = list(ex.map(one, jobs))
    dev, sizes = {}, {}
    for (name, consts, text, prop), r in zip(jobs, results):
        if isinstance(r, Exception):
            raise r
        if prop is None:
            must_hold(chk, r, name)
            sizes[name] = r.get("distinct", 0)
        else:
            viol = r["violated"]
            m = re.search(r"Error: Temporal property (\S+) was violated", r["out"])
            if viol is None and m:
                viol = m.group(1)
            if viol != prop:
                raise MachineryError("TaskLifecycle.tla: expected a counterexample to %s (named deviation %s), got %s\n%s" % (prop, name, viol, r["out"][-1500:]))
            chk.add_tlc(r)
            dev[name[10:]] = "counterexample to %s found by TLC (%d states)" % (prop, r.get("distinct", 0))
    chk.cov["named_deviations_witnessed"] = dev
    chk.cov["model_sizes"] = sizes


# --------------------------------------------------------------------------------------------------------------------------
# 2. spec -> code: transition cover

def graph_of(cases):
    """cases: [[from, label, to], ...] -> (init key, {key: state}, {key: [(label, to key)]})"""
    states, out, has_in = {}, {}, set()
    for f, lab, t in cases:
        kf, kt = json.dumps(f), json.dumps(t)
        states.setdefault(kf, f)
        states.setdefault(kt, t)
        out.setdefault(kf, []).append((lab, kt))
        if kt != kf:
            has_in.add(kt)
    roots = [s for s in states if s not in has_in]
    if len(roots) != 1:
        raise MachineryError("the transition graph printed by TLC has %d roots" % len(roots))
    return roots[0], states, out


def cover_paths(init, out, max_len=60):
    """Paths from init such that every edge is on at least one path.  -> list of [(label, to key), ...]"""
    # breadth-first tree: the shortest way to every state
    parent = {init: None}
    order = [init]
    for s in order:
        for i, (lab, t) in enumerate(out.get(s, ())):
            if t not in parent:
                parent[t] = (s, i)
                order.append(t)
    covered = set()
    paths = []

    def way_to(s):
        w = []
        while parent[s] is not None:
            p, i = parent[s]
            w.append((p, i))
            s = p
        w.reverse()
        return w
    nxt = {s: 0 for s in out}

    def uncovered_edge(s):
        es = out.get(s, ())
        j = nxt.get(s, 0)
        while j < len(es) and (s, j) in covered:
            j += 1
        nxt[s] = j
        return j if j < len(es) else None
    for s in order:                      # shallow first: a walk goes on through uncovered edges for as long as there are any
        while True:
            i = uncovered_edge(s)
            if i is None:
                break
            walk = way_to(s)
            cur = s
            while len(walk) < max_len:
                j = uncovered_edge(cur)
                if j is None:
                    break
                covered.add((cur, j))
                walk.append((cur, j))
                cur = out[cur][j][1]
            paths.append([out[p][j] for p, j in walk])
    return paths


_DRIVERS = {}


def _driver(kind, params):
    from .. import world_g04 as G
    if kind == "task":
        return G.TaskDriver(*params)
    if kind == "per":
        return G.PerDriver(*params)
    if kind == "sim":
        return G.SimDriver(*params)
    raise MachineryError("unknown driver %s" % kind)


def diff(real, want):
    fields = sorted(f for f in set(real) | set(want) if real.get(f) != want.get(f))
    return fields, "; ".join("%s: code %s, specification %s" % (f, json.dumps(real.get(f)), json.dumps(want.get(f))) for f in fields)


def replay_path(kind, params, init_state, path):
    """path: [(label, spec state after)] -> None | (key, what) | ("MACHINERY", what)"""
    from .. import world_g04 as G
    d = _driver(kind, params)
    try:
        cls = type(d)
        fields, det = diff(d.project(), cls.spec_state(init_state))
        if fields:
            return ("replay:%s:init:%s" % (kind, "+".join(fields)), det)
        done = []
        for lab, want in path:
            try:
                got = d.apply(lab)
            except G.NotEnabled as e:
                return ("replay:%s:%s:not-enabled" % (kind, lab[0]), "after %s the specification allows %s but the code cannot do it: %s" % (done, lab, e))
            except G.HarnessDrift as e:
                return ("MACHINERY", "harness drift at %s after %s: %s" % (lab, done, e))
            except G.Stuck as e:
                return ("replay:%s:%s:code-blocks-outside-the-model" % (kind, lab[0]), "after %s, step %s: %s" % (done, lab[:2], e))
            done.append(lab[:2])
            if len(lab) > 2 and lab[0] in ("Call", "View") and got != lab[2]:
                return ("replay:%s:Call-%s:result" % (kind, lab[1]), "after %s (step %d): %s returned [isAlive, returncode, exitReason, status] = %s, specification %s"
                        % (done, len(done), lab[1], json.dumps(got), json.dumps(lab[2])))
            fields, det = diff(d.project(), cls.spec_state(want))
            if fields:
                return ("replay:%s:%s:%s" % (kind, lab[0] if lab[0] != "Call" else "Call-" + str(lab[1]), "+".join(fields)),
                        "after %s (step %d): %s" % (done, len(done), det[:1200]))
        return None
    finally:
        d.close()


def _replay_chunk(args):
    kind, params, init_state, paths = args
    out = []
    for p in paths:
        if out and out[-1] and out[-1][0].endswith("code-blocks-outside-the-model"):
            out.append(out[-1])        # a thread of the code is stuck in this process: do not go on here
            continue
        try:
            out.append(replay_path(kind, params, init_state, p))
        except MachineryError as e:
            out.append(("MACHINERY", str(e)))
        except Exception:     # noqa
            import traceback
            out.append(("MACHINERY", "replay crashed on %s: %s" % ([x[0] for x in p], traceback.format_exc()[-1200:])))
    return out


def pool_map(fn, chunks):
    ctx = multiprocessing.get_context("fork")
    with ctx.Pool(min(12, max(1, len(chunks)))) as p:
        return list(p.imap(fn, chunks))


def emit_transitions(chk, plan):
    """One TLC run per bounded model prints its transitions (side by side)."""
    from concurrent.futures import ThreadPoolExecutor

    def one(item):
        name, spec, consts, kind, params, least = item
        c = cfg("edges_%s" % name, dict(consts, Emit="TRUE"), "SPECIFICATION %s\n" % spec)
        try:
            return tlc.run_tlc(MODULE, c, workers=1, timeout=1500, jvm=LIGHT if least < 10000 else None)
        except MachineryError as e:
            return e
    with ThreadPoolExecutor(6) as ex:
        results = list(ex.map(one, plan))
    out = []
    for item, r in zip(plan, results):
        if isinstance(r, Exception):
            raise r
        must_hold(chk, r, "transition emission %s" % item[0])
        edges = r["cases"]
        r["out"] = ""
        r["cases"] = []
        if len(edges) < item[5]:
            raise MachineryError("TLC printed only %d transitions for %s" % (len(edges), item[0]))
        out.append(edges)
    return out


def transition_cover(chk, name, edges, kind, params):
    """Cover the transitions of one bounded model with paths; replay the paths on the real objects."""
    acts = chk.cov.setdefault("action_coverage", {})
    for e in edges:
        acts[e[1][3]] = acts.get(e[1][3], 0) + 1
    init, states, out = graph_of(edges)
    paths = cover_paths(init, out)
    full = [[(lab, states[t]) for lab, t in p] for p in paths]
    n = max(20, len(full) // 48)
    chunks = [(kind, params, states[init], full[i:i + n]) for i in range(0, len(full), n)]
    res = [x for part in pool_map(_replay_chunk, chunks) for x in part]
    steps = 0
    for p, rr in zip(full, res):
        steps += len(p)
        chk.evaluated((name, [x[0][:2] for x in p]))
        if rr is None:
            chk.trace_validated()
            continue
        if rr[0] == "MACHINERY":
            raise MachineryError(rr[1])
        chk.violation(rr[0], "%s: %s" % (name, rr[1]), {"kind": "replay", "driver": kind, "params": params, "init": states[init],
                                                        "path": [[lab, st] for lab, st in p]})
    chk.cov.setdefault("transition_cover", {})[name] = dict(states=len(states), transitions=len(edges), paths=len(full), replayed_steps=steps)
    if kind == "sim":
        # the finding: the REAL SimulatorTask answered "exitReason raises TypeError" where the specification of the current code says so
        n = sum(1 for p, rr in zip(full, res) if rr is None for lab, _st in p if lab[0] == "View" and str(lab[2][2]).startswith("raised"))
        if n:
            FOUND[FINDING_SIM] = ("SimulatorTask: poll() copies _real_state and _real_return_code without the lock _run holds; a poll between `_real_state = "
                                  "finished` and the return code leaves the task dead with returncode None for ever: exitReason raises TypeError, status "
                                  "'failed', wait() has returned (%d replayed queries of the real task answered so; repro "
                                  "findings/G04_simulator_torn_poll_repro.py, repair G04_simulator_torn_poll.diff, then G04_SIM_STATE_LAST=TRUE)" % n)
    if full:
        p = max(full, key=len)
        chk.sample({"model": name, "longest_path": [x[0][:2] for x in p]}, limit=6)


# --------------------------------------------------------------------------------------------------------------------------
# 3. code -> spec: random lock-stepped runs validated by TLC

def tla(v):
    if v is None:
        return '"<None>"'
    if isinstance(v, bool):
        return "TRUE" if v else "FALSE"
    if isinstance(v, int):
        return str(v)
    if isinstance(v, float) and v == int(v):
        return str(int(v))
    if isinstance(v, str):
        return '"%s"' % v.replace("\\", "/").replace('"', "'")
    if isinstance(v, (list, tuple)):
        return "<<" + ", ".join(tla(x) for x in v) + ">>"
    raise MachineryError("cannot render %r for TLC" % (v,))


TRACE_CONSTS = dict(Fine="TRUE", MaxKill=99, MaxAct=99, MaxPoll=99, MaxSimPoll=99, TrackRes="TRUE", ActOuts='{"ok", "exc", "fs"}',
                    TestVals='{"True", "False", "One", "Zero", "None", "raise"}')


def _runs_chunk(args):
    kind, params, seeds, scratch = args
    from .. import world_g04 as G
    out = []
    for sd in seeds:
        rnd = random.Random(sd)
        try:
            if kind == "task":
                tr = G.random_task_run(rnd, params[0], params[1], params[2], rnd.choice([25, 50, 90]))
            elif kind == "per":
                tr = G.random_per_run(rnd, params[0], params[1], rnd.choice([20, 40, 80]))
            else:
                tr = G.random_sim_run(rnd, scratch, rnd.choice([30, 60, 120]))
            out.append((sd, tr, None))
        except (G.HarnessDrift, MachineryError) as e:
            out.append((sd, [], "harness drift (seed %d): %s" % (sd, e)))
        except (G.NotEnabled, G.Stuck) as e:
            out.append((sd, [], "random run asked for a step that is not there (seed %d): %s" % (sd, e)))
            if isinstance(e, G.Stuck):
                break
        except Exception:      # noqa
            import traceback
            out.append((sd, [], "random run crashed (seed %d): %s" % (sd, traceback.format_exc()[-1200:])))
    return out


def validate_traces(chk, tag, kind, consts, traces):
    """traces: list of step lists.  -> ({index: index of the first step that was not matched}, invariant violated | None)"""
    rejected = {}
    d = os.path.join(GEN, "trace_%s" % tag)
    shutil.rmtree(d, ignore_errors=True)
    os.makedirs(d)
    for f in (MODULE + ".tla", MODULE + "_trace.tla"):
        shutil.copy(os.path.join(SPEC, f), os.path.join(d, f))
    with open(os.path.join(d, "TaskTraceData.tla"), "w") as f:
        f.write("---- MODULE TaskTraceData ----\nEXTENDS Integers, TLC\nKind == \"%s\"\nTraces == <<\n  %s\n>>\n====\n" % (
            kind, ",\n  ".join("<<" + ",\n    ".join(tla(st) for st in tr) + ">>" for tr in traces)))
    c = dict(BASE)
    c.update(TRACE_CONSTS)
    c.update(consts)
    path = os.path.join(d, "trace.cfg")
    with open(path, "w") as f:
        f.write("CONSTANTS\n" + "".join("  %s = %s\n" % kv for kv in c.items()) +
                "SPECIFICATION TraceSpec\nCONSTRAINT Furthest\nINVARIANT TInv\nPOSTCONDITION AllAccepted\nCHECK_DEADLOCK FALSE\n")
    r = tlc.run_tlc(MODULE + "_trace", path, specdir=d, workers=1, timeout=1500, expect_violation=True, jvm=LIGHT)
    chk.add_tlc(r)
    out = r["out"]
    inv = None
    m = re.search(r'<<\s*"REJECTED",(.*?)>>\s*\nError', out, re.S)
    if m:
        pairs = re.findall(r"(\d+) :> (\d+)", m.group(1))
        if not pairs:
            pairs = [(str(i + 1), v) for i, v in enumerate(re.findall(r"\d+", m.group(1)))]
        if not pairs:
            raise MachineryError("cannot parse REJECTED report: %s" % m.group(1)[:300])
        for t, ll in pairs:
            rejected[int(t) - 1] = int(ll)
    elif r["violated"] == "TInv":
        inv = out[-3000:]
    elif not r["ok"]:
        raise MachineryError("trace validation failed to run:\n%s" % out[-3000:])
    shutil.rmtree(d, ignore_errors=True)
    return rejected, inv


def code_to_spec(chk, tier, scratch, only_group=None, only_seed=None):
    n = 80 if tier == "quick" else 1000
    groups = [("task", (2, "death", "task"), dict(Observers="{1, 2}", MonKind='"death"', TestKind='"task"')),
              ("task", (1, "event", "task"), dict(Observers="{1}", MonKind='"event"', TestKind='"task"')),
              ("task", (1, "death", "env"), dict(Observers="{1}", MonKind='"death"', TestKind='"env"')),
              ("task", (1, "event", "env"), dict(Observers="{1}", MonKind='"event"', TestKind='"env"')),
              ("per", (True, "number"), dict(LastAction="TRUE", IntervalKind='"number"')),
              ("per", (True, "callable"), dict(LastAction="TRUE", IntervalKind='"callable"')),
              ("per", (False, "callable"), dict(LastAction="FALSE", IntervalKind='"callable"')),
              ("per", (False, "number"), dict(LastAction="FALSE", IntervalKind='"number"')),
              ("sim", (), dict())]
    jobs = []
    for gi, (kind, params, consts) in enumerate(groups):
        seeds = [chk.seed * 1000003 + gi * 100000 + i for i in range(n)]
        if only_group is not None:
            if gi != only_group:
                continue
            if only_seed is not None:
                seeds = [only_seed]
        for i in range(0, len(seeds), 30):
            jobs.append((kind, params, seeds[i:i + 30], scratch))
    res = pool_map(_runs_chunk, jobs)
    by_group = {}
    for (kind, params, seeds, _), part in zip(jobs, res):
        by_group.setdefault((kind, params), []).extend(part)
    stats = {}
    selftest_done = False
    for gi, (kind, params, consts) in enumerate(groups):
        if (kind, params) not in by_group:
            continue
        runs = []
        for sd, tr, problem in by_group[(kind, params)]:
            if problem:
                if problem.startswith("harness drift") or "crashed" in problem:
                    raise MachineryError(problem)
                chk.violation("trace:%s:step-not-available" % kind, problem, {"kind": "trace", "group": gi, "seed": sd})
                continue
            if tr:
                runs.append((sd, tr))
        tag = "%s_%d_%s" % (kind, gi, tier)
        rejected, inv = {}, None
        for b0 in range(0, len(runs), 300):
            rej, inv1 = validate_traces(chk, tag, kind, consts, [tr for _sd, tr in runs[b0:b0 + 300]])
            rejected.update({b0 + i: ll for i, ll in rej.items()})
            inv = inv or inv1
        if inv:
            chk.violation("trace:%s:invariant" % kind, "a recorded run of the real code reaches a state that violates an invariant of the "
                          "specification: %s" % inv[-1500:], {"kind": "trace-group", "group": gi})
        for i, (sd, tr) in enumerate(runs):
            chk.evaluated(("trace", kind, params, sd))
            if i in rejected:
                ll = rejected[i]
                st = tr[ll] if ll < len(tr) else ["?", "?", 0, []]
                chk.violation("trace:%s:no-action-explains:%s" % (kind, st[0]),
                              "seed %d (%s %s): step %d (%s %s, result %s) of the recorded run of the real code is not a step of TaskLifecycle.tla; "
                              "logged projection after it: %s; before it: %s; previous steps: %s" % (
                                  sd, kind, params, ll + 1, st[0], st[1], json.dumps(st[2]), json.dumps(st[3]),
                                  json.dumps(tr[ll - 1][3]) if ll else "initial state", [(x[0], x[1]) for x in tr[max(0, ll - 10):ll]]),
                              {"kind": "trace", "group": gi, "seed": sd, "rejected_step": ll + 1})
            else:
                chk.trace_validated()
        acts = {}
        for _sd, tr in runs:
            for st in tr:
                acts[st[0]] = acts.get(st[0], 0) + 1
        stats["%s%s" % (kind, list(params))] = dict(runs=len(runs), steps=sum(len(tr) for _sd, tr in runs), rejected=len(rejected), by_action=acts)
        if only_group is None:
            need = {"task": ["Create", "ProcExit", "ExtSignal", "Call", "W", "WaitCall", "O", "MonStart", "Cancel", "Fire", "T"],
                    "per": ["Start", "Cancel", "P", "Elapse"], "sim": ["Create", "R", "P", "Kill", "K", "WaitCall", "O", "View"]}[kind]
            never = [a for a in need if not acts.get(a)]
            if never:
                raise MachineryError("trace actions never taken by a recorded run of group %s %s (vacuous validation): %s" % (kind, params, never))
        # self-test of the binding: one corrupted field must be rejected
        if not selftest_done and runs and kind == "task":
            sd, tr = max(runs, key=lambda x: len(x[1]))
            bad = json.loads(json.dumps(tr))
            idx = next((i for i, st in enumerate(bad) if st[0] == "W" and st[3][3] != 999), None)
            if idx is not None:
                bad[idx][3][3] = bad[idx][3][3] + 1          # the return code the waiter thread stored
                rej, _ = validate_traces(chk, tag + "_selftest", kind, consts, [bad])
                if 0 not in rej or rej[0] != idx:
                    raise MachineryError("self-test: a trace with a corrupted returncode at step %d was not rejected there (%s)" % (idx + 1, rej))
                selftest_done = True
    if not selftest_done and only_group is None:
        raise MachineryError("self-test of the trace binding did not run (no suitable recorded run)")
    chk.cov["random_runs"] = stats
    chk.cov["trace_selftest"] = "a recorded run with one corrupted field (returncode stored by the waiter thread) is rejected at that step"


# --------------------------------------------------------------------------------------------------------------------------
# 4. function specifications

def _table_chunk(args):
    """-> list of (rc, impl, observed dict)"""
    rows, scratch = args
    from .. import world_g04 as G
    out = []
    for rc, variant in rows:
        # LocalTask: the process ends with exit code rc / by signal -rc; variant 0: the waiter thread reaps it, 1: the owner's poll does,
        # 2 (signals): with the core-dump flag in the wait status
        d = G.TaskDriver(0, "none", "task")
        try:
            d.apply(["Create", "die"])
            if variant == 0:
                d.apply(["W", 0])
            G.K.exit(d.task.pid, rc, core=(variant == 2))
            if variant == 1:
                first = d.call("status")
            guard = 0
            while d.waiter.status != "done" and guard < 20:
                d.apply(["W", 0])
                guard += 1
            t = d.task
            got = dict(rc=t.returncode, reason=t.exitReason, status=t.status, alive=t.isAlive(), poll=t.poll(), ended=d.waiter.status == "done")
            if variant == 1:
                got["first"] = first
            out.append((rc, "local%d" % variant, got))
        finally:
            d.close()
        if variant == 0:
            s = G.SimDriver(scratch)
            try:
                s.apply(["Create", rc, False])
                guard = 0
                while not s.task._finished_event.flag and guard < 60:
                    guard += 1
                    s._threads()
                    for g in (s.run_g, s.poll_g):
                        if g.status == "done":
                            continue
                        if g.status == "blocked" and not g.can_run():
                            s.thread_step(g, wake="timeout")
                        else:
                            s.thread_step(g)
                v = s.view()
                out.append((rc, "sim", dict(alive=v[0], rc=v[1], reason=v[2], status=v[3], ended=s.task._finished_event.flag)))
            finally:
                s.close()
    return out


def table(chk):
    c = cfg("table", dict(ENV), "SPECIFICATION TabSpec\nINVARIANT TabEmit\nINVARIANT TabSane\n")
    r = tlc.run_tlc(MODULE, c, workers=1, timeout=600, jvm=LIGHT)
    must_hold(chk, r, "returncode table")
    want = {x["rc"]: x for x in r["cases"]}
    if sorted(want) != list(range(-64, 256)):
        raise MachineryError("TLC printed %d table rows" % len(want))
    rows = []
    for rc in range(-64, 256):
        rows += [(rc, 0), (rc, 1)]
        if rc < 0:
            rows.append((rc, 2))
    chunks = [(rows[i:i + 60], chk.scratch) for i in range(0, len(rows), 60)]
    res = [x for part in pool_map(_table_chunk, chunks) for x in part]
    for rc, impl, got in res:
        w = want[rc]
        chk.evaluated(("table", impl, rc))
        cls = "zero" if rc == 0 else "exit-code" if rc > 0 else "signal"
        if impl.startswith("local"):
            exp = dict(rc=rc, reason=w["local"], status=w["status"], alive=False, poll=rc, ended=True)
            if "first" in got:
                exp["first"] = ["F", rc, w["local"], w["status"]]
        else:
            exp = dict(alive="F", rc=rc, reason=w["sim"], status=w["status"], ended=True)
        if got != exp:
            f, det = diff(got, exp)
            chk.violation("table:%s:%s:%s" % (impl.rstrip("012"), cls, "+".join(f)), "process status %d (%s): %s" % (rc, impl, det), {"kind": "table", "rc": rc})
    chk.cov["returncode_table"] = dict(codes=320, executions=len(res))
    return want


REAL_CASES = [("exit 0", 0), ("exit 1", 1), ("exit 3", 3), ("exit 24", 24), ("exit 255", 255), ("kill -INT $$", -2), ("kill -KILL $$", -9),
              ("kill -TERM $$", -15), ("ulimit -c 0; kill -XCPU $$", -24), ("ulimit -c 0; kill -SEGV $$", -11), ("kill -USR1 $$", -10)]


def _real_chunk(_):
    """REAL processes through the unmodified LocalTask (a process of its own: no shim is installed here)."""
    from .. import realenv  # noqa: F401
    import experiment.runtime.backend_interfaces.localtask as lt
    if not isinstance(lt.threading, type(os)):
        return [("MACHINERY", "the lock-step shims are installed in the process that runs real tasks")]
    out = []
    for cmd, rc in REAL_CASES:
        t = lt.LocalTask(cmd, shell=True, stdout=open(os.devnull, "w"), stderr=open(os.devnull, "w"))
        t.wait()
        cell = t.performanceInfo.getElements().get("epoch-finished") if hasattr(t.performanceInfo, "getElements") else None
        out.append((cmd, rc, dict(rc=t.returncode, reason=t.exitReason, status=t.status, alive=t.isAlive(), epoch=cell not in (None, "None"))))
        t.kill()
        t.terminate()
    # kill() / terminate() of a running process, then wait()
    for how in ("kill", "terminate"):
        t = lt.LocalTask("exec sleep 30", shell=True)
        before = (t.isAlive(), t.exitReason, t.status, t.poll())
        getattr(t, how)()
        t.wait()
        out.append((how, -15, dict(rc=t.returncode, reason=t.exitReason, status=t.status, alive=t.isAlive(), epoch=True, before=before)))
    return out


def real_processes(chk, want):
    res = pool_map(_real_chunk, [0])[0]
    for item in res:
        if item[0] == "MACHINERY":
            raise MachineryError(item[1])
        cmd, rc, got = item
        chk.evaluated(("real", cmd))
        w = want[rc]
        exp = dict(rc=rc, reason=w["local"], status=w["status"], alive=False, epoch=True)
        if "before" in got:
            exp["before"] = (True, None, "running", None)
        if got != exp:
            f, det = diff(got, exp)
            chk.violation("real-process:%s" % "+".join(f), "real process `%s` through LocalTask: %s" % (cmd, det), {"kind": "real"})
    chk.cov["real_processes"] = len(res)


def _tracker_chunk(cases):
    from .. import world_g04 as G
    lt, mon = G._setup_modules()
    import experiment.model.errors as merr
    out = []

    def fn():
        pass
    for c in cases:
        G.W.stop_all()
        G.W.reset()
        mon.MonitorExceptionTracker.default = None
        tr = mon.MonitorExceptionTracker.defaultTracker()
        for t, kd in c["trk"]:
            G.W.now = float(t)
            base = kd.split(":")[-1]
            e = {"fs": lambda: merr.FilesystemInconsistencyError("directory vanished", None), "sys": lambda: SystemError("system"),
                 "msys": lambda: merr.SystemError(RuntimeError("system")), "other": lambda: RuntimeError("other")}[base]()
            if kd.startswith("a:"):
                mon.MonitorActionError(fn, e)          # registers itself with the default tracker
            else:
                tr.addException(e)
        G.W.now = float(c["now"])
        got = {}
        for tf in (30, 120, 180):
            try:
                got[str(tf)] = tr.isSystemStable(tf)
            except Exception as e:     # noqa
                got[str(tf)] = "raised %r" % (e,)
        out.append((got, len(tr.exceptions)))
    return out


def tracker(chk):
    c = cfg("tracker", dict(ENV), "SPECIFICATION TrkSpec\nINVARIANT TrkEmit\n")
    r = tlc.run_tlc(MODULE, c, workers=1, timeout=600, jvm=LIGHT)
    must_hold(chk, r, "exception tracker")
    cases = r["cases"]
    if len(cases) < 2000:
        raise MachineryError("TLC printed only %d tracker cases" % len(cases))
    chunks = [cases[i:i + 400] for i in range(0, len(cases), 400)]
    res = [x for part in pool_map(_tracker_chunk, chunks) for x in part]
    for c, (got, n) in zip(cases, res):
        chk.evaluated(("tracker", c["trk"], c["now"]))
        if got != c["stable"]:
            kinds = "+".join(sorted(set(k for _t, k in c["trk"])))
            chk.violation("tracker:isSystemStable:%s" % kinds, "exceptions %s, asked at %s: isSystemStable(30/120/180) = %s, specification %s" % (
                c["trk"], c["now"], json.dumps(got, sort_keys=True), json.dumps(c["stable"], sort_keys=True)), {"kind": "tracker", "case": c})
    chk.cov["tracker_cases"] = len(cases)
    return len(cases)


ENV = dict(ExitCodes="{}", ExtSignals="{}", Disps="{}", Observers="{}", MaxKill=0)
ALLVALS = '{"True", "False", "One", "Zero", "None", "raise"}'


def cover_plan(tier, scratch):
    """(name, specification, constants, driver kind, driver parameters, least number of transitions)"""
    th = tier == "thorough"
    plan = [
        ("task-2-waiters", "TaskSpec", dict(Observers="{1, 2}", MaxKill=2 if th else 1), "task", (2, "none", "task"), 15000),
        ("task-2-kills", "TaskSpec", dict(Observers="{1}", MaxKill=2, ExitCodes="{3}"), "task", (1, "none", "task"), 5000),
        ("task-death-monitor", "TaskSpec", dict(Observers="{1}" if th else "{}", MonKind='"death"', MaxKill=1), "task", (1 if th else 0, "death", "task"), 20000),
        ("task-event-monitor", "TaskSpec", dict(Observers="{}", MonKind='"event"', MaxKill=1, Disps='{"die"}'), "task", (0, "event", "task"), 8000),
        ("death-monitor-any-test", "TaskSpec", dict(ENV, MonKind='"death"', TestKind='"env"', TestVals=ALLVALS), "task", (0, "death", "env"), 200),
        ("event-monitor-any-test", "TaskSpec", dict(ENV, MonKind='"event"', TestKind='"env"', TestVals=ALLVALS), "task", (0, "event", "env"), 200),
    ]
    for la in ("TRUE", "FALSE"):
        for ik in ("number", "callable"):
            plan.append(("periodic-last%s-%s" % (la[0], ik), "PerSpec",
                         dict(ENV, TestKind='"env"', TestVals="{}", ActOuts='{"ok", "exc", "fs"}', MaxAct=7, LastAction=la, IntervalKind='"%s"' % ik),
                         "per", (la == "TRUE", ik), 1500))
    plan.append(("simulator", "SimSpec", dict(ENV, MaxKill=2 if th else 1, SimCodes="{0, 3}" if th else "{3}", SimUnmet="{FALSE, TRUE}", MaxSimPoll=2 if th else 1),
                 "sim", (scratch,), 10000))
    return plan


FOUND = {}


def report_findings(chk):
    for key, what in FOUND.items():
        if key in chk.known_keys:
            chk.violation(key, what)          # counted and printed by finish() as a known finding
        else:
            print("KNOWN-FINDING: property=%s %s %s" % (PID, "G04:" + key, what))
    chk.cov["findings"] = {"G04:" + k: v for k, v in FOUND.items()}


ACTIONS = ["Create", "CreateFails", "ProcExit", "ExtSignal", "KillCall", "Query", "WStart", "WWake", "WRc", "WFin", "WEpoch", "WSet", "WaitCall",
           "OCheck", "OWait", "OWake", "MonStart", "Cancel", "Fire", "TChk", "TTest", "TDecide", "TAct",
           "PStartCall", "PCancel", "PFirst", "PEnter", "PCond", "PWaitEnter", "PWaitWoken", "PCond2", "PAct", "PInterval", "PElapse",
           "SCreate", "SRunStart", "SRunWake", "SRunExec", "SRunResume", "SRunFile", "SRunEnd", "SPollStep", "SPollNext",
           "SKillCall", "SKillStep", "SWaitCall", "SWaitStep", "SQuery"]
FINE_ACTIONS = ["OPeek", "OGo", "SRunFine", "SPollStmt"]


def fine_actions(chk):
    """The statement-level actions only exist with Fine = TRUE (trace validation): count their transitions in small models."""
    seen = {}
    for name, spec, consts in (("fine_task", "TaskSpec", dict(Fine="TRUE", Emit="TRUE", MaxKill=0, ExitCodes="{3}", ExtSignals="{}", Disps='{"die"}')),
                               ("fine_sim", "SimSpec", dict(ENV, Fine="TRUE", Emit="TRUE", SimCodes="{3}", MaxSimPoll=1, MaxKill=1))):
        r = tlc.run_tlc(MODULE, cfg(name, consts, "SPECIFICATION %s\n" % spec), workers=1, timeout=600, jvm=LIGHT)
        must_hold(chk, r, name)
        for e in r["cases"]:
            seen[e[1][3]] = seen.get(e[1][3], 0) + 1
        r["out"] = ""
    return {a: seen.get(a, 0) for a in FINE_ACTIONS}


def run(tier):
    chk = Check(PID, tier)
    os.makedirs(GEN, exist_ok=True)
    try:
        t0 = time.time()
        model_check(chk, tier)
        t1 = time.time()
        plan = cover_plan(tier, chk.scratch)
        for (name, spec, consts, kind, params, least), edges in zip(plan, emit_transitions(chk, plan)):
            transition_cover(chk, name, edges, kind, params)
        acts = chk.cov["action_coverage"]
        acts.update(fine_actions(chk))
        missing = [a for a in ACTIONS + FINE_ACTIONS + (["SRunState"] if SIM_STATE_LAST == "TRUE" else ["SRunCode"]) if not acts.get(a)]
        if missing:
            raise MachineryError("actions of TaskLifecycle.tla without a transition (vacuous model): %s" % missing)
        t2 = time.time()
        code_to_spec(chk, tier, chk.scratch)
        t3 = time.time()
        want = table(chk)
        real_processes(chk, want)
        tracker(chk)
        t4 = time.time()
        chk.cov["phase_wall_s"] = dict(model=round(t1 - t0, 1), cover=round(t2 - t1, 1), traces=round(t3 - t2, 1), functions=round(t4 - t3, 1))
        chk.cov["rule"] = ("spec -> code: EVERY transition <<state, action, state'>> of the bounded models (LocalTask with two waiters; with an attached "
                           "death / event monitor; monitors with any test outcome; CreateMonitor x lastAction x interval kind; SimulatorTask) lies on a "
                           "replayed path and the real state is compared after every step; code -> spec: seeded random lock-stepped runs (thread steps "
                           "down to single lines) validated by TLC; functions: returncode table -64..255 x 2 implementations, tracker; distinct = "
                           "distinct paths / seeds / table rows")
        chk.cov["exhaustive"] = True
        report_findings(chk)
        chk.assumptions += [
            "the kernel below subprocess.Popen is a model (run -> zombie -> reaped, SIGTERM kills or is ignored, signals to zombies are dropped, a "
            "freed pid answers ESRCH); eleven REAL processes check that it agrees with Linux on codes, signals and kill()/terminate()",
            "CPython's subprocess.Popen (poll / wait / send_signal / _waitpid_lock) is executed, not modelled: it is trusted as far as it is not LocalTask's",
            "what reaches the process is the signal sent to the SHELL of shell=True; whether the workload below the shell dies is outside the model",
            "threads interleave at source lines of the module under test and at every blocking call / call-back; byte-code level interleavings are not explored",
            "one task, one monitor per behaviour; DockerTask / LSF / Kubernetes tasks need their back-ends and are not covered",
            "CreateMonitor with cancelEvent=None (never used in the code base) is not covered; virtual clock: only the order of time-outs matters"]
        return chk.finish()
    finally:
        shutil.rmtree(GEN, ignore_errors=True)


def replay(path):
    d = json.load(open(path))
    chk = Check(PID, "quick")
    os.makedirs(GEN, exist_ok=True)
    rp = d["replay"]
    try:
        if rp["kind"] == "replay":
            params = tuple(rp["params"])
            if rp["driver"] == "sim":
                params = (chk.scratch,)
            r = replay_path(rp["driver"], params, rp["init"], [(lab, st) for lab, st in rp["path"]])
            chk.evaluated(("replay",))
            if r and r[0] == "MACHINERY":
                raise MachineryError(r[1])
            if r:
                chk.violation(r[0], r[1], rp)
        elif rp["kind"] in ("trace", "trace-group"):
            code_to_spec(chk, "quick", chk.scratch, only_group=rp["group"], only_seed=rp.get("seed"))
        elif rp["kind"] in ("table", "real"):
            real_processes(chk, table(chk))
        else:
            tracker(chk)
        return chk.finish()
    finally:
        shutil.rmtree(GEN, ignore_errors=True)
