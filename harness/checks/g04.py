"""G04 (growth item) -- the Task contract and the monitor primitives below the Engine.
Spec: spec/TaskLifecycle.tla (+ spec/TaskLifecycle_trace.tla).  Environment: harness/world_g04.py.

1. TLC on the design models (LocalTask + attached death/event monitor, CreateMonitor, SimulatorTask): invariants, action
   properties, liveness under fairness, per-action coverage, and the NAMED DEVIATIONS as expected counterexamples.
2. spec -> code: TLC prints EVERY transition <<state, action, state'>> of the bounded models; a set of paths from the initial
   state that covers every transition is computed and each path is replayed on the REAL objects in the lock-step world; the
   projection of the real state is compared with the specified state after every step (transition coverage of the model).
3. code -> spec: seeded random lock-stepped interleavings (thread steps down to single source lines) of the real objects are
   recorded and validated by TLC with TaskLifecycle_trace.tla; one field of one recorded trace is corrupted as a self-test.
4. function specifications: returncode -> exitReason / status for every code in -64..255 on both Task implementations
   (plus a few REAL processes as a check of the fake kernel), MonitorExceptionTracker.isSystemStable.
"""
import json
import multiprocessing
import os
import random
import re
import shutil
import time

from ..common import Check, MachineryError, SPEC
from .. import tlc

PID = "G04"
GEN = os.path.join(SPEC, "gen", "g04_%d" % os.getpid())
MODULE = "TaskLifecycle"

BASE = dict(ExitCodes="{0, 3}", ExtSignals="{9}", Disps='{"die", "ignore"}', Observers="{1}", MaxKill=2, MonKind='"none"',
            TestKind='"task"', TestVals='{"True", "False"}', ActOuts='{"ok", "exc"}', LastAction="TRUE", IntervalKind='"number"',
            FsRetries=5, MaxAct=3, MaxPoll=2, SimCodes="{0}", SimUnmet="{FALSE}", MaxSimPoll=2, TrackRes="FALSE", Emit="FALSE")


def cfg(name, consts, body):
    os.makedirs(GEN, exist_ok=True)
    c = dict(BASE)
    c.update(consts)
    path = os.path.join(GEN, name + ".cfg")
    with open(path, "w") as f:
        f.write("CONSTANTS\n" + "".join("  %s = %s\n" % kv for kv in c.items()) + body + "CHECK_DEADLOCK FALSE\n")
    return path


def must_hold(chk, r, what):
    if not r["ok"]:
        raise MachineryError("TaskLifecycle.tla: %s: %s fails on the model\n%s" % (what, r["violated"], r["out"][-2500:]))
    chk.add_tlc(r)


# --------------------------------------------------------------------------------------------------------------------------
# 2. spec -> code: transition cover

def graph_of(cases):
    """cases: [[from, label, to], ...] -> (init key, {key: state}, {key: [(label, to key)]})"""
    states, out, has_in = {}, {}, set()
    for f, lab, t in cases:
        kf, kt = json.dumps(f), json.dumps(t)
        states.setdefault(kf, f)
        states.setdefault(kt, t)
        out.setdefault(kf, []).append((lab, kt))
        if kt != kf:
            has_in.add(kt)
    roots = [s for s in states if s not in has_in]
    if len(roots) != 1:
        raise MachineryError("the transition graph printed by TLC has %d roots" % len(roots))
    return roots[0], states, out


def cover_paths(init, out, max_len=60):
    """Paths from init such that every edge is on at least one path.  -> list of [(label, to key), ...]"""
    # breadth-first tree: the shortest way to every state
    parent = {init: None}
    order = [init]
    for s in order:
        for i, (lab, t) in enumerate(out.get(s, ())):
            if t not in parent:
                parent[t] = (s, i)
                order.append(t)
    covered = set()
    paths = []

    def way_to(s):
        w = []
        while parent[s] is not None:
            p, i = parent[s]
            w.append((p, i))
            s = p
        w.reverse()
        return w
    nxt = {s: 0 for s in out}

    def uncovered_edge(s):
        es = out.get(s, ())
        j = nxt.get(s, 0)
        while j < len(es) and (s, j) in covered:
            j += 1
        nxt[s] = j
        return j if j < len(es) else None
    for s in order:                      # shallow first: a walk goes on through uncovered edges for as long as there are any
        while True:
            i = uncovered_edge(s)
            if i is None:
                break
            walk = way_to(s)
            cur = s
            while len(walk) < max_len:
                j = uncovered_edge(cur)
                if j is None:
                    break
                covered.add((cur, j))
                walk.append((cur, j))
                cur = out[cur][j][1]
            paths.append([out[p][j] for p, j in walk])
    return paths


_DRIVERS = {}


def _driver(kind, params):
    from .. import world_g04 as G
    if kind == "task":
        return G.TaskDriver(*params)
    if kind == "per":
        return G.PerDriver(*params)
    if kind == "sim":
        return G.SimDriver(*params)
    raise MachineryError("unknown driver %s" % kind)


def diff(real, want):
    fields = sorted(f for f in set(real) | set(want) if real.get(f) != want.get(f))
    return fields, "; ".join("%s: code %s, specification %s" % (f, json.dumps(real.get(f)), json.dumps(want.get(f))) for f in fields)


def replay_path(kind, params, init_state, path):
    """path: [(label, spec state after)] -> None | (key, what) | ("MACHINERY", what)"""
    from .. import world_g04 as G
    d = _driver(kind, params)
    try:
        cls = type(d)
        fields, det = diff(d.project(), cls.spec_state(init_state))
        if fields:
            return ("replay:%s:init:%s" % (kind, "+".join(fields)), det)
        done = []
        for lab, want in path:
            try:
                got = d.apply(lab)
            except G.NotEnabled as e:
                return ("replay:%s:%s:not-enabled" % (kind, lab[0]), "after %s the specification allows %s but the code cannot do it: %s" % (done, lab, e))
            except G.HarnessDrift as e:
                return ("MACHINERY", "harness drift at %s after %s: %s" % (lab, done, e))
            done.append(lab[:2])
            if len(lab) > 2 and lab[0] in ("Call", "View") and got != lab[2]:
                return ("replay:%s:Call-%s:result" % (kind, lab[1]), "after %s (step %d): %s returned [isAlive, returncode, exitReason, status] = %s, specification %s"
                        % (done, len(done), lab[1], json.dumps(got), json.dumps(lab[2])))
            fields, det = diff(d.project(), cls.spec_state(want))
            if fields:
                return ("replay:%s:%s:%s" % (kind, lab[0] if lab[0] != "Call" else "Call-" + str(lab[1]), "+".join(fields)),
                        "after %s (step %d): %s" % (done, len(done), det[:1200]))
        return None
    finally:
        d.close()


def _replay_chunk(args):
    kind, params, init_state, paths = args
    out = []
    for p in paths:
        try:
            out.append(replay_path(kind, params, init_state, p))
        except MachineryError as e:
            out.append(("MACHINERY", str(e)))
        except Exception:     # noqa
            import traceback
            out.append(("MACHINERY", "replay crashed on %s: %s" % ([x[0] for x in p], traceback.format_exc()[-1200:])))
    return out


def pool_map(fn, chunks):
    ctx = multiprocessing.get_context("fork")
    with ctx.Pool(min(12, max(1, len(chunks)))) as p:
        return list(p.imap(fn, chunks))


def transition_cover(chk, name, spec, consts, kind, params, min_edges):
    """TLC prints the transitions of one bounded model; cover them with paths; replay the paths on the real objects."""
    c = cfg("edges_%s" % name, dict(consts, Emit="TRUE"), "SPECIFICATION %s\n" % spec)
    r = tlc.run_tlc(MODULE, c, workers=1, timeout=1500)
    must_hold(chk, r, "transition emission %s" % name)
    edges = r["cases"]
    r["out"] = ""
    if len(edges) < min_edges:
        raise MachineryError("TLC printed only %d transitions for %s" % (len(edges), name))
    init, states, out = graph_of(edges)
    paths = cover_paths(init, out)
    full = [[(lab, states[t]) for lab, t in p] for p in paths]
    n = max(20, len(full) // 48)
    chunks = [(kind, params, states[init], full[i:i + n]) for i in range(0, len(full), n)]
    res = [x for part in pool_map(_replay_chunk, chunks) for x in part]
    steps = 0
    for p, rr in zip(full, res):
        steps += len(p)
        chk.evaluated((name, [x[0] for x in p]))
        if rr is None:
            chk.trace_validated()
            continue
        if rr[0] == "MACHINERY":
            raise MachineryError(rr[1])
        chk.violation(rr[0], "%s: %s" % (name, rr[1]), {"kind": "replay", "driver": kind, "params": params, "init": states[init],
                                                        "path": [[lab, st] for lab, st in p]})
    chk.cov.setdefault("transition_cover", {})[name] = dict(states=len(states), transitions=len(edges), paths=len(full), replayed_steps=steps)
    if full:
        p = max(full, key=len)
        chk.sample({"model": name, "longest_path": [x[0] for x in p]}, limit=6)
    return edges


# --------------------------------------------------------------------------------------------------------------------------
# 3. code -> spec: random lock-stepped runs validated by TLC

def tla(v):
    if isinstance(v, bool):
        return "TRUE" if v else "FALSE"
    if isinstance(v, int):
        return str(v)
    if isinstance(v, float) and v == int(v):
        return str(int(v))
    if isinstance(v, str):
        return '"%s"' % v.replace("\\", "/").replace('"', "'")
    if isinstance(v, (list, tuple)):
        return "<<" + ", ".join(tla(x) for x in v) + ">>"
    raise MachineryError("cannot render %r for TLC" % (v,))


TRACE_CONSTS = dict(MaxKill=99, MaxAct=99, MaxPoll=99, MaxSimPoll=99, TrackRes="TRUE", ActOuts='{"ok", "exc", "fs"}',
                    TestVals='{"True", "False", "One", "Zero", "None", "raise"}')


def _runs_chunk(args):
    kind, params, seeds, scratch = args
    from .. import world_g04 as G
    out = []
    for sd in seeds:
        rnd = random.Random(sd)
        try:
            if kind == "task":
                tr = G.random_task_run(rnd, params[0], params[1], params[2], rnd.choice([25, 50, 90]))
            elif kind == "per":
                tr = G.random_per_run(rnd, params[0], params[1], rnd.choice([20, 40, 80]))
            else:
                tr = G.random_sim_run(rnd, scratch, rnd.choice([30, 60, 120]))
            out.append((sd, tr, None))
        except (G.HarnessDrift, MachineryError) as e:
            out.append((sd, [], "harness drift (seed %d): %s" % (sd, e)))
        except G.NotEnabled as e:
            out.append((sd, [], "random run asked for a step that is not there (seed %d): %s" % (sd, e)))
        except Exception:      # noqa
            import traceback
            out.append((sd, [], "random run crashed (seed %d): %s" % (sd, traceback.format_exc()[-1200:])))
    return out


def validate_traces(chk, tag, kind, consts, traces):
    """traces: list of step lists.  -> ({index: index of the first step that was not matched}, invariant violated | None)"""
    rejected = {}
    d = os.path.join(GEN, "trace_%s" % tag)
    shutil.rmtree(d, ignore_errors=True)
    os.makedirs(d)
    for f in (MODULE + ".tla", MODULE + "_trace.tla"):
        shutil.copy(os.path.join(SPEC, f), os.path.join(d, f))
    with open(os.path.join(d, "TaskTraceData.tla"), "w") as f:
        f.write("---- MODULE TaskTraceData ----\nEXTENDS Integers, TLC\nKind == \"%s\"\nTraces == <<\n  %s\n>>\n====\n" % (
            kind, ",\n  ".join("<<" + ",\n    ".join(tla(st) for st in tr) + ">>" for tr in traces)))
    c = dict(BASE)
    c.update(TRACE_CONSTS)
    c.update(consts)
    path = os.path.join(d, "trace.cfg")
    with open(path, "w") as f:
        f.write("CONSTANTS\n" + "".join("  %s = %s\n" % kv for kv in c.items()) +
                "SPECIFICATION TraceSpec\nCONSTRAINT Furthest\nINVARIANT TInv\nPOSTCONDITION AllAccepted\nCHECK_DEADLOCK FALSE\n")
    r = tlc.run_tlc(MODULE + "_trace", path, specdir=d, workers=1, timeout=1500, expect_violation=True)
    chk.add_tlc(r)
    out = r["out"]
    inv = None
    m = re.search(r'<<\s*"REJECTED",(.*?)>>\s*\nError', out, re.S)
    if m:
        pairs = re.findall(r"(\d+) :> (\d+)", m.group(1))
        if not pairs:
            pairs = [(str(i + 1), v) for i, v in enumerate(re.findall(r"\d+", m.group(1)))]
        if not pairs:
            raise MachineryError("cannot parse REJECTED report: %s" % m.group(1)[:300])
        for t, ll in pairs:
            rejected[int(t) - 1] = int(ll)
    elif r["violated"] == "TInv":
        inv = out[-3000:]
    elif not r["ok"]:
        raise MachineryError("trace validation failed to run:\n%s" % out[-3000:])
    shutil.rmtree(d, ignore_errors=True)
    return rejected, inv


def code_to_spec(chk, tier, scratch):
    n = 120 if tier == "quick" else 1200
    groups = [("task", (2, "death", "task"), dict(Observers="{1, 2}", MonKind='"death"', TestKind='"task"')),
              ("task", (1, "event", "task"), dict(Observers="{1}", MonKind='"event"', TestKind='"task"')),
              ("task", (1, "death", "env"), dict(Observers="{1}", MonKind='"death"', TestKind='"env"')),
              ("task", (1, "event", "env"), dict(Observers="{1}", MonKind='"event"', TestKind='"env"')),
              ("per", (True, "number"), dict(LastAction="TRUE", IntervalKind='"number"')),
              ("per", (True, "callable"), dict(LastAction="TRUE", IntervalKind='"callable"')),
              ("per", (False, "callable"), dict(LastAction="FALSE", IntervalKind='"callable"')),
              ("per", (False, "number"), dict(LastAction="FALSE", IntervalKind='"number"')),
              ("sim", (), dict())]
    jobs = []
    for gi, (kind, params, consts) in enumerate(groups):
        seeds = [chk.seed * 1000003 + gi * 100000 + i for i in range(n)]
        for i in range(0, n, 30):
            jobs.append((kind, params, seeds[i:i + 30], scratch))
    res = pool_map(_runs_chunk, jobs)
    by_group = {}
    for (kind, params, seeds, _), part in zip(jobs, res):
        by_group.setdefault((kind, params), []).extend(part)
    stats = {}
    selftest_done = False
    for gi, (kind, params, consts) in enumerate(groups):
        runs = []
        for sd, tr, problem in by_group[(kind, params)]:
            if problem:
                if problem.startswith("harness drift") or "crashed" in problem:
                    raise MachineryError(problem)
                chk.violation("trace:%s:step-not-available" % kind, problem, {"kind": "trace", "group": gi, "seed": sd})
                continue
            if tr:
                runs.append((sd, tr))
        tag = "%s_%d_%s" % (kind, gi, tier)
        rejected, inv = validate_traces(chk, tag, kind, consts, [tr for _sd, tr in runs])
        if inv:
            chk.violation("trace:%s:invariant" % kind, "a recorded run of the real code reaches a state that violates an invariant of the "
                          "specification: %s" % inv[-1500:], {"kind": "trace-group", "group": gi})
        for i, (sd, tr) in enumerate(runs):
            chk.evaluated(("trace", kind, params, sd))
            if i in rejected:
                ll = rejected[i]
                st = tr[ll] if ll < len(tr) else ["?", "?", 0, []]
                chk.violation("trace:%s:no-action-explains:%s" % (kind, st[0]),
                              "seed %d (%s %s): step %d (%s %s, result %s) of the recorded run of the real code is not a step of TaskLifecycle.tla; "
                              "logged projection after it: %s; before it: %s; previous steps: %s" % (
                                  sd, kind, params, ll + 1, st[0], st[1], json.dumps(st[2]), json.dumps(st[3]),
                                  json.dumps(tr[ll - 1][3]) if ll else "initial state", [(x[0], x[1]) for x in tr[max(0, ll - 10):ll]]),
                              {"kind": "trace", "group": gi, "seed": sd, "rejected_step": ll + 1})
            else:
                chk.trace_validated()
        acts = {}
        for _sd, tr in runs:
            for st in tr:
                acts[st[0]] = acts.get(st[0], 0) + 1
        stats["%s%s" % (kind, list(params))] = dict(runs=len(runs), steps=sum(len(tr) for _sd, tr in runs), rejected=len(rejected), by_action=acts)
        # self-test of the binding: one corrupted field must be rejected
        if not selftest_done and runs and kind == "task":
            sd, tr = max(runs, key=lambda x: len(x[1]))
            bad = json.loads(json.dumps(tr))
            idx = next((i for i, st in enumerate(bad) if st[0] == "W" and st[3][3] != 999), None)
            if idx is not None:
                bad[idx][3][3] = bad[idx][3][3] + 1          # the return code the waiter thread stored
                rej, _ = validate_traces(chk, tag + "_selftest", kind, consts, [bad])
                if 0 not in rej or rej[0] != idx:
                    raise MachineryError("self-test: a trace with a corrupted returncode at step %d was not rejected there (%s)" % (idx + 1, rej))
                selftest_done = True
    if not selftest_done:
        raise MachineryError("self-test of the trace binding did not run (no suitable recorded run)")
    chk.cov["random_runs"] = stats
    chk.cov["trace_selftest"] = "a recorded run with one corrupted field (returncode stored by the waiter thread) is rejected at that step"


def run(tier):
    chk = Check(PID, tier)
    os.makedirs(GEN, exist_ok=True)
    try:
        t0 = time.time()
        code_to_spec(chk, tier, chk.scratch)
        print(time.time() - t0, json.dumps(chk.cov["random_runs"])[:3000])
        return chk.finish()
    finally:
        shutil.rmtree(GEN, ignore_errors=True)


def replay(path):
    d = json.load(open(path))
    chk = Check(PID, "quick")
    rp = d["replay"]
    if rp["kind"] == "replay":
        r = replay_path(rp["driver"], tuple(rp["params"]), rp["init"], [(lab, st) for lab, st in rp["path"]])
        chk.evaluated(("replay",))
        if r and r[0] == "MACHINERY":
            raise MachineryError(r[1])
        if r:
            chk.violation(r[0], r[1], rp)
    return chk.finish()
