"""C08 -- Configuration queries always reflect the latest updates.  Spec: spec/ConfigCache.tla (+ ConfigCache_trace.tla)

1. TLC, design: the cache protocol of FlowIRConcrete (every mutator with the invalidation the code performs) keeps
   Coherent / QueryFresh / Private / QueryPure for every interleaving of queries and mutators (exhaustive for small
   constants), for exact and for over-approximating per-component invalidation (`Hits`), one and two stages.  The two
   deviations of the code that break the design (`LenientPoisons`, a `Hits` relation without self-hit) are run as
   expected-to-fail models, as are the vacuity witnesses.
2. spec -> code: TLC prints every transition of the breadth-first graph up to a depth (all histories of <= 3 calls
   from three base descriptions, every call path of every mutator, seven query flavours, two platforms, two
   components) and `-simulate` behaviours (depth 40-60).  An edge cover of that graph is executed on a live
   FlowIRConcrete + FlowIRExperimentConfiguration in several *worlds* (concrete component names with adversarial
   relations); after EVERY call: outcome = spec, query result = from-scratch real resolution (full dictionary),
   description = spec D, every real cache entry = from-scratch resolution, cached keys = spec (harness/c08_live.py).
3. code -> spec: driver-chosen random histories are executed and recorded on the real objects; TLC
   (ConfigCache_trace.tla) follows each recorded history through the spec's actions and compares every recorded
   result and state; a rejected step is triaged with the from-scratch oracle.
   The model covers options whose resolved value is DERIVED from another option (repeatInterval -> isRepeat, which the
   description also stores; interpreter -> expandArguments) with mutators of the source option through every call path, and
   a platform that does not exist initially and is created on demand by the platform-variable setters.
4. self-test: three in-process mutations of the anchored code (a dropped clear(), a cache hit without deep copy, a
   cache that ignores `raw`) must each be reported.
"""
import json
import multiprocessing
import os
import threading
import pickle
import random
import re
import shutil
import time
from concurrent.futures import ThreadPoolExecutor

from ..common import Check, MachineryError, SPEC, seed
from .. import tlc
from .. import c08_live as L

PID = "C08"
GEN = os.path.join(SPEC, "gen")
ALL_FLAVOURS = ["full", "raw", "nodef", "rawnodef", "prim", "noinj", "lenient"]
ALL_TEMPLATES = ["T1", "T2", "T3", "T4", "T5", "T6", "T7", "T8", "T9"]
BASIC_TEMPLATES = ("T1", "T2", "T3", "T4", "T5", "T6")
ALL_EDITS = ("aL", "aR", "v1", "v2", "v-")
ALIAS = dict(edits=ALL_EDITS, addhows=("api", "ref"))
ALL_PEEKS = ("varrefs", "getopt", "nodevars", "validate", "instance", "replicate")
P3 = ("default", "p1", "p2")
DERIVED = dict(rivals=("0", "5"), ipvals=("B",))
ALL_ACTS = {"Peek", "ReplaceSame", "Query", "SetCompVar", "DelCompVar", "SetArgs", "SetNp", "DelNp", "SetRi", "DelRi", "SetIp", "DelIp", "SetGlobal", "SetStageVar",
            "SetPlatformGlobal", "SetPlatformStage", "InPlaceGlobal", "InPlaceStage", "AddComp", "ReplaceComp",
            "DeleteComp", "MutateReturned"}
ALL_KINDS = {"ok", "done", "ComponentUnknown", "VariableUnknown", "ConvertError", "ComponentExists", "KeyError", "PlatformUnknown"}
KNOWN_DEVIATION_KEYS = L.KNOWN_DEVIATIONS


def tla_set(xs):
    return "{" + ", ".join('"%s"' % x for x in xs) + "}"


def tla_value(v):
    """python (from JSON) -> TLA+ literal"""
    if isinstance(v, bool):
        return "TRUE" if v else "FALSE"
    if isinstance(v, int):
        return str(v)
    if isinstance(v, str):
        return '"%s"' % v
    if isinstance(v, dict):
        return "[" + ", ".join("%s |-> %s" % (k, tla_value(x)) for k, x in v.items()) + "]"
    if isinstance(v, (list, tuple)):
        return "<<" + ", ".join(tla_value(x) for x in v) + ">>"
    raise MachineryError("cannot render %r" % (v,))


def write_module(name, stages, hits, extends="ConfigCache", extra=""):
    """spec/gen/<name>.tla: the constants a cfg file cannot hold (functions, sequences)."""
    os.makedirs(GEN, exist_ok=True)
    body = ["---- MODULE %s ----" % name, "EXTENDS %s" % extends,
            'mcCompSeq == <<"c1", "c2">>',
            'mcStageOf == ("c1" :> %d @@ "c2" :> %d)' % (stages[0], stages[1]),
            'mcHits == ("c1" :> %s @@ "c2" :> %s)' % (tla_set(sorted(hits["c1"])), tla_set(sorted(hits["c2"]))),
            'mcPlatSeq == <<"default", "p1", "p2">>', extra, "===="]
    # several emission / simulation threads generate the module of one world while TLC processes of the same world are
    # parsing it: never truncate it in place
    path = os.path.join(GEN, name + ".tla")
    text = "\n".join(body) + "\n"
    try:
        with open(path) as f:
            if f.read() == text:
                return name
    except OSError:
        pass
    tmp = "%s.%d.%d.tmp" % (path, os.getpid(), threading.get_ident())
    with open(tmp, "w") as f:
        f.write(text)
    os.replace(tmp, path)
    return name


def write_cfg(name, vals=("1", "2"), flavours=ALL_FLAVOURS, templates=BASIC_TEMPLATES, bases=(0,), lenient_poisons=False,
              hows=("api", "conf", "ref"), howdel=("api", "conf"), emit=False, maxlevel=100, spec="Spec", view=True,
              invariants=("TypeOK", "Coherent"), properties=("QueryFresh", "Private", "QueryPure", "BypassPure"), constraint=None,
              extra_const="", plats=("default", "p1"), argvals=("L", "R"), npvals=None, rivals=(), ipvals=(), derived_frozen=False,
              edits=(), addhows=("api",), peeks=()):
    """plats: the platforms that are queried and addressed by the variable mutators ("p2" = the one created on demand)"""
    if npvals is None:
        npvals = tuple(vals) + ("R",)
    lines = ["CONSTANTS", "  CompSeq <- mcCompSeq", "  StageOf <- mcStageOf", "  Hits <- mcHits", "  PlatSeq <- mcPlatSeq",
             "  InitPlats = %s" % tla_set(L.INIT_PLATS), "  QueryPlats = %s" % tla_set(plats), "  MutPlats = %s" % tla_set(plats),
             "  SetArgVals = %s" % tla_set(argvals), "  SetNpVals = %s" % tla_set(npvals), "  RiVals = %s" % tla_set(rivals),
             "  IpVals = %s" % tla_set(ipvals), "  Edits = %s" % tla_set(edits), "  AddHows = %s" % tla_set(addhows), "  PeekKinds = %s" % tla_set(peeks), "  DerivedFrozen = %s" % ("TRUE" if derived_frozen else "FALSE"),
             "  Vals = %s" % tla_set(vals), "  Flavours = %s" % tla_set(flavours), "  Templates = %s" % tla_set(templates),
             "  BaseIds = {%s}" % ", ".join(str(b) for b in bases), "  LenientPoisons = %s" % ("TRUE" if lenient_poisons else "FALSE"),
             "  HowSet = %s" % tla_set(hows), "  HowDel = %s" % tla_set(howdel), "  Emit = %s" % ("TRUE" if emit else "FALSE"),
             "  MaxLevel = %d" % maxlevel, extra_const, "SPECIFICATION %s" % spec]
    if view:
        lines.append("VIEW %s" % (view if isinstance(view, str) else "View"))
    for i in invariants:
        lines.append("INVARIANT %s" % i)
    for p in properties:
        lines.append("PROPERTY %s" % p)
    if constraint:
        lines.append("CONSTRAINT %s" % constraint)
    lines.append("CHECK_DEADLOCK FALSE")
    path = os.path.join(GEN, name + ".cfg")
    with open(path, "w") as f:
        f.write("\n".join(lines) + "\n")
    return path


def tlc_run(module, cfg, **kw):
    """One retry: a JVM that is killed or runs out of memory on a busy machine fails again only if the model is at fault."""
    try:
        return tlc.run_tlc(module, cfg, specdir=GEN, jvm=["-DTLA-Library=%s" % SPEC], **kw)
    except MachineryError:
        time.sleep(2)
        return tlc.run_tlc(module, cfg, specdir=GEN, jvm=["-DTLA-Library=%s" % SPEC], **kw)


# ------------------------------------------------------------------------------------------------------
# the invalidation relation of the real code, per world
def probe_hits(runner, wid):
    """Which components' entries does FlowIRConcrete.invalidate_cache_for_component(c) remove?  Observed on the real code
    with one dummy entry per (component, platform) under the documented key component:<platform>:stage<i>:<name>."""
    w = runner.world(wid)
    code = w.plain_code()
    hits, errors = {}, {}
    for l in w.labels:
        conc = runner.FL.FlowIRConcrete(w.render(code), "default", {})
        keys = {}
        for l2 in w.labels:
            for p in L.PLATS:
                k = "component:%s:stage%s:%s" % ((p,) + w.cid[l2])
                conc._cache[k] = {}
                keys[k] = l2
        try:
            conc.invalidate_cache_for_component(w.cid[l])
        except Exception as e:
            errors[l] = type(e).__name__
        left = {keys[k] for k in conc._cache.keys() if k in keys}
        hits[l] = {x for x in w.labels if x not in left}
    return hits, errors


U = L.U


# ------------------------------------------------------------------------------------------------------
# edge cover of the emitted graph
def make_walks(edges, maxlen=80):
    """edges: list of {"f","a","t"} in TLC's breadth-first order.  Returns (init, walks) where a walk is a list of edge
    indices starting at init and every edge is on at least one walk."""
    if not edges:
        raise MachineryError("TLC emitted no transitions")
    init = edges[0]["f"]
    out = {}
    for i, e in enumerate(edges):
        out.setdefault(e["f"], []).append(i)
    path = {init: []}
    order = [init]
    qi = 0
    while qi < len(order):
        s = order[qi]
        qi += 1
        for i in out.get(s, ()):
            t = edges[i]["t"]
            if t not in path:
                path[t] = path[s] + [i]
                order.append(t)
    covered = [False] * len(edges)
    ptr = {s: 0 for s in out}
    walks = []

    def next_uncovered(s, loops):
        lst = out.get(s, ())
        for i in lst:
            if not covered[i] and (edges[i]["t"] == s) == loops:
                return i
        return None

    for s in order:
        if s not in out:
            continue
        while any(not covered[i] for i in out[s]):
            walk = list(path[s])
            for i in walk:
                covered[i] = True
            cur = s
            while len(walk) < maxlen:
                while True:
                    i = next_uncovered(cur, True)
                    if i is None:
                        break
                    covered[i] = True
                    walk.append(i)
                i = next_uncovered(cur, False)
                if i is None:
                    break
                covered[i] = True
                walk.append(i)
                cur = edges[i]["t"]
            walks.append(walk)
    return init, walks


# ------------------------------------------------------------------------------------------------------
# execution on the real code: a fork pool created before any thread exists; runs are handed over as pickle files
_RUNS = {}
_RUNNER = None
_POOL = None
_LOADED = {}


def _load(rid):
    """a run: from the table of this process (int id) or from the pickle file written by the parent (path)"""
    if isinstance(rid, int):
        return _RUNS[rid]
    if rid not in _LOADED:
        _LOADED.clear()
        with open(rid, "rb") as f:
            _LOADED[rid] = pickle.load(f)
    return _LOADED[rid]


def _runner():
    global _RUNNER
    if _RUNNER is None:
        _RUNNER = L.Runner()
    return _RUNNER


def _work(task):
    rid, lo, hi = task
    r = _load(rid)
    runner = _runner()
    agg = {"executed": 0, "planned": 0, "queries": 0, "hits": 0, "findings": [], "drift": [], "walks": 0, "ndrift": 0}
    for wi in range(lo, hi):
        steps = r["walks"][wi]
        if r["edges"] is not None:
            steps = [r["edges"][i] for i in steps]
        active = L.ACTIVE[(wi + r["flip"]) % 2]
        res = runner.run_walk(r["world"], active, r["init"], steps, widx=wi, track=r.get("track", False))
        agg["executed"] += res["executed"]
        agg["queries"] += res["queries"]
        agg["hits"] += res["hits"]
        agg["walks"] += 1
        agg["ndrift"] += len(res["drift"])
        if len(agg["drift"]) < 5:
            agg["drift"] += res["drift"][:5]
        agg["planned"] += len(steps)
        for f in res["known"] + ([res["finding"]] if res["finding"] else []):
            if len(agg["findings"]) < 60:
                agg["findings"].append(f)
            else:
                agg["findings"].append({"kind": f["kind"], "key": f["key"], "what": f["what"][:300], "step": f["step"], "replay": None})
    return agg


def plan_coverage(edges, walks):
    """Coverage of the planned histories: the calls, and  query(stores an entry) -> mutator -> query  triples."""
    calls, triples = set(), set()
    for wlk in walks:
        steps = [edges[i] for i in wlk] if edges is not None else wlk
        n = len(steps)
        for i in range(n):
            a = steps[i]["a"]
            calls.add((a["act"], a["how"], a["ret"]["kind"], a["hit"]))
            if i + 2 < n and a["act"] == "Query" and a["x"] == "full" and a["ret"]["kind"] == "ok" and not a["hit"]:
                m, q = steps[i + 1]["a"], steps[i + 2]["a"]
                if m["act"] not in ("Query", "MutateReturned") and q["act"] == "Query":
                    triples.add(((a["c"], a["p"]), (m["act"], m["c"], m["p"], m["st"], m["x"], m["how"]), (q["c"], q["p"], q["x"])))
    return calls, triples


def execute(chk, rid, stats, nproc=14):
    """Executes all walks of run rid on the real code; reports findings; returns aggregated statistics."""
    r = _RUNS[rid]
    n = len(r["walks"])
    if n == 0:
        return
    chunk = max(1, min(400, n // (nproc * 4) + 1))
    if _POOL is not None and n > 50:
        path = os.path.join(chk.scratch, "run_%d.pickle" % rid)
        with open(path, "wb") as f:
            pickle.dump(r, f, protocol=4)
        tasks = [(path, lo, min(n, lo + chunk)) for lo in range(0, n, chunk)]
        results = _POOL.map(_work, tasks, chunksize=1)
        os.remove(path)
    else:
        results = [_work((rid, lo, min(n, lo + chunk))) for lo in range(0, n, chunk)]
    world = r["world"]
    st = stats[world]
    for agg in results:
        st["steps"] += agg["executed"]
        st["planned_steps"] += agg["planned"]
        st["walks"] += agg["walks"]
        st["queries"] += agg["queries"]
        st["cache_hits"] += agg["hits"]
        chk.trace_validated(agg["walks"])
        for f in agg["findings"]:
            if f["kind"] == "violation":
                st["violations"] += 1
                stats.setdefault("_findings", []).append((f["key"], f["what"], f["replay"]))
            else:
                stats.setdefault("_drift", []).append((world, f["key"], f["what"]))
        if agg["ndrift"]:
            st["drift"] += agg["ndrift"]
            stats.setdefault("_keydrift", []).extend((world, d) for d in agg["drift"])
    # distinct cases = distinct transitions executed
    if r["edges"] is not None:
        for e in r["edges"]:
            a = e["a"]
            chk.evaluated((world, e["f"], a["act"], a["c"], a["p"], a["st"], a["x"], a["how"]))
    else:
        for wlk in r["walks"]:
            for s in wlk:
                a = s["a"]
                chk.evaluated((world, s["t"], a["act"], a["c"], a["p"], a["st"], a["x"], a["how"]))


# ------------------------------------------------------------------------------------------------------
def behaviours_from_simulation(cases):
    """EmitState lines of a -simulate run with ONE initial state -> list of behaviours (lists of {"a","t"})."""
    init = None
    out, cur = [], None
    for c in cases:
        if c["l"] == 1:
            init = c["t"]
            continue
        if c["l"] == 2:
            cur = []
            out.append(cur)
        cur.append({"a": c["a"], "t": c["t"]})
    if init is None:
        raise MachineryError("simulation printed no initial state")
    return init, out


def alphabet(w, flavours=ALL_FLAVOURS):
    """The calls of ConfigCache.tla's Next for world w (without MutateReturned): (queries, mutators)."""
    queries, muts = [], []
    for c in w.labels:
        for p in L.PLATS:
            for f in flavours:
                queries.append(dict(act="Query", c=c, p=p, st=-1, x=f, how=U))
        for x in ("1", "2"):
            for h in ("api", "conf", "ref"):
                muts.append(dict(act="SetCompVar", c=c, p=U, st=-1, x=x, how=h))
        for h in ("api", "conf"):
            for act in ("DelCompVar", "DelNp", "DelRi", "DelIp"):
                muts.append(dict(act=act, c=c, p=U, st=-1, x=U, how=h))
        for h in ("api", "conf", "ref"):
            for act, xs in (("SetArgs", ("L", "R")), ("SetNp", ("1", "2", "R")), ("SetRi", ("0", "5")), ("SetIp", ("B",))):
                for x in xs:
                    muts.append(dict(act=act, c=c, p=U, st=-1, x=x, how=h))
        for t in ALL_TEMPLATES:
            muts.append(dict(act="AddComp", c=c, p=U, st=-1, x=t, how="api"))
            muts.append(dict(act="AddComp", c=c, p=U, st=-1, x=t, how="ref"))
            muts.append(dict(act="ReplaceComp", c=c, p=U, st=-1, x=t, how="api"))
        for e in ALL_EDITS:
            muts.append(dict(act="ReplaceSame", c=c, p=U, st=-1, x=e, how="api"))
        muts.append(dict(act="DeleteComp", c=c, p=U, st=-1, x=U, how="api"))
    for x in ("1", "2"):
        muts.append(dict(act="SetGlobal", c=U, p="default", st=-1, x=x, how="api"))
        for s in w.stage_seq:
            muts.append(dict(act="SetStageVar", c=U, p="default", st=s, x=x, how="api"))
    for p in L.PLATS:
        for x in ("1", "2", U):
            if x != U:
                muts.append(dict(act="SetPlatformGlobal", c=U, p=p, st=-1, x=x, how="api"))
            muts.append(dict(act="InPlaceGlobal", c=U, p=p, st=-1, x=x, how="ref"))
            for s in w.stage_seq:
                if x != U:
                    muts.append(dict(act="SetPlatformStage", c=U, p=p, st=s, x=x, how="api"))
                muts.append(dict(act="InPlaceStage", c=U, p=p, st=s, x=x, how="ref"))
    return queries, muts


def peek_calls(w):
    return [dict(act="Peek", c=c, p=U, st=-1, x=k, how=U) for c in w.labels for k in ALL_PEEKS]


MUTATE_RETURNED = dict(act="MutateReturned", c=U, p=U, st=-1, x=U, how=U)


def systematic_histories(w, three_step=True):
    """For EVERY mutator call: fill the cache with the four full queries, mutate, then ask every query (every flavour,
    both platforms, both components).  Plus the same with MutateReturned after a cache hit and after a miss."""
    queries, muts = alphabet(w)
    full = [q for q in queries if q["x"] == "full"]
    fill = full + [q for q in queries if q["x"] == "lenient"]         # every query that may store its answer
    after = [q for q in queries if q["x"] not in ("full", "lenient")] + fill + fill
    hs = [fill + [m] + after for m in muts]
    hs.append(fill + [fill[0], MUTATE_RETURNED] + after)                 # scribble over the copy handed out on a hit
    hs.append([fill[1], MUTATE_RETURNED] + after)                        # ... and on a miss (the value that was stored)
    hs.append(fill + [fill[-1], MUTATE_RETURNED] + after)                # ... and over a lenient answer taken from the cache
    hs.append(fill + [queries[1], MUTATE_RETURNED] + after)              # ... and over a raw result
    # cache warm -> component-level update -> a call that reads the configuration WITHOUT the cache (every bypassing query
    # flavour is already in `after`; here the other entry points) -> the cacheable queries on every platform
    c1 = w.labels[0]
    peeks = [k for k in peek_calls(w) if k["c"] == c1]
    bypass = [q for q in queries if q["c"] == c1 and q["p"] == "default" and q["x"] not in ("full", "lenient")]
    for m in muts if three_step else ():
        if (m["c"] == c1 and m["act"] in L.COMP_SCOPED and m["act"] != "ReplaceSame" and m["how"] == "api"
                and m["x"] not in ("T3", "T4", "T5", "T6", "T9", "2")):
            for k in peeks + bypass:
                hs.append(fill + [m, k] + fill)
    # a platform created on demand, through either scope, followed by the in-place getters of the other scope
    newp = L.PLATS[-1]
    create = [m for m in muts if m["p"] == newp and m["act"] in ("SetPlatformGlobal", "SetPlatformStage") and m["x"] == "2"]
    touch = [m for m in muts if m["p"] == newp and m["act"] in ("InPlaceGlobal", "InPlaceStage", "SetPlatformGlobal", "SetPlatformStage") and m["x"] != "2"]
    for m1 in create:
        for m2 in touch:
            hs.append(fill + [m1] + fill + [m2] + after)
    # update_component twice: (i) a fresh equal definition, (ii) a fresh different one, (iv) one that is equal under == but not
    # in type (T7/T8/T9), and (iii) the same object again after an in-place edit of a nested section -- each after the cache
    # was filled, followed by every query
    repl = {m["x"]: m for m in muts if m["act"] == "ReplaceComp" and m["c"] == c1}
    same = [m for m in muts if m["act"] == "ReplaceSame" and m["c"] == c1]
    for t1 in ("T1", "T2", "T7", "T8", "T9"):
        for t2 in ("T1", "T2", "T7", "T8", "T9"):
            hs.append([repl[t1]] + fill + [repl[t2]] + after)
    for t1 in ("T1", "T2", "T8"):
        for m in same:
            hs.append([repl[t1]] + fill + [m] + after)
            hs.append([repl[t1]] + fill + [m] + fill + [m] + after)
    dele = dict(act="DeleteComp", c=c1, p=U, st=-1, x=U, how="api")
    for t1 in ("T2", "T8"):
        add = [m for m in muts if m["act"] == "AddComp" and m["c"] == c1 and m["x"] == t1 and m["how"] == "ref"][0]
        for m in same:
            hs.append([dele, add] + fill + [m] + after)
    # an absent component: delete, then every mutator on it is an error and every query must fail (not be served from the cache)
    for c in w.labels:
        d = dict(act="DeleteComp", c=c, p=U, st=-1, x=U, how="api")
        hs.append(fill + [d] + [m for m in muts if m["c"] == c and m["act"] != "AddComp"] + after)
    return hs


def random_histories(w, n, length, rng):
    """Call sequences chosen by the driver (MutateReturned is inserted while recording, when a result is held)."""
    queries, muts = alphabet(w)
    muts = muts + peek_calls(w)
    full = [a for a in queries if a["x"] in ("full", "lenient")]
    hs = []
    for t in range(n):
        h = []
        for i in range(length):
            r = rng.random()
            if r < 0.08:
                h.append(MUTATE_RETURNED)
            elif r < 0.35:
                h.append(rng.choice(full))
            elif r < 0.5:
                h.append(rng.choice(queries))
            else:
                h.append(rng.choice(muts))
        hs.append(h)
    return hs


def _record(task):
    """Worker: executes call sequences on the real code and RECORDS call, projected result and projected state."""
    wid, base_code, lo, histories = task
    runner = _runner()
    w = runner.world(wid)
    traces = []
    for t, h in enumerate(histories):
        live = L.Live(runner.FL, runner.CONF, w, base_code, L.ACTIVE[(lo + t) % 2], runner.conf_pool)
        steps = []
        for i, call in enumerate(h):
            if call["act"] == "MutateReturned" and live.handed is None:
                continue
            if call["act"] == "ReplaceSame" and call["c"] not in live.held:
                continue
            a = dict(call)
            kind, res = live.apply(a, variant=lo + t + i)
            a["hit"] = False
            a["ret"] = dict(kind=kind, **(L.project_result(res) if kind == "ok" else L.NO_RESULT))
            keys = live.cache_keys()
            code = "%s|%s|%s" % (w.project_description(live.concrete.raw(), live.held), w.cache_code(set(keys.values())),
                                 live.handed_kind)
            steps.append({"a": a, "t": code})
            if kind.startswith("error:") or "?" in code:
                break            # the spec cannot express what follows; TLC rejects this step and the triage decides
        traces.append(steps)
    return traces


def record(wid, base_code, histories):
    n = len(histories)
    chunk = max(1, n // 28 + 1)
    tasks = [(wid, base_code, lo, histories[lo:lo + chunk]) for lo in range(0, n, chunk)]
    if _POOL is not None and n > 8:
        parts = _POOL.map(_record, tasks, chunksize=1)
    else:
        parts = [_record(t) for t in tasks]
    return [t for part in parts for t in part]


# ------------------------------------------------------------------------------------------------------
class Mutation:
    """In-process mutation of the anchored code for the self-test (restored on exit)."""

    def __init__(self, which):
        self.which = which

    def __enter__(self):
        import experiment.model.frontends.flowir as FL
        self.FL = FL
        if self.which == "drop-clear-in-set_stage_variable":
            self.orig = FL.FlowIRConcrete.set_stage_variable

            def set_stage_variable(this, stage_index, variable, value):
                this._flowir[FL.FlowIR.FieldVariables][FL.FlowIR.LabelDefault][FL.FlowIR.LabelStages][stage_index][variable] = value
            FL.FlowIRConcrete.set_stage_variable = set_stage_variable
        elif self.which == "cache-hit-without-deep-copy":
            self.orig = FL.FlowIRCache.get

            def get(this, reference):
                return this._cache[reference]
            FL.FlowIRCache.get = get
        elif self.which == "update_component-without-invalidation":
            self.orig = FL.FlowIRConcrete.invalidate_cache_for_component
            FL.FlowIRConcrete.invalidate_cache_for_component = lambda this, comp_id: None
        return self

    def __exit__(self, *a):
        FL = self.FL
        if self.which == "drop-clear-in-set_stage_variable":
            FL.FlowIRConcrete.set_stage_variable = self.orig
        elif self.which == "cache-hit-without-deep-copy":
            FL.FlowIRCache.get = self.orig
        else:
            FL.FlowIRConcrete.invalidate_cache_for_component = self.orig


def selftest(rid):
    """Each mutation must produce a violation on walks of run rid that contain the mutated call (executed in this process)."""
    r = _RUNS[rid]
    missed = []
    expect = {"drop-clear-in-set_stage_variable": ("SetStageVar", "SetStageVar"), "cache-hit-without-deep-copy": ("private:", "MutateReturned"),
              "update_component-without-invalidation": ("ReplaceComp", "ReplaceComp")}
    for which in sorted(expect):
        found = None
        keypart, act = expect[which]
        with Mutation(which):
            runner = L.Runner()
            tried = 0
            for wi, wlk in enumerate(r["walks"]):
                steps = [r["edges"][i] for i in wlk]
                if not any(s["a"]["act"] == act for s in steps):
                    continue
                tried += 1
                res = runner.run_walk(r["world"], L.ACTIVE[wi % 2], r["init"], steps, widx=wi, track=r.get("track", False))
                if res["finding"] and res["finding"]["kind"] == "violation" and keypart in res["finding"]["key"]:
                    found = res["finding"]["key"]
                    break
                if tried >= 1500:
                    break
        if not found:
            missed.append(which)
    return missed


# ------------------------------------------------------------------------------------------------------
def design_runs(chk, tier):
    """TLC on the design.  Returns list of short descriptions."""
    over = {"c1": {"c1", "c2"}, "c2": {"c2"}}
    exact = {"c1": {"c1"}, "c2": {"c2"}}
    noself = {"c1": {"c2"}, "c2": {"c2"}}
    write_module("ConfigCache_over", (0, 0), over)
    write_module("ConfigCache_exact", (0, 0), exact)
    write_module("ConfigCache_twostage", (0, 1), exact)
    write_module("ConfigCache_noself", (0, 0), noself)
    # the call paths (`how`) only differ in `last`, and `handed` only enables MutateReturned (which changes nothing): the design
    # runs use one call path and the view <<D, cache>>
    api = dict(hows=("api",), howdel=("api",), view="DesignView")
    cached = ("full", "lenient", "raw")
    jobs = []   # (label, module, cfg, expect_violation, workers, coverage)
    if tier == "quick":
        jobs.append(("over-hit, T2/T5", "ConfigCache_over", write_cfg("CC_d1_q", vals=("1",), templates=("T2", "T5"), flavours=cached, **api), None, 8, False))
        jobs.append(("exact, T4", "ConfigCache_exact", write_cfg("CC_d2_q", vals=("1",), templates=("T4",), flavours=ALL_FLAVOURS, **api), None, 8, False))
        jobs.append(("two stages, no templates", "ConfigCache_twostage", write_cfg("CC_d3_q", vals=("1",), templates=(), flavours=cached, **api), None, 8, False))
    else:
        jobs.append(("over-hit, all templates", "ConfigCache_over", write_cfg("CC_d1_t", vals=("1",), templates=("T1", "T2", "T3", "T4", "T5"), **api), None, 16, False))
        jobs.append(("exact, two values, T2", "ConfigCache_exact", write_cfg("CC_d2_t", vals=("1", "2"), templates=("T2",), flavours=cached, **api), None, 16, False))
        jobs.append(("two stages, T2/T5", "ConfigCache_twostage", write_cfg("CC_d3_t", vals=("1",), templates=("T2", "T5"), flavours=cached, **api), None, 16, False))
    # derived options (repeatInterval -> isRepeat with its stored copy, interpreter -> expandArguments): every call path of the
    # source option, no variable setters; and the platform that is created on demand
    noargs = dict(argvals=(), npvals=())
    if tier == "quick":
        jobs.append(("derived options", "ConfigCache_exact", write_cfg("CC_d4_q", vals=(), templates=("T6",), flavours=("full", "raw", "noinj", "prim"),
                                                                        **noargs, **DERIVED, **api), None, 8, True))
        jobs.append(("platform created on demand", "ConfigCache_exact", write_cfg("CC_d5_q", vals=("1",), templates=(), flavours=("full", "nodef"),
                                                                                   plats=P3, **noargs, **api), None, 8, False))
    else:
        jobs.append(("derived options", "ConfigCache_over", write_cfg("CC_d4_t", vals=("1",), templates=("T6", "T2"), flavours=ALL_FLAVOURS,
                                                                       plats=("default",), **noargs, **DERIVED, **api), None, 16, True))
        jobs.append(("platform created on demand, two stages", "ConfigCache_twostage", write_cfg("CC_d5_t", vals=("1",), templates=(), flavours=("full", "nodef", "raw"),
                                                                                               plats=P3, **noargs, **api), None, 16, False))
    # update_component / add_component(insert_copy=False) share the caller's nested sections; resubmission of the same object after
    # an in-place edit; definitions that are equal under == (T7, T8, T9)
    jobs.append(("aliased definitions and == -equal replacements", "ConfigCache_exact",
                 write_cfg("CC_d6_%s" % tier[0], vals=(), templates=("T7", "T8") if tier == "quick" else ("T2", "T7", "T8", "T9"), flavours=cached,
                           argvals=(), npvals=("R",), **ALIAS, **api), None, 8, False))
    # expected-to-fail models: the deviations of the code, and the vacuity witnesses
    jobs.append(("deviation LenientPoisons", "ConfigCache_exact", write_cfg("CC_x1", vals=("1",), templates=("T5",), lenient_poisons=True, **api), "QueryFresh|Coherent", 2, False))
    jobs.append(("deviation Hits without self-hit", "ConfigCache_noself", write_cfg("CC_x2", vals=("1", "2"), templates=("T2",), **api), "QueryFresh|Coherent", 2, False))
    jobs.append(("deviation DerivedFrozen", "ConfigCache_exact", write_cfg("CC_x3", vals=(), templates=(), derived_frozen=True, **noargs, **DERIVED, **api), "QueryFresh", 2, False))
    for wname in ("NeverHit", "NeverErrQuery", "NeverFull"):
        jobs.append(("witness " + wname, "ConfigCache_exact", write_cfg("CC_w_" + wname, vals=("1",), templates=("T2",), view=False,
                                                                       invariants=(wname,), properties=(), hows=("api",), howdel=("api",)), wname, 2, False))
    out = []
    sequential = [j for j in jobs if j[3] is None]
    parallel = [j for j in jobs if j[3] is not None]

    def one(j):
        label, module, cfg, expect, workers, coverage = j
        return j, tlc_run(module, cfg, workers=workers, timeout=1500, coverage=coverage, expect_violation=expect is not None)

    with ThreadPoolExecutor(max_workers=5) as ex:
        futs = [ex.submit(one, j) for j in parallel]
        results = [one(j) for j in sequential] + [f.result() for f in futs]
    for (label, module, cfg, expect, workers, coverage), r in results:
        if expect is None:
            if not r["ok"]:
                raise MachineryError("ConfigCache.tla (%s): %s fails on the model:\n%s" % (label, r["violated"], r["out"][-2500:]))
            if coverage:
                zero = [k for k, v in r["coverage"].items() if v == 0 and k not in ("Init", "Next")]   # Next: disjuncts switched off by empty constants
                need = {"Query", "CompMutator", "DeleteComp", "AddComp", "SetGlobalVar", "SetStageVarOf", "MutateReturned"}
                if zero or not need <= set(r["coverage"]):
                    raise MachineryError("ConfigCache.tla (%s): vacuous actions %s / coverage table %s" % (label, zero, r["coverage"]))
            chk.add_tlc(r)
            out.append("%s: %d states, %d transitions, depth %s, %.0fs" % (label, r["distinct"], r["generated"], r["depth"], r["wall_s"]))
        else:
            if r["violated"] is None or not re.search(expect, str(r["violated"])):
                raise MachineryError("ConfigCache.tla (%s): expected %s to be violated, TLC says %s\n%s" % (label, expect, r["violated"], r["out"][-1500:]))
            out.append("%s: violated as expected (%s)" % (label, r["violated"]))
    return out


def emission(world, hits, base, maxlevel, tag, **consts):
    w = L.World(world)
    mod = write_module("ConfigCache_w_%s" % world, w.stages, hits)
    cfg = write_cfg("CC_e_%s_%d_%s" % (world, base, tag), bases=(base,), emit=True, maxlevel=maxlevel, spec="SpecE",
                    invariants=(), properties=(), constraint="LevelBound", **consts)
    r = tlc_run(mod, cfg, workers=1, timeout=1500)
    if not r["ok"]:
        raise MachineryError("edge emission failed for %s/%d: %s" % (world, base, r["out"][-1500:]))
    return r


def simulation(world, hits, base, num, depth, sd, **consts):
    w = L.World(world)
    mod = write_module("ConfigCache_w_%s" % world, w.stages, hits)
    cfg = write_cfg("CC_s_%s_%d" % (world, base), bases=(base,), emit=True, view=False,
                    invariants=("EmitState", "Coherent"), properties=("QueryFresh", "Private"), **consts)
    r = tlc_run(mod, cfg, workers=1, timeout=1500, simulate=num, depth=depth, seed=sd)
    if not r["ok"]:
        raise MachineryError("simulation failed for %s/%d: %s" % (world, base, r["out"][-1500:]))
    return r


def trace_tlc(world, hits, base, traces, tag):
    """TLC follows the recorded histories (ConfigCache_trace.tla)."""
    w = L.World(world)
    lit = "<<" + ",\n".join("[base |-> %d, steps |-> %s]" % (base, tla_value(t)) for t in traces) + ">>"
    mod = write_module("ConfigCache_tr_%s_%d_%s" % (world, base, tag), w.stages, hits, extends="ConfigCache_trace", extra="mcTraces == " + lit)
    cfg = write_cfg("CC_tr_%s_%d_%s" % (world, base, tag), bases=(base,), spec="TraceSpec", view=False, invariants=("Report", "Coherent"),
                    properties=("TraceQueryFresh", "TracePrivate"), extra_const="  Traces <- mcTraces", peeks=ALL_PEEKS, **ALIAS)
    r = tlc_run(mod, cfg, workers=1, timeout=1500, expect_violation=True)
    if r["violated"] is not None:
        # the spec's own invariants cannot fail on a followed behaviour unless the model is broken
        raise MachineryError("trace validation: %s violated inside the spec while following a recorded history\n%s" % (r["violated"], r["out"][-2000:]))
    return r


def trace_verdicts(chk, runner, world, base, base_code, traces, r, stats):
    """accepted = TLC followed the whole history and every recorded result and state equals the spec's; a rejected history
    is triaged by replaying it with the SPEC's values through the per-step checks (from-scratch oracle)."""
    reached, bad, spec_steps = {}, {}, {}
    for c in r["cases"]:
        t = c["tid"] - 1
        reached[t] = max(reached.get(t, 0), c["pos"])
        spec_steps.setdefault(t, {})[c["pos"]] = {"a": c["a"], "t": c["t"]}
        if not (c["retOk"] and c["codeOk"]) and (t not in bad or c["pos"] < bad[t]):
            bad[t] = c["pos"]
    accepted = rejected = 0
    for t, steps in enumerate(traces):
        n = len(steps)
        ok = reached.get(t, 0) == n and t not in bad
        chk.trace_validated(1)
        chk.evaluated(("trace", world, base, tuple(L.describe(s["a"]) for s in steps)), n=n)
        if ok:
            accepted += 1
            continue
        rejected += 1
        upto = bad.get(t, reached.get(t, 0) + 1)
        sp = [spec_steps[t][i] for i in range(1, reached.get(t, 0) + 1)]
        res = runner.run_walk(world, L.ACTIVE[t % 2], base_code, sp, widx=t, track=True)
        fs = res["known"] + ([res["finding"]] if res["finding"] else [])
        for f in fs:
            if f["kind"] == "violation":
                stats[world]["violations"] += 1
                stats.setdefault("_findings", []).append((f["key"], "recorded history rejected by TLC at step %d: %s" % (upto, f["what"]), f["replay"]))
            else:
                stats.setdefault("_drift", []).append((world, f["key"], f["what"]))
        if not fs:
            what = "history %d rejected at step %d (%s: recorded %s / %s) but the replay with the spec's values passes" % (
                t, upto, L.describe(steps[min(upto, n) - 1]["a"]), steps[min(upto, n) - 1]["a"]["ret"], steps[min(upto, n) - 1]["t"])
            if res["drift"]:
                stats.setdefault("_keydrift", []).extend((world, d) for d in res["drift"])
            else:
                stats.setdefault("_drift", []).append((world, "trace", what))
    chk.add_tlc(r)
    return accepted, rejected


# ------------------------------------------------------------------------------------------------------
def run_check(tier):
    global _POOL
    chk = Check(PID, tier)
    thorough = tier == "thorough"
    runner = _runner()                      # imports the package before the fork
    sd = seed()
    nproc = int(os.environ.get("VERIF_C08_PROCS", "14"))
    if nproc > 1:
        _POOL = multiprocessing.get_context("fork").Pool(nproc)
    try:
        return _run_check(chk, tier, thorough, runner, sd)
    finally:
        if _POOL is not None:
            _POOL.terminate()
            _POOL = None
        shutil.rmtree(chk.scratch, ignore_errors=True)


def _run_check(chk, tier, thorough, runner, sd):
    t0 = time.time()
    phases = []

    def phase(name):
        phases.append("%s@%.0fs" % (name, time.time() - t0))
        if os.environ.get("VERIF_C08_DEBUG"):
            print("phase", phases[-1], flush=True)

    # 0. the real invalidation relation per world
    worlds = ["prefix", "dot", "stage", "loop", "plus", "paren"]
    hits, hit_errors, selfhit = {}, {}, {}
    for wid in worlds:
        h, err = probe_hits(runner, wid)
        hit_errors[wid] = err
        selfhit[wid] = all(l in h[l] for l in h) and not err
        hits[wid] = {l: set(h[l]) | {l} for l in h}        # the design needs the self-hit; over-hits are modelled as observed
    stats = {w: {"steps": 0, "planned_steps": 0, "walks": 0, "queries": 0, "cache_hits": 0, "drift": 0, "violations": 0} for w in worlds}
    small = dict(flavours=("full", "raw", "lenient"), templates=("T2", "T5"))
    everything = dict(plats=P3, templates=ALL_TEMPLATES, peeks=ALL_PEEKS, **DERIVED, **ALIAS)
    alias = dict(flavours=("full", "raw", "lenient"), templates=("T2", "T7", "T8", "T9"), argvals=(), npvals=("R",), vals=("1",),
                 hows=("api",), howdel=("api",), **ALIAS)
    derived = dict(flavours=("full", "prim", "noinj"), templates=("T6",), argvals=(), npvals=(), vals=("1",), **DERIVED)
    newplat = dict(flavours=("full", "nodef"), templates=(), argvals=(), npvals=(), plats=P3, hows=("api",), howdel=("api",))
    plan = []   # (world, base, maxlevel, tag, consts)
    if not thorough:
        plan += [("prefix", 0, 3, "full", dict(flavours=("full", "raw", "lenient"), peeks=ALL_PEEKS)), ("prefix", 1, 3, "small", small),
                 ("stage", 0, 3, "small", dict(small, hows=("api", "ref"), howdel=("api",))), ("dot", 0, 3, "small", dict(small, hows=("api", "ref"), howdel=("api",))),
                 ("loop", 1, 3, "small", dict(small, hows=("conf",), howdel=("conf",))),
                 ("plus", 0, 3, "small", dict(small, hows=("api",), howdel=("api",))), ("paren", 0, 2, "small", small),
                 ("prefix", 2, 3, "derived", derived), ("prefix", 0, 3, "newplat", newplat), ("stage", 1, 3, "newplat", newplat),
                 ("prefix", 0, 3, "alias", alias)]
        sim_worlds, (nsim, depth) = ("prefix", "stage"), (60, 40)
        tr_plan = [("prefix", 0), ("prefix", 1), ("prefix", 2), ("stage", 0), ("loop", 1), ("plus", 0)]
        ntr, ltr = 16, 40
    else:
        plan += [("prefix", 0, 3, "full", dict(everything, flavours=("full", "raw", "lenient", "noinj"))), ("prefix", 1, 3, "full", {}), ("prefix", 2, 3, "full", dict(plats=P3, **DERIVED))]
        plan += [("stage", b, 3, "full", {}) for b in (0, 1, 2)]
        plan += [("stage", 2, 3, "derived", derived), ("stage", 0, 3, "newplat", dict(newplat, hows=("api", "conf", "ref"), howdel=("api", "conf"), templates=("T2",))),
                 ("loop", 1, 3, "newplat", newplat), ("dot", 2, 3, "derived", derived), ("stage", 0, 3, "alias", alias), ("dot", 1, 3, "alias", alias)]
        plan += [("dot", 0, 3, "full", {}), ("loop", 0, 3, "full", {}), ("loop", 1, 3, "small", small)]
        plan += [("prefix", 0, 4, "deep", dict(flavours=("full", "lenient"), templates=("T5",), hows=("api",), howdel=("api",), vals=("2",)))]
        plan += [("plus", 0, 3, "small", small), ("plus", 1, 3, "small", small), ("paren", 0, 3, "small", small)]
        sim_worlds, (nsim, depth) = ("prefix", "stage", "dot", "loop"), (300, 60)
        tr_plan = [(w, b) for w in ("prefix", "stage", "dot", "loop", "plus") for b in (0, 1, 2)]
        ntr, ltr = 150, 60
    with ThreadPoolExecutor(max_workers=1) as bg, ThreadPoolExecutor(max_workers=6) as ex:
        # 1. design (TLC, many workers) in the background
        design_future = bg.submit(design_runs, chk, tier)
        # 2. spec -> code: emission and simulation runs of TLC (one worker each) in parallel threads
        futs = [(p, ex.submit(emission, p[0], hits[p[0]], p[1], p[2], p[3], **p[4])) for p in plan]
        sims = [((wid, b), ex.submit(simulation, wid, hits[wid], b, nsim, depth, sd + b, **everything)) for wid in sim_worlds for b in (0, 1, 2)]
        # 3. code -> spec: record driver-chosen histories on the real code, TLC follows them
        rng = random.Random(sd * 7919 + 17)
        trs = []
        nsys = 0
        for wid, b in tr_plan:
            w = runner.world(wid)
            base_code = w.base_code(b)
            hs = systematic_histories(w, three_step=thorough or (wid, b) in (("prefix", 0), ("stage", 0)))
            nsys += len(hs)
            hs += random_histories(w, ntr, ltr, rng)
            traces = record(wid, base_code, hs)
            trs.append((wid, b, base_code, traces, ex.submit(trace_tlc, wid, hits[wid], b, traces, tier)))
        phase("recorded")
        rid = 0
        first_full = None
        calls = set()
        for p, fut in futs:
            r = fut.result()
            edges = r["cases"]
            init, walks = make_walks(edges)
            if init != L.World(p[0]).base_code(p[1]):
                raise MachineryError("base description %s of the spec is %s, the driver expects %s" % (p[1], init, L.World(p[0]).base_code(p[1])))
            rid += 1
            _RUNS[rid] = {"world": p[0], "init": init, "edges": edges, "walks": walks, "flip": rid, "track": bool(p[4].get("edits"))}
            chk.add_tlc(r)
            execute(chk, rid, stats)
            stats[p[0]].setdefault("runs", []).append("%s base %d depth %d (%s): %d transitions, %d walks" % (p[0], p[1], p[2], p[3], len(edges), len(walks)))
            if p[0] == "prefix":
                c_, t_ = plan_coverage(edges, walks)
                calls |= c_
            if first_full is None and p[0] == "prefix" and p[3] == "full":
                first_full = rid
            else:
                _RUNS[rid] = None
            phase("edges %s/%d" % (p[0], p[1]))
        # vacuity of the emitted alphabet (all runs of world prefix together)
        acts = {c[0] for c in calls}
        kinds = {c[2] for c in calls}
        if acts != ALL_ACTS or not ALL_KINDS <= kinds or not any(c[3] for c in calls):
            raise MachineryError("emitted transitions do not cover the alphabet: missing actions %s, kinds %s, cache hit seen %s"
                                 % (sorted(ALL_ACTS - acts), sorted(ALL_KINDS - kinds), any(c[3] for c in calls)))
        for (wid, b), fut in sims:
            r = fut.result()
            init, behs = behaviours_from_simulation(r["cases"])
            rid += 1
            _RUNS[rid] = {"world": wid, "init": init, "edges": None, "walks": behs, "flip": rid, "track": True}
            chk.add_tlc(r)
            execute(chk, rid, stats)
            stats[wid].setdefault("runs", []).append("%s base %d: %d simulated behaviours of depth %d" % (wid, b, len(behs), depth))
            _RUNS[rid] = None
        phase("simulated")
        tv = []
        for wid, b, base_code, traces, fut in trs:
            acc, rej = trace_verdicts(chk, runner, wid, b, base_code, traces, fut.result(), stats)
            tv.append("%s base %d: %d recorded histories (%d calls) accepted by TLC, %d rejected" % (wid, b, acc, sum(len(t) for t in traces), rej))
        phase("traces")
        # 4. self-test of the binding
        missed = selftest(first_full)
        if missed:
            raise MachineryError("self-test: in-process mutations not detected: %s" % missed)
        phase("selftest")
        design = design_future.result()
        phase("design")
    # report: violations outside the named deviations of the code first (only the first 20 are printed, the first 50 get a replay file)
    findings = stats.pop("_findings", [])
    findings.sort(key=lambda f: f[0] in KNOWN_DEVIATION_KEYS)
    hist = {}
    for key, what, rp in findings:
        hist[key] = hist.get(key, 0) + 1
        if hist[key] <= 25 or key not in KNOWN_DEVIATION_KEYS:
            chk.violation(key, what, rp)
    chk.cov["violation_keys"] = hist
    # verdict on model drift
    drift = stats.pop("_drift", [])
    keydrift = stats.pop("_keydrift", [])
    # differences between the cached keys and the spec's are a NOTE: the property does not prescribe the cache's labelling; only
    # answers (queries, cache entries under the documented labels, probes) decide
    chk.cov["cache_key_notes"] = {"count": sum(st.get("drift", 0) for st in stats.values() if isinstance(st, dict)),
                                  "examples": ["%s: %s" % (d[0], d[1]["what"][:300]) for d in keydrift[:5]]}
    if keydrift:
        print("note: the cached keys differ from the model's in %d histories (not a verdict), e.g. %s" % (chk.cov["cache_key_notes"]["count"], chk.cov["cache_key_notes"]["examples"][0]))
    faithful = []
    chk.cov["worlds"] = {w: {"names": L.WORLDS[w]["names"], "stages": L.WORLDS[w]["stages"],
                             "invalidation_hits_observed": {k: sorted(v) for k, v in hits[w].items()},
                             "self_hit": selfhit[w], "invalidation_errors": hit_errors[w], **stats.get(w, {})} for w in worlds}
    chk.cov["design_runs"] = design
    chk.cov["trace_validation"] = tv
    chk.cov["systematic_query_mutator_query_histories"] = nsys
    chk.cov["selftest"] = "3 in-process mutations detected"
    chk.cov["phases"] = phases
    chk.cov["rule"] = ("spec->code: every transition of the breadth-first graph of ConfigCache.tla up to the stated depth from each base "
                       "description (edge cover = all histories of <= depth calls), per world; plus -simulate behaviours; "
                       "code->spec: recorded histories (for every mutator call: fill cache, mutate, every query; plus random ones) followed by "
                       "TLC; distinct = distinct (world, state, call) transitions and distinct recorded histories")
    chk.cov["exhaustive"] = True
    chk.assumptions += [
        "a reference obtained with return_copy=False is used at once (holding it across a query is outside the stated interface)",
        "one variable v, two components, platforms default and p1; options command.arguments and resourceRequest.numberProcesses",
        "FlowIRExperimentConfiguration is built once per (world, platform) and given the fresh FlowIRConcrete of each history (primitive=True)",
        "values passed to update_component/add_component are not modified by the caller afterwards (aliasing of arguments is not part of the property)",
        "the cache is inspected under the documented labels component:<platform>:stage<i>:<name>; entries under any other label are noted and the answers of every cacheable query (full, lenient) are then probed after every call; differences between the cached keys and the model's are a note, never a verdict",
        "after a violation that is a named deviation of the code (ConfigCache.tla: Hits without self-hit, LenientPoisons) the stale entry is dropped and the history continues; any other violation ends the history",
    ]
    if drift or faithful:
        msgs = ["%s: %s: %s" % d for d in drift[:5]] + ["%s: %s" % (d[0], d[1]["what"]) for d in faithful[:5]]
        if not chk.violations:          # (violations listed in known_findings.json do not excuse a drift)
            chk.finish()
            raise MachineryError("model drift (spec and code disagree without a property violation), %d+%d cases:\n  %s"
                                 % (len(drift), len(faithful), "\n  ".join(msgs)))
        print("note: %d model-drift observations next to the violations, e.g. %s" % (len(drift) + len(faithful), msgs[:2]))
    for wid in worlds:
        chk.sample({"world": wid, "names": L.WORLDS[wid]["names"], "steps": stats[wid]["steps"], "walks": stats[wid]["walks"],
                    "cache_hits": stats[wid]["cache_hits"], "violations": stats[wid]["violations"]}, limit=6)
    print("note: phases %s" % " ".join(phases))
    return chk.finish()


def run(tier):
    return run_check(tier)


def replay(path):
    d = json.load(open(path))
    chk = Check(PID, "quick")
    chk.replay_dir = os.path.join(chk.replay_dir, "replayed")      # do not overwrite the recorded cases
    os.makedirs(chk.replay_dir, exist_ok=True)
    rp = d["replay"]
    res = _runner().run_walk(rp["world"], rp["active"], rp["init"], rp["steps"], widx=rp.get("widx", 0), track=rp.get("track", False))
    for f in res["known"] + ([res["finding"]] if res["finding"] else []):
        if f["kind"] == "violation":
            chk.violation(f["key"], f["what"], f["replay"])
        else:
            print("model drift while replaying: %s" % f["what"])
    chk.evaluated(("replay", path), n=res["executed"])
    chk.trace_validated(1)
    return chk.finish()
