"""C20 -- Reported progress is a proper weighted fraction.  Spec: spec/Progress.tla

1. TLC: Normalise satisfies the C20 invariants for every weight assignment on the grid (<= MaxStages stages);
   the progress state machine keeps 0 <= Total <= 1, Total = 1 at the end, Total monotone.
2. spec -> code, weights: every (given, expected) case emitted by TLC is rendered to a FlowIR document
   (decimal strings, missing keys, junk) and loaded with the real FlowIRConcrete; get_status() weights are
   compared with the spec's Normalise.
3. spec -> code, progress: every loaded state of the state machine emitted by TLC is imposed on a real
   StatusMonitor (real CheckStatus closure, real Controller.get_stage_status) through a stub controller and
   Status.totalProgress() is compared with the spec's Total.
4. loops: the same on real packages in which one stage hosts a DoWhile loop ($import of a DoWhile document; 2 plain
   components + one looped component per iteration; iterations are instantiated by the real
   Controller._instantiate_next_dowhile_iteration): the controller at every position (before / in / past the loop's stage, at
   the end, restarted past it), quiet (check_progress) and with a controller action during CheckStatus (check_interleavings).
"""
import json
import os
import threading
import types

from ..common import Check, MachineryError, SPEC
from .. import tlc

PID = "C20"
UNIT = 10000.0
DEN = 12            # Den of Progress.tla: stage progress in twelfths, totals in 1/(DEN*UNIT)
MISSING, MALFORMED = 999991, 999992

GRID_Q = "GridPos = {0, 9, 10, 1000, 2500, 3330, 3333, 3334, 3340, 4991, 4996, 5000, 5004, 5009, 7500, 10000, 10009, 15000}\n  GridNeg = {10, 5000}"


def _cfg(path, body):
    with open(path, "w") as f:
        f.write(body)
    return path


def render_weight(v):
    """ten-thousandths -> what a package author writes (a YAML float; junk for a malformed weight)"""
    if v == MALFORMED:
        return "not-a-number"
    if v == MISSING:
        return None
    return float("%s%d.%04d" % ("-" if v < 0 else "", abs(v) // 10000, abs(v) % 10000))


DOWHILE = {"type": "DoWhile", "inputBindings": {}, "loopBindings": {}, "condition": "loop/iteration.next:output",
           "components": [{"name": "loop", "command": {"executable": "echo", "arguments": "x"}}]}


def loop_stage(iters):
    """index (from 0) of the stage that hosts the loop, None without a loop"""
    pos = [i for i, k in enumerate(iters or []) if k > 0]
    if len(pos) > 1:
        raise MachineryError("Progress.tla emitted a state with more than one loop: %s" % (iters,))
    return pos[0] if pos else None


def flowir_for(n, given, loop=None):
    """4 plain components per stage; the stage hosting the loop: 2 plain components and the $import of the DoWhile document"""
    comps = []
    for i in range(n):
        if i == loop:
            comps.append({"name": "looper", "stage": i, "$import": "dowhile.yaml", "bindings": {}})
        comps += [{"name": "c%dk%d" % (i, k), "stage": i, "command": {"executable": "echo", "arguments": "x"}} for k in range(2 if i == loop else 4)]
    status = {}
    for i, v in enumerate(given):
        if v == MISSING:
            continue
        status[i] = {"stage-weight": render_weight(v)}
    # a stage may also be listed without a weight
    return {"components": comps, "status-report": status}


def key_for(given, expected, got):
    """Canonical class of a failing weight case (input side only)."""
    nums = [0 if g == MISSING else g for g in given]
    if any(g < 0 for g in nums):
        return "weights:negative-weight-given"
    if sum(nums) != 10000 and sum(int(g / 10) for g in nums) == 1000:
        return "weights:sum-exceeds-one-below-thousandths"
    if sum(nums) == 10000 and sum(int(g / 10) for g in nums) != 1000:
        return "weights:given-sum-to-one-but-not-after-truncation"
    return "weights:other"


def check_weights(chk, cases, FL):
    import experiment.model.errors as E
    import yaml, shutil
    from .. import realenv
    nrej = 0
    # a real experiment per malformed package costs ~0.1 s: the first 40 of them in the quick tier, every k-th (300 in all) otherwise
    rej = [i for i, c in enumerate(cases) if c["rejected"]]
    rej_run = set(rej[:40]) if chk.tier == "quick" else set(rej[::max(1, -(-len(rej) // 300))])
    for idx, case in enumerate(cases):
        n, given, expected = case["n"], case["given"], case["expected"]
        doc = flowir_for(n, given)
        ck = ("w", tuple(given))
        if case["rejected"]:
            # a malformed weight: either the validating loader refuses the package as invalid configuration, or the weights the
            # status monitor ends up with are a proper equal split (spec: Normalise = Fallback; any split within n/1000 of 1/n)
            nrej += 1
            if idx not in rej_run:
                continue
            import experiment.runtime.output as output
            try:
                exp = realenv.experiment_from_flowir(doc, chk.scratch)
                mon = output.StatusMonitor(exp, report_components=False)
                got = [float(x) for x in mon.stageWeights]
                shutil.rmtree(exp.instanceDirectory.location, ignore_errors=True)
                if min(got) < 0 or abs(sum(got) - 1.0) > 1e-6 or any(abs(g - 1.0 / n) > n / 1000.0 for g in got):
                    chk.violation("weights:malformed-bad-fallback", "package with weights %s -> monitor weights %s" % ([render_weight(g) for g in given], got),
                                  {"kind": "weights", "case": case})
            except E.ExperimentInvalidConfigurationError:
                pass
            except Exception as e:
                chk.violation("weights:malformed:%s" % type(e).__name__, "package with weights %s raised %r" % ([render_weight(g) for g in given], e),
                              {"kind": "weights", "case": case})
            chk.evaluated(ck)
            continue
        try:
            concrete = FL.FlowIRConcrete(doc, "default", {})
            st = concrete.get_status()
            got = [float(st[i]["stage-weight"]) for i in range(n)]
        except Exception as e:
            chk.violation("weights:exception:%s" % type(e).__name__,
                          "loading weights %s raised %r" % ([render_weight(g) for g in given], e),
                          {"kind": "weights", "case": case})
            chk.evaluated(ck)
            continue
        chk.evaluated(ck, nontrivial=True)
        exp = [e / UNIT for e in expected]
        bad = []
        if any(abs(a - b) > 1e-9 for a, b in zip(got, exp)):
            bad.append("weights %s differ from specified %s" % (got, exp))
        if any(g < 0 for g in got):
            bad.append("negative weight")
        if abs(sum(got) - 1.0) > 1e-6:
            bad.append("sum is %r" % sum(got))
        if bad:
            chk.violation(key_for(given, expected, got),
                          "given %s -> %s" % ([render_weight(g) for g in given], "; ".join(bad)),
                          {"kind": "weights", "case": case})
        chk.sample({"given": [render_weight(g) for g in given], "loaded": got, "spec": exp}, limit=3)


class CountingLock:
    """controller.comp_lock: the harness only lets the controller act while the monitor does not hold it"""

    def __init__(self):
        self.depth = 0

    def __enter__(self):
        self.depth += 1
        return self

    def __exit__(self, *a):
        self.depth -= 1
        return False

    def acquire(self, *a, **k):
        self.depth += 1
        return True

    def release(self):
        self.depth -= 1


class FakeStatusDB:
    def monitorComponent(self, *a, **k):
        pass


def build_experiment(n, given, loop, scratch):
    import yaml
    from .. import realenv
    extra = {"conf/dowhile.yaml": yaml.safe_dump(DOWHILE, sort_keys=False)} if loop is not None else None
    return realenv.experiment_from_flowir(flowir_for(n, list(given), loop), scratch, extra_files=extra)


class StubController:
    """Drives the REAL experiment.runtime.control.Controller (never run()): the model state is imposed on the real
    ComponentState / comp_done / currentStage, and everything StatusMonitor.CheckStatus asks - stage(), stageState(),
    get_stages_in_transit(), get_stages_finished(), get_stage_status() - is answered by the real Controller methods.
    Every such call is a boundary at which another controller action may happen (unless the monitor holds comp_lock).
    A loop unrolls through the real Controller._instantiate_next_dowhile_iteration (iterations cannot be taken back: the
    callers impose the states of an experiment in the order of their number of iterations)."""

    def __init__(self, exp, Controller, codes):
        import experiment.runtime.workflow as workflow
        import networkx
        self.exp = exp
        self.codes = codes
        self.by_stage = {}
        wg = exp.experimentGraph
        self.comps = []
        for name in networkx.topological_sort(exp.graph):
            data = exp.graph.nodes[name]
            stage = exp._stages[data['stageIndex']]
            job = stage.jobWithName(data['componentSpecification'].identification.componentName)
            comp = workflow.ComponentState(job, wg, create_engine=False)
            self.comps.append(comp)
            self.by_stage.setdefault(data['stageIndex'], []).append(comp)
        for k in self.by_stage:
            self.by_stage[k].sort(key=lambda c: c.specification.reference)
        self.real = Controller(exp)
        self.real.comp_lock = CountingLock()
        self.comp_lock = self.real.comp_lock
        self.nb = 0
        self.inject_at = None
        self.injected = False
        self.n = len(exp._stages)
        self.st, self.prog, self.start = None, None, None
        self.placeholder_state0 = {p: d.get('state') for p, d in wg._placeholders.items()}
        self.loop_docs = dict((wg._documents or {}).get("DoWhile", {}))
        if len(self.loop_docs) > 1:
            raise MachineryError("more than one DoWhile document in a C20 package")
        self.iterations = 1 if self.loop_docs else 0

    def ensure_iterations(self, k):
        """the loop has unrolled k times (the first iteration exists from the start)"""
        if k < self.iterations or (k > 0 and not self.loop_docs):
            raise MachineryError("cannot go back to %d iteration(s) of the loop (%d instantiated)" % (k, self.iterations))
        while self.iterations < k:
            c = self.real
            meta = list(self.loop_docs.values())[0]
            known = set(id(x) for x in c._instantiated_components)
            # as the other ComponentState objects of this harness: no engine (the controller creates engines for the stages
            # it has not skipped)
            c._starting_index = 10 ** 6
            c._instantiate_next_dowhile_iteration(meta)
            c._starting_index = None
            new = [x for x in c._instantiated_components if id(x) not in known]
            if len(new) != 1:
                raise MachineryError("an iteration of the loop instantiated %d components" % len(new))
            for comp in new:
                self.comps.append(comp)
                self.by_stage[comp.stageIndex].append(comp)
                self.by_stage[comp.stageIndex].sort(key=lambda c_: c_.specification.reference)
            self.iterations += 1

    # -- imposing the model state on the real objects --
    def _finish(self, comp):
        comp.controllerState = self.codes.FINISHED_STATE
        self.real.comp_done.add(comp.specification.reference)

    def set_state(self, st, prog, start=1, iters=None):
        c = self.real
        self.st, self.prog, self.start = list(st), list(prog), start
        self.ensure_iterations(max(iters) if iters else 0)
        c.comp_done.clear()
        for p, v in self.placeholder_state0.items():
            self.exp.experimentGraph._placeholders[p]['state'] = v
        c.currentStage = None
        c._starting_index = None
        for comp in self.comps:
            comp.controllerState = None
        # Controller.initialise of the stage the launcher starts from marks the earlier stages as finished and done
        c.initialise(self.exp._stages[start - 1], FakeStatusDB())
        for i, s_ in enumerate(st):
            comps = self.by_stage[i]
            if i < start - 1:
                continue
            if s_ == "finished":
                for comp in comps:
                    self._finish(comp)
            elif s_ in ("active", "transit"):
                for comp in comps[:prog[i]]:
                    self._finish(comp)
        act = [i for i, s_ in enumerate(st) if s_ == "active"]
        c.currentStage = self.exp._stages[act[0] if act else self.n - 1]

    def apply(self, act, arg):
        i = arg - 1
        if act == "Advance":
            self._finish(self.by_stage[i][self.prog[i]])
            self.prog[i] += 1
        elif act == "Finish":
            for comp in self.by_stage[i]:
                self._finish(comp)
            self.st[i] = "finished"
        elif act.startswith("NextStage"):
            how = act[len("NextStage"):]
            if how == "finished":
                for comp in self.by_stage[i]:
                    self._finish(comp)
            self.st[i] = how
            self.st[i + 1] = "active"
            self.real.currentStage = self.exp._stages[i + 1]

    def boundary(self):
        """called at every call the monitor makes into the controller: the moment another thread may have acted"""
        self.nb += 1
        if self.inject_at and not self.injected and self.nb >= self.inject_at[0] and self.comp_lock.depth == 0:
            self.injected = True
            self.apply(self.inject_at[1], self.inject_at[2])

    # -- what CheckStatus calls: the real methods, behind a boundary --
    def stage(self):
        self.boundary()
        return self.real.stage()

    def stageState(self, stage=None):
        self.boundary()
        return self.real.stageState(stage)

    def get_stages_in_transit(self):
        self.boundary()
        return self.real.get_stages_in_transit()

    def get_stages_finished(self):
        self.boundary()
        return self.real.get_stages_finished()

    def get_stage_status(self, idx):
        self.boundary()
        return self.real.get_stage_status(idx)

    def generate_status_report_for_nodes(self, _):
        return ""


def progress_key(s, loop):
    """class of a state in which the quiet CheckStatus is wrong: where the controller is relative to the loop's stage"""
    if loop is None:
        return "progress:total-mismatch"
    if s.get("start", 1) - 1 > loop:
        return "progress:loop-stage-skipped-by-restart"
    st = s["st"][loop]
    if st == "pending":
        return "progress:loop-stage-ahead"
    if st == "active":
        return "progress:loop-stage-current"
    return "progress:controller-past-loop-stage"


def check_progress(chk, states, scratch):
    nloop = [0]
    import experiment.runtime.output as output
    import experiment.runtime.monitor
    import experiment.runtime.control as control
    import experiment.model.codes as codes
    groups = {}
    for s in states:
        if s.get("den", DEN) != DEN:
            raise MachineryError("Progress.tla counts stage progress in 1/%s, the driver in 1/%d" % (s.get("den"), DEN))
        groups.setdefault((s["n"], tuple(s["given"]), loop_stage(s.get("iters"))), []).append(s)
    captured = {}

    def fake_create_monitor(interval, fn, cancelEvent=None, name=None, **kw):
        captured["fn"] = fn
        return lambda: None
    orig = experiment.runtime.monitor.CreateMonitor
    experiment.runtime.monitor.CreateMonitor = fake_create_monitor
    try:
        for (n, given, loop), sts in sorted(groups.items(), key=lambda kv: (kv[0][0], kv[0][1], -1 if kv[0][2] is None else kv[0][2])):
            # iterations of a loop cannot be taken back: the states with fewer iterations first (stable: TLC's order otherwise)
            sts = sorted(sts, key=lambda s_: max(s_.get("iters") or [0]))
            exp = build_experiment(n, given, loop, scratch)
            mon = output.StatusMonitor(exp, report_components=False)
            weights = [float(x) for x in mon.stageWeights]
            specw = [x / UNIT for x in sts[0]["w"]]
            if any(abs(a - b) > 1e-9 for a, b in zip(weights, specw)) or len(weights) != len(specw):
                chk.violation("monitor-weights:" + key_for(list(given), sts[0]["w"], weights),
                              "given %s -> StatusMonitor.stageWeights %s, specification %s" % ([render_weight(g) for g in given], weights, specw),
                              {"kind": "progress", "state": sts[0]})
            ctrl = StubController(exp, control.Controller, codes)
            mon.run(ctrl)
            fn = captured["fn"]
            for s in sts:
                ctrl.set_state(s["st"], s["prog"], s.get("start", 1), s.get("iters"))
                fn(False)
                got = float(exp.statusFile.totalProgress())
                want = s["total"] / (DEN * UNIT)
                chk.evaluated(("p", n, given, tuple(s["st"]), tuple(s["prog"]), tuple(s.get("iters") or ())))
                bad = []
                if abs(got - want) > 1e-9:
                    bad.append("total progress %r, specification %r" % (got, want))
                if got < -1e-9 or got > 1 + 1e-9:
                    bad.append("total progress %r outside [0,1]" % got)
                if all(x == "finished" for x in s["st"]) and abs(got - 1.0) > 1e-9:
                    bad.append("every stage has completed, total progress %r" % got)
                if bad:
                    chk.violation(progress_key(s, loop), "weights %s%s state %s prog %s: %s" % (
                        weights, "" if loop is None else " (stage %d hosts a loop, iterations per stage %s)" % (loop, s["iters"]),
                        s["st"], s["prog"], "; ".join(bad)), {"kind": "progress", "state": s})
            chk.trace_validated(1)
            if loop is not None:
                chk.cov["loop_states_checked"] = chk.cov.get("loop_states_checked", 0) + len(sts)
                nloop[0] += 1
            chk.sample({"weights": weights, "loop_stage": loop, "states_checked": len(sts), "last": sts[-1]}, limit=5 if loop is None or nloop[0] > 1 else 100)
            import shutil
            shutil.rmtree(exp.instanceDirectory.location, ignore_errors=True)
    finally:
        experiment.runtime.monitor.CreateMonitor = orig


def check_interleavings(chk, reports, scratch, cov_key="monitor_interleavings_executed", budget=None):
    """spec -> code: CheckStatus runs concurrently with the controller.  For every state in which a check may begin
    and every controller action that may happen meanwhile, at every point where the monitor calls into the controller
    without holding its lock, the value the REAL CheckStatus writes must be one the specification allows for that
    (state, action): the in-transit / finished snapshot is atomic, so no stage is counted twice."""
    import experiment.runtime.output as output
    import experiment.runtime.monitor
    import experiment.runtime.control as control
    import experiment.model.codes as codes
    import shutil
    allowed = {}
    for r in reports:
        if r.get("den", DEN) != DEN:
            raise MachineryError("Progress.tla counts stage progress in 1/%s, the driver in 1/%d" % (r.get("den"), DEN))
        key = (r["n"], tuple(r["given"]), tuple(r["st0"]), tuple(r["prog0"]), r.get("start", 1), tuple(r.get("iters0") or [0] * r["n"]))
        allowed.setdefault(key, {}).setdefault((r["act"], r["arg"]), set()).add(r["reported"])
    if budget:
        # (begin state, action, call boundary) is too large a product for >= 3 stages: every begin state of <= 2 stages, and a
        # VERIF_SEED-ed sample of the begin states of more stages (each with all its actions and boundaries), ~budget runs in all
        import random as _random
        rnd = _random.Random(chk.seed)
        est = lambda k_: 8 * (len(allowed[k_]) - 1) + 1
        small = sorted(k_ for k_ in allowed if k_[0] <= 2)
        big = sorted(k_ for k_ in allowed if k_[0] > 2)
        frac = min(1.0, max(0.0, budget - sum(map(est, small))) / max(1, sum(map(est, big))))
        kept = [k_ for k_ in big if rnd.random() < frac]
        chk.cov.setdefault("sampled", {})[cov_key] = {"begin_states_of_3_or_more_stages": len(big), "executed": len(kept), "fraction": round(frac, 3),
                                                      "begin_states_of_2_stages_all_executed": len(small), "seed": chk.seed}
        allowed = {k_: allowed[k_] for k_ in small + kept}
    groups = {}
    for key in allowed:
        groups.setdefault(key[:2] + (loop_stage(key[5]),), []).append(key)
    captured = {}

    def fake_create_monitor(interval, fn, cancelEvent=None, name=None, **kw):
        captured["fn"] = fn
        return lambda: None
    orig = experiment.runtime.monitor.CreateMonitor
    experiment.runtime.monitor.CreateMonitor = fake_create_monitor
    runs = 0
    try:
        for (n, given, loop), keys in sorted(groups.items(), key=lambda kv: (kv[0][0], kv[0][1], -1 if kv[0][2] is None else kv[0][2])):
            exp = build_experiment(n, given, loop, scratch)
            mon = output.StatusMonitor(exp, report_components=False)
            ctrl = StubController(exp, control.Controller, codes)
            mon.run(ctrl)
            fn = captured["fn"]
            lp = "" if loop is None else "loop:"
            # iterations of a loop cannot be taken back: the begin states with fewer iterations first
            for key in sorted(keys, key=lambda k_: (max(k_[5]), k_)):
                st0, prog0, start0, iters0 = list(key[2]), list(key[3]), key[4], list(key[5])
                # dry run: how many calls into the controller does one CheckStatus make from this state?
                ctrl.set_state(st0, prog0, start0, iters0); ctrl.nb = 0; ctrl.inject_at = None; ctrl.injected = False
                fn(False)
                nb = ctrl.nb
                base = int(round(float(exp.statusFile.totalProgress()) * DEN * UNIT))
                if base not in allowed[key].get(("none", 0), set()):
                    chk.violation("interleaving:%squiet-check-differs" % lp, "n=%d weights=%s start=%d state=%s prog=%s iterations=%s: CheckStatus reports %d/%d, specification %s" % (
                        n, list(given), start0, st0, prog0, iters0, base, DEN * UNIT, sorted(allowed[key].get(("none", 0), []))), {"kind": "inter", "key": key})
                for (act, arg), vals in sorted(allowed[key].items()):
                    if act == "none":
                        continue
                    ok_vals = vals | allowed[key].get(("none", 0), set())
                    for b in range(2, nb + 2):
                        ctrl.set_state(st0, prog0, start0, iters0); ctrl.nb = 0; ctrl.inject_at = (b, act, arg); ctrl.injected = False
                        fn(False)
                        runs += 1
                        got = int(round(float(exp.statusFile.totalProgress()) * DEN * UNIT))
                        chk.evaluated(("i", key, act, arg, b))
                        if got not in ok_vals or got > DEN * UNIT or got < 0:
                            chk.violation("interleaving:%sstage-counted-inconsistently" % lp, "n=%d weights=%s start=%d%s: check begins in state=%s prog=%s, the controller does %s(%d) "
                                          "at the monitor's call #%d: CheckStatus reports %.4f, the specification allows %s" % (
                                              n, list(given), start0, "" if loop is None else " (stage %d hosts a loop, iterations %s)" % (loop, iters0),
                                              st0, prog0, act, arg, b, got / (DEN * UNIT), sorted(v / (DEN * UNIT) for v in ok_vals)),
                                          {"kind": "inter", "n": n, "given": list(given), "st0": st0, "prog0": prog0, "iters0": iters0, "act": act, "arg": arg, "b": b})
            chk.trace_validated(1)
            shutil.rmtree(exp.instanceDirectory.location, ignore_errors=True)
    finally:
        experiment.runtime.monitor.CreateMonitor = orig
    chk.cov[cov_key] = chk.cov.get(cov_key, 0) + runs
    chk.sample({"interleaving_case": {"n": n, "given": list(given), "begin_state": st0, "action": [act, arg], "allowed": sorted(ok_vals)}}, limit=6)


def run(tier):
    chk = Check(PID, tier)
    import time as _time
    phases, t_last = chk.cov.setdefault("phases_s", {}), [_time.time()]

    def phase(name):
        phases[name] = round(_time.time() - t_last[0], 1)
        t_last[0] = _time.time()
    gen = os.path.join(SPEC, "gen")
    os.makedirs(gen, exist_ok=True)
    thorough = tier == "thorough"
    ms = 4 if thorough else 3
    grid = GRID_Q
    common_w = "CONSTANTS\n  MinStages = 1\n  MaxStages = %d\n  %s\n" % (ms, grid)
    inv = "INVARIANT TypeOK\nINVARIANT WeightsNonNegative\nINVARIANT WeightsSumToOne\nINVARIANT GivenPreserved\n"
    # 1a. Normalise on the weight grid
    c1 = _cfg(os.path.join(gen, "Progress_weights_%s.cfg" % tier), common_w + "  UseSpecial = TRUE\n  Restarts = FALSE\n  LoopStages = {}\n  MaxIter = 0\n  Emit = FALSE\nINIT Init\nNEXT Load\n" + inv + "CHECK_DEADLOCK FALSE\n")
    r = tlc.run_tlc("Progress", c1, timeout=1500)
    if not r["ok"]:
        raise MachineryError("Progress.tla: invariant %s fails on the model:\n%s" % (r["violated"], r["out"][-2000:]))
    chk.add_tlc(r)
    # 1b. progress state machine of the controller alone (no CheckStatus in progress)
    g2 = "GridPos = {0, 2500, 3333, 3334, 5000, 7500, 10000}\n  GridNeg = {}" if not thorough else \
         "GridPos = {0, 10, 2500, 3330, 3333, 3334, 3340, 5000, 7500, 10000}\n  GridNeg = {}"
    c2 = _cfg(os.path.join(gen, "Progress_mc_%s.cfg" % tier), "CONSTANTS\n  MinStages = 1\n  MaxStages = 3\n  %s\n  UseSpecial = TRUE\n  Restarts = TRUE\n  LoopStages = {}\n  MaxIter = 0\n  Emit = FALSE\nSPECIFICATION SpecNoMon\n%s"
              "INVARIANT TotalInRange\nINVARIANT TotalCompleteAtEnd\nPROPERTY Monotone\nCHECK_DEADLOCK FALSE\n" % (g2, inv))
    r = tlc.run_tlc("Progress", c2, timeout=1500, coverage=True)
    if not r["ok"]:
        raise MachineryError("Progress.tla: %s fails on the model:\n%s" % (r["violated"], r["out"][-2000:]))
    for act in ("Load", "Advance", "NextStage", "Finish"):
        if not r["coverage"].get(act):
            raise MachineryError("action %s of Progress.tla never taken (vacuous run): %s" % (act, r["coverage"]))
    chk.add_tlc(r)
    # 1c. CheckStatus concurrent with the controller: the reported value stays a proper fraction
    g3 = "GridPos = {0, 2500, 5000, 7500, 10000}\n  GridNeg = {}"
    c2b = _cfg(os.path.join(gen, "Progress_mon_%s.cfg" % tier), "CONSTANTS\n  MinStages = 1\n  MaxStages = %d\n  %s\n  UseSpecial = TRUE\n  Restarts = TRUE\n  LoopStages = {}\n  MaxIter = 0\n  Emit = FALSE\nSPECIFICATION Spec\n%s"
               "INVARIANT ReportedInRange\nCHECK_DEADLOCK FALSE\n" % (2, g3 if not thorough else g2, inv))
    r = tlc.run_tlc("Progress", c2b, timeout=1500, coverage=True)
    if not r["ok"]:
        raise MachineryError("Progress.tla: %s fails on the model:\n%s" % (r["violated"], r["out"][-2000:]))
    for act in ("MonBegin", "MonSnap", "MonSum"):
        if not r["coverage"].get(act):
            raise MachineryError("action %s of Progress.tla never taken (vacuous run): %s" % (act, r["coverage"]))
    chk.add_tlc(r)
    phase("1 model checking")
    # 2. weights, spec -> code
    c3 = _cfg(os.path.join(gen, "Progress_emit_%s.cfg" % tier), "CONSTANTS\n  MinStages = 1\n  MaxStages = 3\n  %s\n  UseSpecial = TRUE\n  Restarts = FALSE\n  LoopStages = {}\n  MaxIter = 0\n  Emit = TRUE\nINIT Init\nNEXT Load\nINVARIANT EmitCase\nCHECK_DEADLOCK FALSE\n" % GRID_Q)
    r = tlc.run_tlc("Progress", c3, workers=1, timeout=900)
    cases = r["cases"]
    if len(cases) < 1000:
        raise MachineryError("TLC emitted only %d weight cases" % len(cases))
    # degenerate stage counts (equal split must still sum to one): taken from the spec's Fallback via TLC
    from ..realenv import FL
    check_weights(chk, cases, FL)
    if thorough:
        c3b = _cfg(os.path.join(gen, "Progress_emit_many.cfg"), "CONSTANTS\n  MinStages = 1\n  MaxStages = 8\n  GridPos = {0, 1250, 10000}\n  GridNeg = {}\n  UseSpecial = TRUE\n  Restarts = FALSE\n  LoopStages = {}\n  MaxIter = 0\n  Emit = TRUE\nINIT Init\nNEXT Load\nINVARIANT EmitCase\nCHECK_DEADLOCK FALSE\n")
        r = tlc.run_tlc("Progress", c3b, workers=1, timeout=900)
        # 488k assignments: all of <= 5 stages, a VERIF_SEED-ed sample of those of 6-8 stages
        import random as _random
        rnd = _random.Random(chk.seed)
        few = [c for c in r["cases"] if c["n"] <= 5]
        more = [c for c in r["cases"] if c["n"] > 5]
        pick_more = rnd.sample(more, min(len(more), 30000))
        chk.cov.setdefault("sampled", {})["weights_up_to_8_stages"] = {"assignments_of_6_to_8_stages": len(more), "executed": len(pick_more),
                                                                      "assignments_of_up_to_5_stages_all_executed": len(few), "seed": chk.seed,
                                                                      "note": "of the malformed (rejected) ones among them every k-th, 300 in all, is built as a real experiment"}
        check_weights(chk, few + pick_more, FL)
    phase("2 weights on the real loader")
    # 3. progress, spec -> code
    g4 = "GridPos = {0, 2500, 5000, 7500, 10000}\n  GridNeg = {}" if not thorough else "GridPos = {0, 2500, 3333, 3334, 5000, 7500, 10000}\n  GridNeg = {}"
    c4 = _cfg(os.path.join(gen, "Progress_states_%s.cfg" % tier), "CONSTANTS\n  MinStages = 1\n  MaxStages = %d\n  %s\n  UseSpecial = TRUE\n  Restarts = TRUE\n  LoopStages = {}\n  MaxIter = 0\n  Emit = TRUE\nINIT Init\nNEXT NextNoMon\nINVARIANT EmitState\nCHECK_DEADLOCK FALSE\n" % (2 if not thorough else 3, g4))
    r = tlc.run_tlc("Progress", c4, workers=1, timeout=1500)
    states = r["cases"]
    if len(states) < 100:
        raise MachineryError("TLC emitted only %d progress states" % len(states))
    if thorough:
        # 584 weight vectors x every state of the state machine (156k): all vectors of <= 2 stages, a VERIF_SEED-ed sample of those of 3
        import random as _random
        rnd = _random.Random(chk.seed)
        vec3 = sorted(set(tuple(s_["given"]) for s_ in states if s_["n"] == 3))
        keep3 = set(rnd.sample(vec3, min(len(vec3), 90)))
        nall = len(states)
        states = [s_ for s_ in states if s_["n"] < 3 or tuple(s_["given"]) in keep3]
        chk.cov.setdefault("sampled", {})["progress_states"] = {"weight_vectors_of_3_stages": len(vec3), "executed": len(keep3), "states_emitted": nall,
                                                               "states_executed": len(states), "vectors_of_up_to_2_stages": "all", "seed": chk.seed}
    check_progress(chk, states, chk.scratch)
    phase("3 progress states on the real monitor")
    # 4. many stages (stage names 'stage10' < 'stage2' lexicographically): usable weight vectors only, distinct per position
    c5 = _cfg(os.path.join(gen, "Progress_many_%s.cfg" % tier), "CONSTANTS\n  MinStages = 11\n  MaxStages = %d\n  GridPos = {500, 1500, 4000}\n  GridNeg = {}\n  UseSpecial = FALSE\n  Restarts = FALSE\n  LoopStages = {}\n  MaxIter = 0\n  Emit = TRUE\n"
              "INIT Init\nNEXT Load\nINVARIANT EmitUsable\nINVARIANT WeightsSumToOne\nINVARIANT GivenPreserved\nCHECK_DEADLOCK FALSE\n" % (12 if thorough else 11))
    r = tlc.run_tlc("Progress", c5, workers=8, timeout=1500)
    chk.add_tlc(r)
    many = r["cases"]
    if len(many) < 50:
        raise MachineryError("TLC emitted only %d many-stage cases" % len(many))
    check_weights(chk, many, FL)
    import random as _random
    rnd = _random.Random(chk.seed)
    pick = rnd.sample(many, 10 if not thorough else 40)
    check_progress(chk, [dict(n=c["n"], given=c["given"], w=c["expected"], st=["active"] + ["pending"] * (c["n"] - 1),
                              prog=[0] * c["n"], total=0) for c in pick], chk.scratch)
    phase("4 many stages")
    # 5. CheckStatus concurrent with the controller
    c6 = _cfg(os.path.join(gen, "Progress_reports_%s.cfg" % tier), "CONSTANTS\n  MinStages = 2\n  MaxStages = %d\n  GridPos = {%s}\n  GridNeg = {}\n  UseSpecial = TRUE\n  Restarts = TRUE\n  LoopStages = {}\n  MaxIter = 0\n  Emit = TRUE\n"
              "SPECIFICATION Spec\nINVARIANT EmitReport\nINVARIANT ReportedInRange\nCONSTRAINT FirstReport\nCHECK_DEADLOCK FALSE\n" % ((2, "2500, 7500") if not thorough else (3, "2500, 5000, 7500")))
    r = tlc.run_tlc("Progress", c6, workers=1, timeout=1500)
    chk.add_tlc(r)
    if len(r["cases"]) < 500:
        raise MachineryError("TLC emitted only %d CheckStatus reports" % len(r["cases"]))
    check_interleavings(chk, r["cases"], chk.scratch, budget=45000 if thorough else None)
    phase("5 interleavings")
    # 6. loops: one stage hosts a DoWhile loop (in 3 stages the first or the second one, in 2 stages either); only packages whose
    #    weights are used as given.  6a: the controller alone - model checked, every state executed on the real code
    lconst = ("CONSTANTS\n  MinStages = 2\n  MaxStages = %d\n  GridPos = {%s}\n  GridNeg = {}\n  UseSpecial = FALSE\n  Restarts = TRUE\n"
              "  LoopStages = {%s}\n  MaxIter = 2\n  Emit = TRUE\n")
    c7 = _cfg(os.path.join(gen, "Progress_loops_%s.cfg" % tier), lconst % ((3, "2500, 5000, 7500", "1, 2") if not thorough else (3, "2000, 2500, 3000, 5000, 7000, 7500", "1, 2, 3")) +
              "SPECIFICATION SpecNoMon\n" + inv + "INVARIANT TotalInRange\nINVARIANT TotalCompleteAtEnd\nINVARIANT NeverBoth\nINVARIANT FinishedIsComplete\n"
              "INVARIANT EmitState\nPROPERTY Monotone\nCONSTRAINT OnlyUsable\nCHECK_DEADLOCK FALSE\n")
    r = tlc.run_tlc("Progress", c7, workers=1, timeout=1500, coverage=True)
    if not r["ok"]:
        raise MachineryError("Progress.tla (loops): %s fails on the model:\n%s" % (r["violated"], r["out"][-2000:]))
    for act in ("Load", "Advance", "Iterate", "NextStage", "Finish"):
        if not r["coverage"].get(act):
            raise MachineryError("action %s of Progress.tla never taken with loops (vacuous run): %s" % (act, r["coverage"]))
    chk.add_tlc(r)
    lstates = [s_ for s_ in r["cases"] if "st" in s_]
    past = [s_ for s_ in lstates if any(k > 0 and s_["st"][i] in ("transit", "finished") and i + 1 >= s_["start"] and s_["st"][i + 1:].count("active") == 1
                                        for i, k in enumerate(s_["iters"]))]
    ends = [s_ for s_ in lstates if all(x == "finished" for x in s_["st"])]
    twice = [s_ for s_ in lstates if max(s_["iters"]) == 2]
    if len(lstates) < 1000 or len(past) < 100 or len(ends) < 10 or len(twice) < 100:
        raise MachineryError("TLC emitted only %d states with loops (%d with the controller past the loop's stage, %d at the end, %d with two iterations)" % (
            len(lstates), len(past), len(ends), len(twice)))
    chk.cov["loop_states"] = {"emitted": len(lstates), "controller_past_loop_stage": len(past), "at_the_end": len(ends), "two_iterations": len(twice)}
    check_progress(chk, lstates, chk.scratch)
    phase("6a loops: progress states")
    # 6b: CheckStatus concurrent with the controller; nothing beyond the first completed CheckStatus from every state
    c8 = _cfg(os.path.join(gen, "Progress_loopreports_%s.cfg" % tier), lconst % ((2, "3000, 7000", "1, 2") if not thorough else (3, "2500, 3000, 5000, 7000, 7500", "1, 2")) +
              "SPECIFICATION Spec\nINVARIANT TypeOK\nINVARIANT EmitReport\nINVARIANT ReportedInRange\nCONSTRAINT OnlyUsable\nCONSTRAINT FirstReport\nCHECK_DEADLOCK FALSE\n")
    r = tlc.run_tlc("Progress", c8, workers=1, timeout=1500)
    if not r["ok"]:
        raise MachineryError("Progress.tla (loops): %s fails on the model:\n%s" % (r["violated"], r["out"][-2000:]))
    chk.add_tlc(r)
    lreports = [x for x in r["cases"] if "st0" in x]
    if len(lreports) < 500 or not any(max(x["iters0"]) == 2 for x in lreports):
        raise MachineryError("TLC emitted only %d CheckStatus reports with loops" % len(lreports))
    check_interleavings(chk, lreports, chk.scratch, cov_key="loop_interleavings_executed", budget=35000 if thorough else None)
    phase("6b loops: interleavings")
    chk.cov["rule"] = ("weight cases: every assignment of the grid (ten-thousandths incl. negative, >1, truncation-sensitive values, missing, "
                       "malformed) to <=3 stages, emitted by TLC with the specified result; progress cases: every reachable state of the "
                       "Progress.tla state machine for the small grid; loops: every reachable state of the state machine with one stage hosting a DoWhile "
                       "loop of 1-2 iterations (2-3 stages, restarts), on real packages with a $import-ed DoWhile document; "
                       "distinct = distinct (given) vectors / (given, state) pairs")
    chk.cov["exhaustive"] = not chk.cov.get("sampled")      # the TLC runs are; thorough samples what it executes on the real code (cov["sampled"])
    chk.assumptions += ["weights outside the grid (more than 4 decimals) are not explored",
                        "the controller below StatusMonitor is a stub that reports the model state; Controller.get_stage_status is the real method",
                        "TLC runs are exhaustive for the stated constants (MaxStages<=%d)" % ms,
                        "loops: at most one stage hosts a loop, one looped component per iteration, at most 2 iterations; no iteration is "
                        "instantiated while a CheckStatus is in progress; a restart finds the loop with one iteration"]
    return chk.finish()


def replay(path):
    from ..realenv import FL
    d = json.load(open(path))
    chk = Check(PID, "quick")
    rp = d["replay"]
    if rp["kind"] == "weights":
        check_weights(chk, [rp["case"]], FL)
    elif rp["kind"] == "inter":
        print("re-run ./check C20: interleaving cases are re-derived from the specification; case:", rp)
    else:
        check_progress(chk, [rp["state"]], chk.scratch)
    return chk.finish()
