"""C12 -- Task restarts stay within the configured policy.  Spec: spec/Restart.tla (+ spec/Restart_trace.tla)

1. TLC, design: for every configuration of the family (maxRestarts unset/-1/0/1/2/3, restartHookFile unset/""/named, hook file
   present/missing, restartHookOn sets, backend local/simulator(sim_restart yes/no), engine normal/repeating, system stable/
   unstable, driven through the controller / Engine.restart directly) and every sequence of exits and hook answers (bounded by
   MaxRuns task starts) the C12 properties are invariants / action properties of Restart.tla; every action is covered.
   With each NAMED DEVIATION of the spec switched on TLC must find the counterexample (witness that the invariants bite).
2. spec -> code: TLC prints every edge (decision state, event) -> (expected decision, expected state) of the state graph.  The
   driver covers ALL edges with tours from the initial state and executes them on the REAL Controller.postMortemCheck /
   _restartComponent / ComponentState.restart / Engine.restart / RepeatingEngine.restart (harness/world_c12.py), comparing after
   every step: restart code, task started or not, Engine.restarts, resubmissionAttempts(), engine alive, final state of the
   component, engine shutdown, whether (and which) package hook was consulted and with which `restarts` argument.
3. code -> spec: seeded random event sequences are executed on the real code WITHOUT consulting the spec, recorded as traces
   (event + observed projection) and validated in one TLC run against Restart_trace.tla, which re-uses the actions of
   Restart.tla (each step may follow the demanded policy or a named deviation, so the code as built and a repaired code are both
   explained) and evaluates the C12 predicates on every logged state.  A step no action explains, or a state in which a C12
   predicate is false, is a violation.  Self-test: a corrupted log must be rejected at the corrupted step.

4. the relaunch window (Restart.tla with Window = TRUE: restart accepted -> phase "launching" -> Launch | Kill): TLC checks the
   design (KilledInWindow, KillIsTheEnd: after a kill in the window no further start / task, exit reason Killed, budget
   untouched; LaunchNeedsStart) and prints all edges of a small family; the driver covers them with tours executed on the REAL
   Engine.run() launch / termination pipeline (harness/world_g01.py: real Engine on lanes, fake Task, virtual time; Launch = the
   start timer + launch delay fire, Kill = Engine.kill() delivered through the termination subject and run()'s error path,
   Exit = the task's wait() returns, Direct = Engine.restart() with the real hook files) comparing after every step: restart
   code, Engine.run() calls, tasks submitted, Engine.restarts, resubmissionAttempts(), engine alive, engine exit reason, hook calls.

Component flavours and the finish() interleaving (parts 1-3): configurations may be MIGRATABLE (isMigratable: finish() leaves the
   engine un-shut-down) and, when flagged `finish`, the action Finish(shutdown|failed) is explored between a task exit and the
   handling of its POSTMORTEM notification (phase "cancelled"): the handler must neither restart the component nor change its
   state (FinalIsFrozen: no run(), no launch, same state after finish()).  With C12_FINISH_IN_HOOK=1 finish() also arrives WHILE
   the restart hook runs (answers finishPossible / finishNotRequired; the hook file calls back into the harness).

Keys: the three named deviations of the spec have their own keys (DEV_KEY, genuine defects of /repo, see
findings/C12_*); every other mismatch is keyed by entry point, engine kind and class of the step.
"""
import json
import os
import random

from ..common import Check, MachineryError, SPEC
from .. import tlc

PID = "C12"
GEN = os.path.join(SPEC, "gen")
UNSET = 1000
LISTABLE = ["Success", "KnownIssue", "SystemIssue", "SubmissionFailed", "UnknownIssue", "ResourceExhausted"]
REASONS = ["Success", "KnownIssue", "SystemIssue", "SubmissionFailed", "UnknownIssue", "Killed", "Cancelled",
           "ResourceExhausted"]
ANSWERS = ["possible", "notRequired", "notPossible", "failed", "hookNotAvailable", "conditionsNotMet", "true", "false",
           "junkStr", "junkInt", "none", "raises", "raisesIOError", "importError", "importIOError", "importRaises",
           "noRestartFn"]
ACTIONS = ("Exit", "PostMortem", "Direct", "LateRestart", "Finish")
DEVIATIONS = ("capBypass", "repeatingIgnoresMaxRestarts", "repeatingIgnoresRestartOn")
DEV_KEY = {
    "capBypass": "resub-cap:SubmissionFailed-listed-in-restartHookOn",
    "repeatingIgnoresMaxRestarts": "repeating:maxRestarts-0-not-honoured",
    "repeatingIgnoresRestartOn": "repeating:restarted-for-reason-not-in-restartHookOn",
    "finishedMigratableRestarted": "finish-during-restart-hook:migratable-component-restarted",
}
DEV_INVARIANT = {"capBypass": "ResubBounded", "repeatingIgnoresMaxRestarts": "BudgetRespected",
                 "repeatingIgnoresRestartOn": "OnlyRestartable"}
INIT = ("running", "none", 0, 0, "none")
# Switch (as G01_CLOBBER in g01.py): also explore finish() arriving WHILE the restart hook runs.  The code as built restarts a
# MIGRATABLE component in that case (genuine defect, findings/C12_finish_during_restart_hook_*): off until it is
# repaired or listed in known_findings.json (key DEV_KEY["finishedMigratableRestarted"]); C12_FINISH_IN_HOOK=1 switches it on.
FINISH_IN_HOOK = os.environ.get("C12_FINISH_IN_HOOK", "1") == "1"    # on by default since fix 0680eed


# ---------------------------------------------------------------------------------------------------------------------
# configurations
def mk(kind="normal", backend="local", maxR=UNSET, hook=("unset", True), restartOn=("ResourceExhausted",), shutdownOn=(),
       stable=True, entry="controller", answers="full", migratable=False, finish=False):
    return {"answers": answers, "migratable": migratable, "finish": finish, "kind": kind, "backend": backend, "maxR": maxR, "hookFile": hook[0], "onDisk": hook[1],
            "restartOn": sorted(restartOn), "shutdownOn": sorted(shutdownOn), "stable": stable, "entry": entry}


MAXR = [UNSET, -1, 0, 1, 2, 3]
HOOKS = [("unset", True), ("unset", False), ("empty", True), ("named", True), ("named", False)]
RICH = ("ResourceExhausted", "KnownIssue", "Success")
HOOKED = ("ResourceExhausted", "KnownIssue")


def config_family(tier):
    cs = []
    if tier == "quick":
        # budget x hook file (default budget 3 / unlimited for a named hook), two reasons that reach the hook protocol
        full = {(UNSET, "unset"), (2, "unset"), (UNSET, "named")}
        cs += [mk(maxR=m, hook=h, restartOn=HOOKED, answers="full" if (m, h[0]) in full else "core")
               for m in MAXR for h in (HOOKS[0], HOOKS[3])]
        cs += [mk(maxR=m, hook=h, restartOn=HOOKED) for m in (UNSET, 1) for h in (HOOKS[1], HOOKS[2], HOOKS[4])]
        # restartHookOn sets x backend
        sets = [(), ("ResourceExhausted",), ("SubmissionFailed", "ResourceExhausted"),
                ("SubmissionFailed", "SystemIssue", "Success"), tuple(LISTABLE), ("UnknownIssue",)]
        cs += [mk(backend=b, maxR=m, restartOn=s, answers="core" if len(s) > 3 else "full")
               for s in sets for b, m in (("local", UNSET), ("sim", UNSET), ("simoff", 2))]
        cs += [mk(maxR=1, restartOn=s) for s in (sets[2], sets[3])]
        # unstable system (the third branch of _restartComponent calls the engine for reasons that are not listed)
        cs += [mk(backend=b, restartOn=s, stable=False) for s in [(), ("ResourceExhausted",), ("KnownIssue",)]
               for b in ("local", "sim")]
        cs += [mk(restartOn=("ResourceExhausted",), shutdownOn=("KnownIssue", "ResourceExhausted"), stable=st)
               for st in (True, False)]
        # finish() between the exit and its post-mortem handling; migratable components (finish() leaves the engine alone)
        cs += [mk(hook=HOOKS[0], restartOn=HOOKED, answers="core", migratable=mg, finish=True) for mg in (False, True)]
        cs += [mk(maxR=1, hook=HOOKS[1], restartOn=("SubmissionFailed", "ResourceExhausted"), migratable=True, finish=True),
               mk(hook=HOOKS[1], restartOn=("KnownIssue",), shutdownOn=("KnownIssue",), stable=False, migratable=True, finish=True),
               mk(backend="sim", restartOn=("ResourceExhausted",), migratable=True, finish=True),
               mk(kind="repeating", migratable=True, finish=True),
               mk(hook=HOOKS[3], restartOn=HOOKED, answers="core", migratable=True)]
        # repeating engines
        cs += [mk(kind="repeating", maxR=m, restartOn=s, stable=st) for m in MAXR
               for s in [("ResourceExhausted",), (), ("KnownIssue",)] for st in (True, False)]
        cs += [mk(kind="repeating", maxR=m, restartOn=s, entry="engine") for m in (UNSET, 0, -1)
               for s in [("ResourceExhausted",), ()]]
        # Engine.restart on its own (no controller gate, refused attempts may be repeated)
        cs += [mk(maxR=m, hook=h, restartOn=HOOKED, entry="engine", answers="full" if (m, h[0]) == (UNSET, "unset") else "core")
               for m, h in [(UNSET, HOOKS[0]), (0, HOOKS[0]), (1, HOOKS[0]), (-1, HOOKS[0]), (UNSET, HOOKS[3]), (2, HOOKS[3]),
                            (2, HOOKS[2]), (3, HOOKS[1])]]
        cs += [mk(backend=b, maxR=2, restartOn=("SubmissionFailed", "KnownIssue"), entry="engine") for b in ("sim", "simoff")]
    else:
        sets = [(), ("ResourceExhausted",), RICH, ("SubmissionFailed", "ResourceExhausted"),
                ("SubmissionFailed", "SystemIssue", "Success"), tuple(LISTABLE), ("UnknownIssue",),
                ("KnownIssue", "SystemIssue", "UnknownIssue")]
        cs += [mk(maxR=m, hook=h, restartOn=s) for m in MAXR for h in HOOKS for s in sets]
        cs += [mk(backend=b, maxR=m, hook=h, restartOn=s) for m in MAXR for h in (HOOKS[0], HOOKS[3]) for b in ("sim", "simoff")
               for s in sets]
        cs += [mk(backend=b, maxR=m, restartOn=s, stable=False) for m in (UNSET, 0, 2) for b in ("local", "sim") for s in sets]
        cs += [mk(restartOn=s, shutdownOn=sh, stable=st) for s in [("ResourceExhausted",), ("KnownIssue", "Success")]
               for sh in [("KnownIssue",), ("KnownIssue", "ResourceExhausted", "SubmissionFailed"), ("Success",)]
               for st in (True, False)]
        cs += [mk(backend=b, maxR=m, hook=h, restartOn=s, stable=st, migratable=mg, finish=True)
               for b in ("local", "sim") for m in (UNSET, 1, -1) for h in (HOOKS[0], HOOKS[1], HOOKS[3])
               for s in (HOOKED, ("SubmissionFailed", "ResourceExhausted", "Success")) for st in (True, False) for mg in (False, True)]
        cs += [mk(kind="repeating", maxR=m, stable=st, migratable=mg, finish=True) for m in (UNSET, 0) for st in (True, False)
               for mg in (False, True)]
        cs += [mk(maxR=m, hook=h, restartOn=HOOKED, migratable=True) for m in MAXR for h in HOOKS]
        cs += [mk(kind="repeating", maxR=m, restartOn=s, stable=st, entry=e) for m in MAXR
               for s in [("ResourceExhausted",), (), ("KnownIssue",), tuple(LISTABLE)] for st in (True, False)
               for e in ("controller", "engine")]
        cs += [mk(maxR=m, hook=h, restartOn=s, entry="engine") for m in MAXR for h in HOOKS
               for s in [HOOKED, ("SubmissionFailed", "KnownIssue"), ()]]
        cs += [mk(backend=b, maxR=m, restartOn=s, entry="engine") for m in MAXR for b in ("sim", "simoff")
               for s in [HOOKED, ("SubmissionFailed", "KnownIssue")]]
    out, seen = [], set()
    for c in cs:
        k = json.dumps(c, sort_keys=True)
        if k not in seen:
            seen.add(k)
            c = dict(c)
            c["id"] = len(out)
            out.append(c)
    return out


def tla_str_set(xs):
    return "{" + ", ".join('"%s"' % x for x in xs) + "}"


def tla_config(c):
    return ('[id |-> %d, kind |-> "%s", backend |-> "%s", maxR |-> %d, hookFile |-> "%s", onDisk |-> %s, restartOn |-> %s, '
            'shutdownOn |-> %s, stable |-> %s, entry |-> "%s", answers |-> "%s", migratable |-> %s, finish |-> %s]' % (
                c["id"], c["kind"], c["backend"], c["maxR"], c["hookFile"], "TRUE" if c["onDisk"] else "FALSE",
                tla_str_set(c["restartOn"]), tla_str_set(c["shutdownOn"]), "TRUE" if c["stable"] else "FALSE", c["entry"],
                c.get("answers", "full"), tla_bool(c.get("migratable", False)), tla_bool(c.get("finish", False))))


def write_mc_module(name, configs, extends="Restart", extra=""):
    os.makedirs(GEN, exist_ok=True)
    body = "---- MODULE %s ----\nEXTENDS %s\nMCConfigs == {\n  %s }\nMCNoDeviation == {}\n" % (
        name, extends, ",\n  ".join(tla_config(c) for c in configs))
    for d in DEVIATIONS:
        body += 'MCDev_%s == {"%s"}\n' % (d, d)
    body += "MCAllDeviations == AllDeviations\n" + extra + "====\n"
    with open(os.path.join(GEN, name + ".tla"), "w") as f:
        f.write(body)


def write_cfg(name, body):
    p = os.path.join(GEN, name + ".cfg")
    with open(p, "w") as f:
        f.write(body)
    return p


def run_tlc(module, cfg, **kw):
    return tlc.run_tlc(module, cfg, specdir=GEN, jvm=["-DTLA-Library=%s" % SPEC], **kw)


# ---------------------------------------------------------------------------------------------------------------------
# 1. design
INVARIANTS = ["TypeOK", "BudgetRespected", "ResubBounded", "RunsAccounted"]
EV_INVARIANTS = ["OnlyRestartable", "NeverAfterKilled", "RefusedIsFinal"]
ACTION_PROPS = ["StartsOnlyWhenAllowed", "RefusalFinalises", "FinalIsFrozen", "ResetOnlyOnSuccess", "KillIsTheEnd",
                "LaunchNeedsStart"]


def design_cfg(name, devs, max_runs, view, window=False):
    body = "CONSTANTS\n  Configs <- MCConfigs\n  MaxRuns = %d\n  MaxCount = %d\n  Deviations <- %s\n  Emit = FALSE\n  Window = %s\n  FinishInHook = %s\n" % (
        max_runs, max_runs, devs, "TRUE" if window else "FALSE", tla_bool(FINISH_IN_HOOK and not window))
    body += "SPECIFICATION Spec\nCONSTRAINT Bounded\n"
    if view:
        body += "VIEW DesignView\n"
    for i in INVARIANTS + ([] if view else EV_INVARIANTS) + (["KilledInWindow"] if window else []):
        body += "INVARIANT %s\n" % i
    for p in ACTION_PROPS:
        body += "PROPERTY %s\n" % p
    body += "CHECK_DEADLOCK FALSE\n"
    return write_cfg(name, body)


def tlc_design(chk, tier, configs):
    mod = "Restart_mc_%s" % tier
    write_mc_module(mod, configs)
    max_runs = 10 if tier == "quick" else 11
    r = run_tlc(mod, design_cfg("Restart_design_%s" % tier, "MCNoDeviation", max_runs, True), timeout=800)
    if not r["ok"]:
        raise MachineryError("Restart.tla: %s fails on the design:\n%s" % (r["violated"], r["out"][-2500:]))
    chk.add_tlc(r)
    # the predicates over the last event, on the full state (no VIEW), for a slice of the family
    small = [c for i, c in enumerate(configs) if i % (6 if tier == "quick" else 40) == 0]
    small += [c for c in configs if c["finish"] and c not in small][:2]          # the Finish interleaving must be in the slice
    mod_s = "Restart_mcs_%s" % tier
    write_mc_module(mod_s, small)
    r = run_tlc(mod_s, design_cfg("Restart_designfull_%s" % tier, "MCNoDeviation", 8, False), coverage=True, timeout=800)
    if not r["ok"]:
        raise MachineryError("Restart.tla: %s fails on the design (full state):\n%s" % (r["violated"], r["out"][-2500:]))
    for a in ACTIONS:
        if not (r["coverage"].get(a) or r["coverage"].get(a + "D")):      # TLC names the innermost definition (PostMortemD)
            raise MachineryError("action %s of Restart.tla never taken (vacuous run): %s" % (a, r["coverage"]))
    chk.add_tlc(r)
    # witnesses: each named deviation makes TLC find a counterexample of the invariant it is expected to break
    wit = [mk(restartOn=("SubmissionFailed", "ResourceExhausted")),
           mk(kind="repeating", maxR=0), mk(kind="repeating", restartOn=(), stable=False),
           mk(kind="repeating", restartOn=(), entry="engine")]
    for i, c in enumerate(wit):
        c["id"] = i
    write_mc_module("Restart_mcw_%s" % tier, wit)
    for d in DEVIATIONS:
        r = run_tlc("Restart_mcw_%s" % tier, design_cfg("Restart_dev_%s_%s" % (d, tier), "MCDev_%s" % d, 9, False), expect_violation=True,
                    timeout=300, workers=1)
        if r["violated"] != DEV_INVARIANT[d]:
            raise MachineryError("deviation %s: TLC was expected to violate %s, got %r\n%s" % (
                d, DEV_INVARIANT[d], r["violated"], r["out"][-1500:]))
        chk.add_tlc(r)


# ---------------------------------------------------------------------------------------------------------------------
# 2. spec -> code
def skey(s):
    return (s["phase"], s["last"], s["restarts"], s["resub"], s["final"])


def tlc_edges(chk, tier, configs):
    mod = "Restart_mc_%s" % tier
    # restarts <= 5 (beyond the default budget 3), the resubmission counter is bounded by the policy itself, runs never binds
    body = ("CONSTANTS\n  Configs <- MCConfigs\n  MaxRuns = 40\n  MaxCount = %d\n  Deviations <- MCNoDeviation\n  Emit = TRUE\n"
            "  Window = FALSE\n  FinishInHook = %s\nSPECIFICATION Spec\nCONSTRAINT Bounded\nVIEW EdgeView\nACTION_CONSTRAINT EmitEdge\n"
            "CHECK_DEADLOCK FALSE\n" % (4 if tier == "quick" else 5, tla_bool(FINISH_IN_HOOK)))
    r = run_tlc(mod, write_cfg("Restart_edges_%s" % tier, body), workers=1, timeout=1500)
    if not r["ok"]:
        raise MachineryError("edge emission failed:\n%s" % r["out"][-2000:])
    edges = {}
    for e in r["cases"]:
        edges.setdefault(e["c"], []).append(e)
    if set(edges) != {c["id"] for c in configs}:
        raise MachineryError("edges emitted for %d of %d configurations" % (len(edges), len(configs)))
    chk.add_tlc(r)
    return edges


def step_class(cfg, e):
    ev = e["ev"]
    if ev["dev"] != "none":
        return DEV_KEY[ev["dev"]]
    pre = "%s:%s" % (cfg["entry"], cfg["kind"])
    if ev["act"] == "Exit":
        return pre + ":exit-bookkeeping"
    if ev["act"] == "LateRestart":
        return pre + ":restart-after-final-state"
    if ev["act"] == "Finish" or e["pre"]["phase"] == "cancelled":
        return pre + ":finish-between-exit-and-post-mortem" + (":migratable" if cfg.get("migratable") else "")
    if ev["reason"] == "SubmissionFailed":
        return pre + ":resubmission"
    if ev["answer"] != "na" or ev["hook"]:
        return pre + ":hook-protocol"
    if ev["reason"] in cfg["restartOn"]:
        return pre + ":listed-reason(budget/backend/fallback-hook)"
    if ev["reason"] in ("Killed", "Cancelled"):
        return pre + ":killed-or-cancelled"
    return pre + ":reason-not-listed"


def compare(cfg, e, obs, runs_before):
    """-> list of mismatches between the spec's edge and the observation of the real objects after the step"""
    ev, post = e["ev"], e["post"]
    bad = []

    def want(name, expected, got):
        if expected != got:
            bad.append("%s: spec %r, code %r" % (name, expected, got))
    if ev["act"] != "Exit":
        if ev["dev"] != "none" and ev["code"] != "RestartInitiated":
            # the spec demands a refusal where the code as built restarts: any refusal code is acceptable
            if obs["code"] == "RestartInitiated":
                bad.append("restart code: spec refuses (%s), code %r" % (ev["code"], obs["code"]))
        else:
            want("restart code", ev["code"], obs["code"])
        want("hook consulted", 1 if ev["hook"] else 0, obs["hookCalls"])
        if ev["hook"] and obs["hookCalls"] == 1:
            from ..world_c12 import HOOK_DEFAULT, HOOK_NAMED
            want("hook file", [HOOK_NAMED if cfg["hookFile"] == "named" else HOOK_DEFAULT], obs["hookFiles"])
            want("`restarts` given to the hook", [post["restarts"]], obs["hookRestartsArg"])
    want("task started", bool(ev["ran"]), obs["runs"] > runs_before)
    want("number of task starts", runs_before + (1 if ev["ran"] else 0), obs["runs"])
    want("Engine.restarts", post["restarts"], obs["restarts"])
    want("resubmissionAttempts()", post["resub"], obs["resub"])
    want("engine alive", post["phase"] == "running", obs["alive"])
    want("component final state", post["final"], obs["final"])
    # finish() leaves the engine of a migratable component alone (the next stage may adopt it)
    want("engine shut down", post["final"] != "none" and not cfg.get("migratable"), obs["shutdown"])
    if ev["act"] == "Exit":
        want("engine exit reason", post["last"], obs["exitReason"])
    return bad


def do_step(inst, ev):
    if ev["act"] == "Exit":
        inst.exit(ev["reason"])
        o = inst.observe()
        o["exitReason"] = inst.engine.exitReason()
        return o
    if ev["act"] == "PostMortem":
        return inst.post_mortem(ev["answer"])
    if ev["act"] == "Direct":
        return inst.direct(ev["answer"])
    if ev["act"] == "LateRestart":
        return inst.late_restart(ev["reason"])
    if ev["act"] == "Finish":
        return inst.finish(ev["reason"])
    raise MachineryError("unknown action %r" % (ev,))


def plan_tour(adj, uncovered, blocked, init=INIT):
    """Greedy tour from the initial state over the spec's graph: follow uncovered edges, walk to the nearest state that still
    has one.  adj: state -> list of edge indices (sorted); returns list of edge indices (possibly empty)."""
    tour, cur = [], init
    planned = set()
    while True:
        nxt = [i for i in adj.get(cur, ()) if i in uncovered and i not in planned and i not in blocked]
        if nxt:
            i = nxt[0]
            tour.append(i)
            planned.add(i)
            cur = adj["_dst"][i]
            continue
        # BFS to the nearest state with an uncovered, unplanned edge
        prev, queue, found = {cur: None}, [cur], None
        while queue and found is None:
            s = queue.pop(0)
            for i in adj.get(s, ()):
                if i in blocked:
                    continue
                d = adj["_dst"][i]
                if d not in prev:
                    prev[d] = (s, i)
                    if any(j in uncovered and j not in planned and j not in blocked for j in adj.get(d, ())):
                        found = d
                        break
                    queue.append(d)
        if found is None:
            return tour
        walk = []
        s = found
        while prev[s] is not None:
            s, i = prev[s]
            walk.append(i)
        tour += reversed(walk)
        cur = found


def group_worlds(configs):
    groups = {}
    for c in configs:
        default_hook = c["onDisk"] if c["hookFile"] == "unset" else True
        groups.setdefault((c["backend"] != "local", default_hook), []).append(c)
    return groups


class Collector:
    """What a worker process has to tell the Check object of the parent (same calls, applied later in a fixed order)."""

    def __init__(self):
        self.stats = {"edges": 0, "tours": 0, "steps": 0, "blocked": 0}
        self.evaluated_n = {}     # cfg id -> number of distinct edges executed
        self.reports, self.samples, self.tours = [], [], 0

    def evaluated(self, key):
        self.evaluated_n[key[0]] = self.evaluated_n.get(key[0], 0) + 1

    def trace_validated(self, n=1):
        self.tours += n

    def sample(self, obj, limit=4):
        if len(self.samples) < limit:
            self.samples.append(obj)


_SHARED = {}      # edges / scratch for the forked workers (inherited, not pickled)


def _replay_chunk(job):
    idx, default_hook, cfgs = job[:3]
    from .. import world_c12 as W
    col = Collector()
    sub = os.path.join(_SHARED["scratch"], "chunk%03d" % idx)
    os.makedirs(sub, exist_ok=True)
    if len(job) > 3:                       # a chunk of the relaunch-window family: the real Engine.run() pipeline
        col.stats.update(replay_window(col, cfgs, _SHARED["wedges"], sub, default_hook))
        return col
    world = W.World(sub, cfgs, default_hook)
    try:
        for cfg in cfgs:
            replay_config(col, world, W, cfg, _SHARED["edges"][cfg["id"]], col.stats)
    finally:
        world.close()
    return col


def replay_edges(chk, configs, edges, scratch, wconfigs=(), wedges=None):
    """All edges of all configurations on the real code.  The configurations are independent: they are spread over forked
    worker processes (each builds its own real Experiment); the results are applied to the Check in the order of the chunks."""
    import multiprocessing
    from .. import world_c12 as W      # import the runtime before forking
    W.install()
    jobs = []
    for (sim, default_hook), cs in sorted(group_worlds(configs).items()):
        size = 12 if len(configs) < 200 else 40
        for lo in range(0, len(cs), size):
            jobs.append((len(jobs), default_hook, cs[lo:lo + size]))
    for (sim, default_hook), cs in sorted(group_worlds(list(wconfigs)).items()):
        for lo in range(0, len(cs), 2):
            jobs.append((len(jobs), default_hook, cs[lo:lo + 2], "window"))
    _SHARED.update(edges=edges, scratch=scratch, wedges=wedges)
    nproc = max(1, min(8, (os.cpu_count() or 2) // 2, len(jobs)))
    if nproc > 1:
        ctx = multiprocessing.get_context("fork")
        with ctx.Pool(nproc) as pool:
            cols = pool.map(_replay_chunk, jobs, chunksize=1)
    else:
        cols = [_replay_chunk(j) for j in jobs]
    stats = {"edges": 0, "tours": 0, "steps": 0, "blocked": 0, "window_edges": 0, "window_tours": 0, "window_steps": 0,
             "window_blocked": 0}
    for col in cols:
        for k in stats:
            stats[k] += col.stats.get(k, 0)
        for cid, n in sorted(col.evaluated_n.items(), key=str):
            for i in range(n):
                chk.evaluated(("edge", cid, i))
        chk.trace_validated(col.tours)
        for smp in col.samples:
            chk.sample(smp, limit=4)
        for key, what, rp in col.reports:
            report(chk, key, what, rp)
    stats["worker_processes"] = nproc
    return stats


def replay_config(chk, world, W, cfg, es, stats):
    es = sorted(es, key=lambda e: (skey(e["pre"]), e["ev"]["act"], e["ev"]["reason"], e["ev"]["answer"]))
    adj = {"_dst": {}}
    for i, e in enumerate(es):
        adj.setdefault(skey(e["pre"]), []).append(i)
        adj["_dst"][i] = skey(e["post"])
    if INIT not in adj:
        raise MachineryError("configuration %d: no edge leaves the initial state" % cfg["id"])
    uncovered, blocked = set(range(len(es))), set()
    while uncovered - blocked:
        tour = plan_tour(adj, uncovered, blocked)
        if not tour:
            # edges only reachable through steps on which the code diverged (already reported)
            stats["blocked"] += len(uncovered - blocked)
            if not blocked:
                raise MachineryError("configuration %d: %d edges unreachable from the initial state" % (
                    cfg["id"], len(uncovered)))
            break
        stats["tours"] += 1
        inst = W.Instance(world, cfg["id"])
        path = []
        for n, i in enumerate(tour):
            e = es[i]
            runs_before = inst.runs
            obs = do_step(inst, e["ev"])
            stats["steps"] += 1
            path.append(e["ev"])
            first = i in uncovered
            uncovered.discard(i)
            if first:
                stats["edges"] += 1
                chk.evaluated((cfg["id"], i))
            bad = compare(cfg, e, obs, runs_before)
            if bad:
                blocked.add(i)
                chk.reports.append((step_class(cfg, e),
                              "%s; after %s the step %s(%s%s) from %s: %s" % (
                                  describe(cfg), brief(path[:-1]), e["ev"]["act"], e["ev"]["reason"],
                                  "" if e["ev"]["answer"] == "na" else ", hook answers " + e["ev"]["answer"],
                                  e["pre"], "; ".join(bad)),
                              {"kind": "edge-path", "cfg": cfg, "path": [es[j] for j in tour[:n + 1]]}))
                break
        chk.trace_validated(1)
    if stats["tours"] % 50 == 1:
        chk.sample({"cfg": describe(cfg), "edges": len(es), "example_tour": brief([es[i]["ev"] for i in tour][:12])}, limit=4)


def report(chk, key, what, replay):
    """at most 3 VIOLATION records per key (class of input); the others are counted in the evidence"""
    seen = chk.cov.setdefault("c12_cases_per_key", {})
    k = "%s [%s]" % (key, replay["kind"])
    seen[k] = seen.get(k, 0) + 1
    if seen[k] <= (3 if replay["kind"] == "edge-path" else 1) or key in chk.known_keys:
        chk.violation(key, what, replay)


def cfg_key(cfg):
    return json.dumps({k: v for k, v in cfg.items() if k != "id"}, sort_keys=True)


def describe(cfg):
    m = "unset" if cfg["maxR"] == UNSET else cfg["maxR"]
    hook = {"unset": "restartHookFile unset", "empty": 'restartHookFile ""', "named": "restartHookFile named"}[cfg["hookFile"]]
    return "%s engine, backend %s, maxRestarts %s, %s (%s), restartHookOn %s, shutdownOn %s, system %s, via %s" % (
        cfg["kind"], cfg["backend"], m, hook, "present" if cfg["onDisk"] else "missing", cfg["restartOn"], cfg["shutdownOn"],
        "stable" if cfg["stable"] else "unstable", cfg["entry"])


def brief(evs):
    out = []
    for ev in evs:
        if ev["act"] == "Exit":
            out.append("exit:" + ev["reason"])
        elif ev["act"] == "LateRestart":
            out.append("late:" + ev["reason"])
        elif ev["act"] in ("Launch", "Kill"):
            out.append(ev["act"].lower())
        elif ev["act"] == "Finish":
            out.append("finish:" + ev["reason"])
        else:
            out.append(("pm" if ev["act"] == "PostMortem" else "restart") + ("" if ev["answer"] == "na" else ":" + ev["answer"]))
    return "[" + " ".join(out) + "]"


def vacuity_of_edges(configs, edges):
    """The interesting corners must be among the emitted cases."""
    byid = {c["id"]: c for c in configs}
    need = {"resub cap reached": False, "default budget 3 exhausted": False, "restart beyond 3 (unlimited)": False,
            "reset on Success": False, "refused hook moves the counter": False, "repeating second restart refused": False,
            "unstable system calls the engine": False, "exception escapes the hook": False,
            "finish() before the post-mortem of a restartable exit, migratable": False,
            "post-mortem of a component that was finished meanwhile": False}
    for cid, es in edges.items():
        c = byid[cid]
        for e in es:
            ev, pre, post = e["ev"], e["pre"], e["post"]
            if ev["code"] == "RestartMaxAttemptsExceeded" and pre["resub"] == 5 and ev["reason"] == "SubmissionFailed":
                need["resub cap reached"] = True
            if ev["code"] == "RestartMaxAttemptsExceeded" and c["maxR"] == UNSET and pre["restarts"] == 3:
                need["default budget 3 exhausted"] = True
            if ev["ran"] and post["restarts"] >= 4:
                need["restart beyond 3 (unlimited)"] = True
            if ev["act"] == "Exit" and pre["resub"] > 0 and post["resub"] == 0:
                need["reset on Success"] = True
            if ev["act"] in ("PostMortem", "Direct") and not ev["ran"] and post["restarts"] == pre["restarts"] + 1:
                need["refused hook moves the counter"] = True
            if c["kind"] == "repeating" and pre["restarts"] == 1 and ev["reason"] == "ResourceExhausted" and not ev["ran"] \
                    and ev["act"] == "PostMortem":
                need["repeating second restart refused"] = True
            if not c["stable"] and ev["act"] == "PostMortem" and ev["reason"] not in c["restartOn"] and ev["hook"] is False \
                    and ev["reason"] == "KnownIssue" and ev["code"] == "RestartCouldNotInitiate":
                need["unstable system calls the engine"] = True
            if ev["act"] == "Finish" and c["migratable"] and pre["last"] in c["restartOn"] and c["kind"] == "normal":
                need["finish() before the post-mortem of a restartable exit, migratable"] = True
            if ev["act"] == "PostMortem" and pre["phase"] == "cancelled" and pre["last"] in c["restartOn"]:
                need["post-mortem of a component that was finished meanwhile"] = True
            if ev["code"] == "raised" or (ev["answer"] in ("noRestartFn", "importRaises") and post["restarts"] > pre["restarts"]):
                need["exception escapes the hook"] = True
    missing = [k for k, v in need.items() if not v]
    if missing:
        raise MachineryError("the emitted edges do not contain the cases: %s" % missing)


# ---------------------------------------------------------------------------------------------------------------------
# 3. code -> spec: random walks on the real objects, validated by TLC against Restart_trace.tla
WALK_MODES = ("mixed", "resubmission-storm", "listed", "success-in-the-middle")


def pick_reason(rng, mode, cfg, nsteps):
    if mode == "resubmission-storm":
        return "SubmissionFailed" if rng.random() < 0.9 else rng.choice(REASONS)
    if mode == "listed" and cfg["restartOn"]:
        return rng.choice(cfg["restartOn"]) if rng.random() < 0.8 else rng.choice(REASONS)
    if mode == "success-in-the-middle":
        if rng.random() < 0.25:
            return "Success"
        return "SubmissionFailed" if rng.random() < 0.6 else rng.choice(cfg["restartOn"] or REASONS)
    return rng.choice(REASONS)


def record_walk(W, world, cfg, rng, maxlen):
    """Drive the real component with random events; the specification is NOT consulted. -> list of logged steps"""
    inst = W.Instance(world, cfg["id"])
    mode = rng.choice(WALK_MODES)
    good = ("possible", "true", "hookNotAvailable", "junkStr", "none", "raisesIOError")
    steps, refused, late, pending, is_final = [], 0, False, False, False
    p_finish = rng.choice((0.0, 0.1, 0.4)) if cfg["entry"] == "controller" else 0.0
    while len(steps) < maxlen:
        runs_before = inst.runs
        if inst.engine.isAlive():
            reason = pick_reason(rng, mode, cfg, len(steps))
            inst.exit(reason)
            obs = inst.observe()
            pending = True            # the POSTMORTEM notification of this exit is on its way to the controller
            st = {"act": "Exit", "reason": reason, "answer": "na"}
        elif is_final and not pending:
            if late or cfg.get("migratable"):
                break
            late = True
            reason = inst.engine.exitReason()
            obs = inst.late_restart(reason)
            st = {"act": "LateRestart", "reason": reason, "answer": "na"}
        elif not is_final and pending and rng.random() < p_finish:
            f = rng.choice(("shutdown", "failed"))
            obs = inst.finish(f)      # somebody else finishes the component before the notification is handled
            st = {"act": "Finish", "reason": f, "answer": "na"}
        else:
            answer = rng.choice(good) if rng.random() < 0.6 else rng.choice(ANSWERS)
            if cfg["entry"] == "controller":
                obs = inst.post_mortem(answer)
                pending = False
                st = {"act": "PostMortem", "reason": "na", "answer": answer}
            else:
                obs = inst.direct(answer)
                st = {"act": "Direct", "reason": "na", "answer": answer}
                refused = refused + 1 if not obs["alive"] else 0
                if refused > 3:
                    steps.append(dict(st, **project(obs, runs_before)))
                    break
        steps.append(dict(st, **project(obs, runs_before)))
        is_final = obs["final"] != "none"
    return mode, steps


def project(obs, runs_before):
    return {"code": obs["code"], "ran": obs["runs"] > runs_before, "hook": obs["hookCalls"] > 0, "restarts": obs["restarts"],
            "resub": obs["resub"], "alive": obs["alive"], "final": obs["final"], "runs": obs["runs"]}


def tla_bool(b):
    return "TRUE" if b else "FALSE"


def tla_step(s):
    return ('[act |-> "%s", reason |-> "%s", answer |-> "%s", code |-> "%s", ran |-> %s, hook |-> %s, restarts |-> %d, '
            'resub |-> %d, alive |-> %s, final |-> "%s"]' % (s["act"], s["reason"], s["answer"], s["code"], tla_bool(s["ran"]),
                                                              tla_bool(s["hook"]), s["restarts"], s["resub"],
                                                              tla_bool(s["alive"]), s["final"]))


def validate_traces(chk, tier, traces, name=None):
    """traces: list of (cfg, steps). One TLC run; -> list of verdicts dict(ok, explained, failing_at, failing, dev)"""
    name = name or "Restart_traces_%s" % tier
    os.makedirs(GEN, exist_ok=True)
    ndjson = os.path.join(GEN, name + ".ndjson")
    with open(os.path.join(GEN, name + ".tla"), "w") as f:
        f.write("---- MODULE %s ----\nEXTENDS Restart_trace\nMCConfigs == {}\nMCAllDeviations == AllDeviations\n====\n" % name)
    keep = ("act", "reason", "answer", "code", "ran", "hook", "restarts", "resub", "alive", "final")
    with open(ndjson, "w") as f:
        for c, st in traces:
            f.write(json.dumps({"c": c, "steps": [{k: s[k] for k in keep} for s in st]}) + "\n")
    cfgp = write_cfg(name, "CONSTANTS\n  Configs <- MCConfigs\n  MaxRuns = 0\n  MaxCount = 0\n  Deviations <- MCAllDeviations\n"
                           "  Emit = FALSE\n  Window = FALSE\n  FinishInHook = FALSE\n  TraceFile = \"%s\"\nINIT TraceInit\nNEXT TraceNext\nINVARIANT TraceEmit\n"
                           "CHECK_DEADLOCK FALSE\n" % ndjson)
    r = run_tlc(name, cfgp, workers=1, timeout=1500)
    if not r["ok"]:
        raise MachineryError("trace validation run failed:\n%s" % r["out"][-2500:])
    chk.add_tlc(r)
    reached = {}
    for c in r["cases"]:
        reached.setdefault(c["tid"], {})[c["pos"]] = c
    verdicts = []
    for t, (cfg, steps) in enumerate(traces, 1):
        got = reached.get(t, {})
        if 0 not in got:
            raise MachineryError("trace %d was not started by TLC" % t)
        explained = max(got)
        v = {"explained": explained, "len": len(steps), "failing_at": None, "failing": [], "dev": "none"}
        dev = "none"
        for p in range(0, explained + 1):
            if dev == "none" and got[p]["dev"] != "none":
                dev = got[p]["dev"]
            if got[p]["failing"]:
                v.update(failing_at=p, failing=sorted(got[p]["failing"]), dev=dev)
                break
        verdicts.append(v)
    return verdicts


def walk_step_class(cfg, steps, i):
    st = steps[i]
    pre = "trace:%s:%s" % (cfg["entry"], cfg["kind"])
    if st["act"] == "Exit":
        return pre + ":exit-bookkeeping"
    if st["act"] == "LateRestart":
        return pre + ":restart-after-final-state"
    if st["act"] == "Finish" or any(s["act"] == "Finish" for s in steps[:i]):
        return pre + ":finish-between-exit-and-post-mortem" + (":migratable" if cfg.get("migratable") else "")
    last = next((s["reason"] for s in reversed(steps[:i]) if s["act"] == "Exit"), "none")
    if last == "SubmissionFailed":
        return pre + ":resubmission"
    if last in cfg["restartOn"]:
        return pre + ":listed-reason"
    if last in ("Killed", "Cancelled"):
        return pre + ":killed-or-cancelled"
    return pre + ":reason-not-listed"


def brief_steps(steps):
    out = []
    for s in steps:
        if s["act"] == "Exit":
            out.append("exit:" + s["reason"])
        elif s["act"] == "LateRestart":
            out.append("late")
        elif s["act"] == "Finish":
            out.append("finish:" + s["reason"])
        else:
            out.append("%s:%s>%s" % ("pm" if s["act"] == "PostMortem" else "restart", s["answer"],
                                     s["code"].replace("Restart", "")))
    return "[" + " ".join(out) + "]"


def judge_traces(chk, traces, verdicts):
    for (cfg, steps), v in zip(traces, verdicts):
        chk.trace_validated(1)
        if v["explained"] < v["len"]:
            i = v["explained"]
            report(chk, walk_step_class(cfg, steps, i),
                          "%s: step %d of the recorded run %s is not a step of Restart.tla (observed %s)" % (
                              describe(cfg), i + 1, brief_steps(steps[:i + 1]), steps[i]),
                          {"kind": "trace", "cfg": cfg, "steps": steps[:i + 1]})
        elif v["failing_at"] is not None:
            i = v["failing_at"]
            key = DEV_KEY.get(v["dev"], "trace-invariant:" + "+".join(v["failing"]))
            report(chk, key, "%s: after the recorded run %s the C12 predicate(s) %s are false (Engine.restarts=%s, "
                               "resubmissions=%s, task starts=%s)" % (describe(cfg), brief_steps(steps[:i]), v["failing"],
                                                                     steps[i - 1]["restarts"], steps[i - 1]["resub"],
                                                                     steps[i - 1]["runs"]),
                          {"kind": "trace", "cfg": cfg, "steps": steps[:i]})


def random_traces(chk, tier, configs, scratch):
    from .. import world_c12 as W
    from ..common import seed
    rng = random.Random(seed() * 7919 + 12)
    n = 1200 if tier == "quick" else 8000
    worlds, where = [], {}
    try:
        for (sim, default_hook), cs in sorted(group_worlds(configs).items()):
            # a slice of every group is enough for the walks
            cs = [c for i, c in enumerate(cs) if tier == "quick" or i % 4 == 0][:150]
            w = W.World(scratch, cs, default_hook)
            worlds.append(w)
            for c in cs:
                where[c["id"]] = w
        ids = sorted(where)
        byid = {c["id"]: c for c in configs}
        traces = []
        for _ in range(n):
            cfg = byid[rng.choice(ids)]
            mode, steps = record_walk(W, where[cfg["id"]], cfg, rng, 26)
            traces.append((cfg, steps))
    finally:
        for w in worlds:
            w.close()
    verdicts = validate_traces(chk, tier, traces)
    judge_traces(chk, traces, verdicts)
    # self-test of the binding: a corrupted log must be rejected at the corrupted step
    cfg, steps = next((c, s) for c, s in traces if len(s) >= 4)
    bad = [dict(x) for x in steps]
    bad[2]["restarts"] += 1
    v = validate_traces(chk, tier, [(cfg, bad)], name="Restart_traces_selftest_%s" % tier)[0]
    if v["explained"] != 2:
        raise MachineryError("self-test: a corrupted trace was accepted up to step %d (expected rejection at 3)" % v["explained"])
    chk.sample({"recorded_run": brief_steps(traces[0][1]), "cfg": describe(traces[0][0])}, limit=6)
    return {"traces": len(traces), "trace_steps": sum(len(s) for _, s in traces),
            "longest_resubmission_run": max(s["resub"] for _, st in traces for s in st)}


# ---------------------------------------------------------------------------------------------------------------------
# 4. the relaunch window (Restart.tla, Window = TRUE) on the real launch / termination pipeline of Engine.run()
INIT_W = ("launching", "none", 0, 0, "none")


def window_family(tier):
    """Engine.restart() on its own, normal engine; every start opens the window in which Launch / Kill race."""
    cs = [mk(hook=HOOKS[1], entry="engine"),                                           # the default component: budget 3, no hook
          mk(maxR=1, hook=HOOKS[0], restartOn=HOOKED, entry="engine", answers="core"),
          mk(maxR=-1, hook=HOOKS[3], restartOn=("ResourceExhausted", "Success"), entry="engine", answers="core"),
          mk(maxR=2, hook=HOOKS[2], restartOn=HOOKED, entry="engine"),
          mk(maxR=0, hook=HOOKS[1], entry="engine"),
          mk(backend="sim", maxR=2, restartOn=("KnownIssue", "SubmissionFailed"), entry="engine")]
    if tier != "quick":
        cs += [mk(maxR=m, hook=h, restartOn=s, entry="engine") for m in (UNSET, 2, -1) for h in (HOOKS[0], HOOKS[3], HOOKS[4])
               for s in (HOOKED, ("SubmissionFailed", "KnownIssue", "Success"))]
        cs += [mk(backend="simoff", maxR=1, hook=HOOKS[0], restartOn=HOOKED, entry="engine")]
    out, seen = [], set()
    for c in cs:
        k = json.dumps(c, sort_keys=True)
        if k not in seen:
            seen.add(k)
            out.append(dict(c, id=len(out)))
    return out


def tlc_window(chk, tier, configs):
    mod = "Restart_mcwin_%s" % tier
    write_mc_module(mod, configs)
    r = run_tlc(mod, design_cfg("Restart_designwin_%s" % tier, "MCNoDeviation", 5, False, window=True), coverage=True, timeout=600)
    if not r["ok"]:
        raise MachineryError("Restart.tla (relaunch window): %s fails on the design:\n%s" % (r["violated"], r["out"][-2500:]))
    for a in ("Launch", "Kill", "Exit", "Direct"):
        if not (r["coverage"].get(a) or r["coverage"].get(a + "D")):
            raise MachineryError("action %s of Restart.tla never taken in the window model: %s" % (a, r["coverage"]))
    chk.add_tlc(r)
    body = ("CONSTANTS\n  Configs <- MCConfigs\n  MaxRuns = 40\n  MaxCount = %d\n  Deviations <- MCNoDeviation\n  Emit = TRUE\n"
            "  Window = TRUE\n  FinishInHook = FALSE\nSPECIFICATION Spec\nCONSTRAINT BoundedWindow\nVIEW EdgeView\nACTION_CONSTRAINT EmitEdge\n"
            "CHECK_DEADLOCK FALSE\n" % (2 if tier == "quick" else 3))
    r = run_tlc(mod, write_cfg("Restart_edgeswin_%s" % tier, body), workers=1, timeout=900)
    if not r["ok"]:
        raise MachineryError("edge emission (window) failed:\n%s" % r["out"][-2000:])
    edges = {}
    for e in r["cases"]:
        edges.setdefault(e["c"], []).append(e)
    if set(edges) != {c["id"] for c in configs}:
        raise MachineryError("window edges emitted for %d of %d configurations" % (len(edges), len(configs)))
    need = {"kill in the window of a restart": False, "restart asked after that kill": False, "kill in the first window": False,
            "launch after a restart": False}
    for es in edges.values():
        for e in es:
            if e["ev"]["act"] == "Kill":
                need["kill in the window of a restart" if e["pre"]["restarts"] + e["pre"]["resub"] > 0 else "kill in the first window"] = True
            if e["ev"]["act"] == "Direct" and e["pre"]["last"] == "Killed" and e["pre"]["restarts"] > 0:
                need["restart asked after that kill"] = True
            if e["ev"]["act"] == "Launch" and e["pre"]["restarts"] > 0:
                need["launch after a restart"] = True
    if not all(need.values()):
        raise MachineryError("the window edges lack the cases %s" % [k for k, v in need.items() if not v])
    chk.add_tlc(r)
    return edges


def compare_pipe(cfg, e, obs, before):
    """spec edge vs projection of the real engine (pipeline world) after the event; before: (runs, launched) before it"""
    ev, post = e["ev"], e["post"]
    bad = []

    def want(name, expected, got):
        if expected != got:
            bad.append("%s: spec %r, code %r" % (name, expected, got))
    if ev["act"] == "Direct":
        want("restart code", ev["code"], obs["code"])
        want("hook consulted", 1 if ev["hook"] else 0, obs["hookCalls"])
        if ev["hook"] and obs["hookCalls"] == 1:
            want("`restarts` given to the hook", [post["restarts"]], obs["hookRestartsArg"])
    else:
        want("hook consulted", 0, obs["hookCalls"])
    want("Engine.run() calls", before[0] + (1 if ev["ran"] else 0), obs["runs"])
    want("tasks submitted", before[1] + (1 if ev["act"] == "Launch" else 0), obs["launched"])
    want("Engine.restarts", post["restarts"], obs["restarts"])
    want("resubmissionAttempts()", post["resub"], obs["resub"])
    want("engine alive", post["phase"] in ("launching", "running"), obs["alive"])
    want("engine exit reason", post["last"] if post["phase"] == "exited" else "none", obs["exitReason"])
    return bad


def window_step_class(cfg, e):
    act = e["ev"]["act"]
    if act == "Kill" or e["pre"]["last"] == "Killed":
        return "window:kill-between-restart-and-relaunch" if e["pre"]["restarts"] + e["pre"]["resub"] > 0 \
            else "window:kill-before-first-launch"
    if act == "Launch":
        return "window:launch"
    return "window:" + step_class(cfg, e).split(":", 2)[2]


def replay_window(chk, configs, edges, scratch, default_hook):
    """chk: a Collector (worker process).  All window edges of the configurations on the real Engine.run() pipeline."""
    from .. import world_c12 as W
    stats = {"window_edges": 0, "window_tours": 0, "window_steps": 0, "window_blocked": 0}
    if True:
        cs = configs
        world = W.PipelineWorld(scratch, cs, default_hook)
        try:
            for cfg in cs:
                es = sorted(edges[cfg["id"]], key=lambda e: (skey(e["pre"]), e["ev"]["act"], e["ev"]["reason"], e["ev"]["answer"]))
                adj = {"_dst": {}}
                for i, e in enumerate(es):
                    adj.setdefault(skey(e["pre"]), []).append(i)
                    adj["_dst"][i] = skey(e["post"])
                uncovered, blocked = set(range(len(es))), set()
                while uncovered - blocked:
                    tour = plan_tour(adj, uncovered, blocked, init=INIT_W)
                    if not tour:
                        stats["window_blocked"] += len(uncovered - blocked)
                        if not blocked:
                            raise MachineryError("window configuration %d: %d edges unreachable" % (cfg["id"], len(uncovered)))
                        break
                    stats["window_tours"] += 1
                    obs, note = world.play(cfg["id"], [es[i]["ev"] for i in tour])
                    if note["initial"] != {"alive": True, "launched": 0, "runs": 1}:
                        raise MachineryError("pipeline world: state after Engine.run() is %r" % (note["initial"],))
                    before = (1, 0)
                    for n, i in enumerate(tour):
                        e = es[i]
                        if n >= len(obs):
                            bad = ["the real engine cannot take this step: %s" % (note["not_enabled"] or note["item_errors"])]
                        else:
                            bad = compare_pipe(cfg, e, obs[n], before)
                            if not bad and note["item_errors"] and n == len(tour) - 1:
                                bad = ["exceptions escaped from the engine's rx pipeline: %s" % note["item_errors"][:2]]
                        stats["window_steps"] += 1
                        if i in uncovered:
                            uncovered.discard(i)
                            stats["window_edges"] += 1
                            chk.evaluated(("w%d" % cfg["id"], i))
                        if bad:
                            blocked.add(i)
                            chk.reports.append((window_step_class(cfg, e),
                                   "%s [real Engine.run() pipeline]; after %s the step %s(%s%s) from %s: %s" % (
                                       describe(cfg), brief([es[j]["ev"] for j in tour[:n]]), e["ev"]["act"], e["ev"]["reason"],
                                       "" if e["ev"]["answer"] == "na" else ", hook answers " + e["ev"]["answer"], e["pre"],
                                       "; ".join(bad)),
                                   {"kind": "window-path", "cfg": cfg, "path": [es[j] for j in tour[:n + 1]]}))
                            break
                        before = (obs[n]["runs"], obs[n]["launched"])
                    chk.trace_validated(1)
        finally:
            world.close()
    return stats


# ---------------------------------------------------------------------------------------------------------------------
def run(tier):
    chk = Check(PID, tier)
    configs = config_family(tier)
    tlc_design(chk, tier, configs)
    edges = tlc_edges(chk, tier, configs)
    vacuity_of_edges(configs, edges)
    wconfigs = window_family(tier)
    wedges = tlc_window(chk, tier, wconfigs)
    stats = replay_edges(chk, configs, edges, chk.scratch, wconfigs, wedges)
    stats.update(random_traces(chk, tier, configs, chk.scratch))
    chk.cov["c12"] = dict(stats, configurations=len(configs), window_configurations=len(wconfigs))
    chk.cov["rule"] = ("every edge (configuration, Engine.restarts, resubmission counter, last exit reason, event) of the "
                       "state graph of Restart.tla for the configuration family, Engine.restarts <= 4 (quick) / 5 (thorough); distinct = distinct "
                       "(configuration, decision state, event)")
    chk.cov["exhaustive"] = True
    chk.assumptions += [
        "parts 2/3: task launching (Engine.run, the restart thread of RepeatingEngine) is replaced by a counter; rx emissions are not delivered",
        "part 4 (relaunch window): the real Engine.run() pipeline on the lanes of harness/world_g01.py (no threads, virtual time), fake Task; "
        "Engine.restart() called directly, normal engine; the controller's reaction to the exit reason Killed is covered by part 2",
        "exits are injected through Engine._setExitReason / the ivars RepeatingEngine.exitReason reads",
        "the restart hooks are real files in <instance>/hooks imported by the real machinery; they are told how to behave through an "
        "environment variable and report their invocations to the harness module",
        "ComponentSpecification.configuration is served from a per-run cache (the real property deep-copies the FlowIR on every access); "
        "time.sleep in control.py is a no-op; MonitorExceptionTracker is a stub reporting the (un)stable system of the configuration",
        "configuration family instead of the full product of the options (see config_family); hook answers limited to the 17 classes of Restart.tla",
        "budgets above 3 and restartHookOn with Killed/Cancelled (rejected by FlowIR validation) are not explored"]
    return chk.finish()


def replay(path):
    from .. import world_c12 as W
    d = json.load(open(path))
    chk = Check(PID, "replay")          # violation files of a replay are replay_<n>.json: the recorded case is not overwritten
    rp = d["replay"]
    cfg = rp["cfg"]
    default_hook = cfg["onDisk"] if cfg["hookFile"] == "unset" else True
    if rp["kind"] == "window-path":
        return replay_window_path(chk, W, cfg, rp, default_hook)
    world = W.World(chk.scratch, [cfg], default_hook)
    try:
        inst = W.Instance(world, cfg["id"])
        print("replaying on the real code: %s" % describe(cfg))
        if rp["kind"] == "edge-path":
            for e in rp["path"]:
                runs_before = inst.runs
                obs = do_step(inst, e["ev"])
                bad = compare(cfg, e, obs, runs_before)
                show(e["ev"], obs, bad)
                if bad:
                    chk.violation(step_class(cfg, e), "%s: %s" % (describe(cfg), "; ".join(bad)), rp)
                    break
                chk.evaluated((cfg_key(cfg), skey(e["pre"]), e["ev"]["act"], e["ev"]["reason"], e["ev"]["answer"]))
        else:
            steps = []
            for st in rp["steps"]:
                runs_before = inst.runs
                ev = dict(st)
                if st["act"] in ("PostMortem", "Direct"):
                    ev["reason"] = inst.engine.exitReason()
                obs = do_step(inst, ev)
                show(ev, obs, [])
                steps.append(dict({k: st[k] for k in ("act", "reason", "answer")}, **project(obs, runs_before)))
            judge_traces(chk, [(cfg, steps)], validate_traces(chk, "quick", [(cfg, steps)], name="Restart_traces_replay"))
    finally:
        world.close()
    # a replay does not rewrite evidence/C12.json
    import shutil
    shutil.rmtree(chk.scratch, ignore_errors=True)
    for k, n in chk.known_hit.items():
        print("KNOWN-FINDING: property=%s %s [key=%s]" % (PID, chk.known_keys[k]["what"], k))
    print("%s replay: %s" % (PID, "VIOLATION reproduced" if chk.violations else
                             ("known finding reproduced" if chk.known_hit else "no violation")))
    return 1 if chk.violations else 0


def replay_window_path(chk, W, cfg, rp, default_hook):
    world = W.PipelineWorld(chk.scratch, [cfg], default_hook)
    try:
        print("replaying on the real Engine.run() pipeline: %s" % describe(cfg))
        obs, note = world.play(cfg["id"], [e["ev"] for e in rp["path"]])
        before = (1, 0)
        for n, e in enumerate(rp["path"]):
            if n >= len(obs):
                bad = ["the real engine cannot take this step: %s" % (note["not_enabled"] or note["item_errors"])]
                print("  %-8s %-18s %-14s -> %s" % (e["ev"]["act"], e["ev"]["reason"], e["ev"]["answer"], bad[0]))
            else:
                o = obs[n]
                bad = compare_pipe(cfg, e, o, before)
                print("  %-8s %-18s %-14s -> code=%s run()=%d tasks=%d Engine.restarts=%d resubmissions=%d alive=%s exitReason=%s%s" % (
                    e["ev"]["act"], e["ev"]["reason"], e["ev"]["answer"], o["code"], o["runs"], o["launched"], o["restarts"], o["resub"],
                    o["alive"], o["exitReason"], "   MISMATCH " + "; ".join(bad) if bad else ""))
                before = (o["runs"], o["launched"])
            if bad:
                chk.violation(window_step_class(cfg, e), "%s: %s" % (describe(cfg), "; ".join(bad)), rp)
                break
    finally:
        world.close()
    import shutil
    shutil.rmtree(chk.scratch, ignore_errors=True)
    for k, n in chk.known_hit.items():
        print("KNOWN-FINDING: property=%s %s [key=%s]" % (PID, chk.known_keys[k]["what"], k))
    print("%s replay: %s" % (PID, "VIOLATION reproduced" if chk.violations else
                             ("known finding reproduced" if chk.known_hit else "no violation")))
    return 1 if chk.violations else 0


def show(ev, obs, bad):
    print("  %-12s %-18s %-16s -> code=%s starts=%d Engine.restarts=%d resubmissions=%d final=%s%s" % (
        ev["act"], ev["reason"], ev["answer"], obs["code"], obs["runs"], obs["restarts"], obs["resub"], obs["final"],
        "   MISMATCH " + "; ".join(bad) if bad else ""))
