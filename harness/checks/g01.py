"""G01 (growth item) -- launch / termination / state-emission life cycle of the real non-repeating Engine.
Spec: spec/EngineLifecycle.tla (+ spec/EngineLifecycle_trace.tla).  Environment: harness/world_g01.py.

1. TLC on the fine-grained model (every interleaving of the rx hops of one engine): invariants and action properties, liveness
   under fairness (kill ~> dead, shutdown ~> stream completed), witnesses (vacuity guard), per-action coverage, and the NAMED
   DEVIATIONS of the code as expected counterexamples (strong properties the code does not satisfy).
2. spec -> code: TLC (Quiet mode) enumerates every environment action sequence of bounded length (run, kill at every point incl.
   between start value and launch, start timer with every launch outcome, task exit with every reason, restart, shutdown, clock
   tick) with the specified observation after every action, for snapshots entering in order (fifo) and overtaking (lifo); each is
   replayed on the REAL Engine on a deterministic world and compared step by step (isAlive/exitReason/returncode/isShutdown,
   task generator calls, kill reaching the task, restart code, completion and the exact sequence of emitted updates: key sets and
   the values of all lifecycle keys).
3. code -> spec: seeded random interleavings of the real engine at single rx-item granularity are recorded and validated by TLC
   against the specification (hidden state searched); observable properties are also evaluated on the logged real states and
   every run is finally driven to quiescence (liveness on the code).
4. contract of harness/ctl.py FakeEngine (what C01/C02 trust): the same environment sequences on the real Engine and on the
   FakeEngine; what ComponentState consumes (isAlive / isShutdown values in emission order, isAlive()/exitReason() per step).
"""
import json
import multiprocessing
import os
import random
import re
import shutil
import time

from ..common import Check, MachineryError, SPEC
from .. import tlc

PID = "G01"
GEN = os.path.join(SPEC, "gen", "g01")

# TRUE: the specification models HandleTaskExit's second emission as the code has it (named deviation ExitInfoClobber: it says
# engineExitReason None / engineExitCode <task code> after the exit).  Set to "FALSE" once /repo is repaired
# (findings/G01_exit_info_clobbers_exit_reason.diff); the expected counterexample of ReasonNeverClobbered then goes away too.
CLOBBER = os.environ.get("G01_CLOBBER", "TRUE")
# FALSE: restart() re-enters run() without an emission (the code as it is; see findings/G01_silent_reexit_after_restart_repro.py)
RESTART_EMITS = os.environ.get("G01_RESTART_EMITS", "FALSE")

REASONS_Q = ["Success", "KnownIssue", "ResourceExhausted", "Killed", "SubmissionFailed"]
REASONS_T = ["Success", "KnownIssue", "ResourceExhausted", "Killed", "SubmissionFailed", "Cancelled", "SystemIssue", "UnknownIssue"]
KINDS = ["ok", "oserror", "launcherror", "exception"]

INVARIANTS = ["TypeOK", "TaskInsideExecution", "ShutdownIsFinal", "OneLaunchPerRun", "CompleteOnlyAfterShutdown"]
PROPS = ["ShutAbsorbing", "ReasonStable", "NoLaunchAfterGateClosed", "CompletedIsFinal"]
ONE_RUN_PROPS = ["KillAlwaysHeard"]     # hold as long as the engine is not restarted
FIFO_PROPS = ["FirstDeadCarriesReason", "NoResurrection"]
ACTIONS = ["Run", "Kill", "Fire", "TaskExit", "Restart", "Shutdown", "Tick", "DeliverInit", "ArmLaunch", "DeliverGate", "Launch",
           "WaitStep", "TermSubscribe", "DeliverTerm", "DeliverStale", "HandleKilled", "Enter", "Filter", "Out"]


def tla_set(xs):
    return "{" + ", ".join('"%s"' % x for x in xs) + "}"


def cfg(name, consts, body):
    os.makedirs(GEN, exist_ok=True)
    c = dict(Reasons=tla_set(REASONS_Q), Kinds=tla_set(KINDS), Order='"any"', Quiet="FALSE", Emit="FALSE", MaxEnv=0, MaxKill=1,
             MaxTick=0, MaxRun=1, MaxSnaps=3, Clobber=CLOBBER, RestartEmits=RESTART_EMITS)
    c.update(consts)
    path = os.path.join(GEN, name + ".cfg")
    with open(path, "w") as f:
        f.write("CONSTANTS\n" + "".join("  %s = %s\n" % kv for kv in c.items()) + body + "CHECK_DEADLOCK FALSE\n")
    return path


def must_hold(chk, r, what):
    if not r["ok"]:
        raise MachineryError("EngineLifecycle.tla: %s: %s fails on the model\n%s" % (what, r["violated"], r["out"][-2500:]))
    chk.add_tlc(r)


def must_fail(chk, r, what, prop):
    """A strong property the code is known NOT to satisfy: the counterexample is the witness of the named deviation."""
    if r["violated"] != prop:
        raise MachineryError("EngineLifecycle.tla: expected a counterexample to %s (%s), got %s\n%s" % (prop, what, r["violated"], r["out"][-1500:]))
    chk.add_tlc(r)


# --------------------------------------------------------------------------------------------------------------------------
# 1. the model

def model_check(chk, tier):
    """All TLC runs on the design model; they are independent, so they run side by side (4 at a time, 4 workers each)."""
    from concurrent.futures import ThreadPoolExecutor
    thorough = tier == "thorough"
    S3, K2 = tla_set(["Success", "ResourceExhausted", "Killed"]), tla_set(["ok", "oserror"])
    inv = "SPECIFICATION Spec\nCONSTRAINT Bound\n" + "".join("INVARIANT %s\n" % i for i in INVARIANTS) + "".join("PROPERTY %s\n" % p for p in PROPS)
    jobs = []      # (kind, name, consts, body, property expected to fail | None, coverage)
    jobs.append(("cover", "cover", dict(MaxTick=1, MaxRun=2, MaxSnaps=2, Reasons=tla_set(["ResourceExhausted"]), Kinds=tla_set(["ok"])), inv, None, True))
    grid = [dict(MaxTick=0, MaxRun=2, MaxSnaps=2), dict(MaxTick=0, MaxRun=1, MaxSnaps=3, Reasons=S3, Kinds=K2), dict(MaxTick=1, MaxRun=1, MaxSnaps=2)]
    if thorough:
        S2, K1 = tla_set(["ResourceExhausted", "Killed"]), tla_set(["ok"])
        grid = [dict(MaxTick=0, MaxRun=2, MaxSnaps=3, Reasons=tla_set(["ResourceExhausted"]), Kinds=K1)] + grid       # the largest first
        grid += [dict(MaxTick=0, MaxRun=1, MaxSnaps=3, MaxKill=2), dict(MaxTick=1, MaxRun=2, MaxSnaps=2, Reasons=S3, Kinds=K2),
                 dict(MaxTick=0, MaxRun=3, MaxSnaps=2, MaxKill=2, Reasons=S2, Kinds=K1)]
    if not thorough:
        grid = grid[:2]
    for i, g in enumerate(grid):
        one_run = "".join("PROPERTY %s\n" % p for p in ONE_RUN_PROPS) if g.get("MaxRun") == 1 else ""
        jobs.append(("hold", "fine%d" % i, g, inv + one_run, None, False))
    # the stream properties hold when snapshots keep their order and no clock tick slips in between (a tick reads a fresh
    # stateDictionary straight into the FIFO part and so overtakes every snapshot still in its trigger-pool hop)
    jobs.append(("hold", "fifo", dict(Order='"fifo"', MaxTick=0, MaxRun=2, MaxSnaps=3), inv + "".join("PROPERTY %s\n" % p for p in FIFO_PROPS), None, False))
    if thorough:
        jobs.append(("hold", "onerun", dict(MaxTick=0, MaxRun=1, MaxSnaps=2, MaxKill=2), inv + "".join("PROPERTY %s\n" % p for p in ONE_RUN_PROPS), None, False))
    # liveness under fairness
    jobs.append(("hold", "live", dict(MaxTick=0, MaxRun=2 if thorough else 1, MaxSnaps=2, Reasons=S3, Kinds=K2),
                 "SPECIFICATION FairSpec\nCONSTRAINT Bound\nPROPERTY KillLeadsToDead\nPROPERTY ShutdownLeadsToCompletion\nPROPERTY DeadEventuallyKnown\n", None, False))
    # witnesses (vacuity): the interesting corners are reachable
    for w in ("WitnessRestartedKilled", "WitnessCompleted", "WitnessStale"):
        jobs.append(("witness", "wit_" + w, dict(MaxTick=0, MaxRun=2, MaxSnaps=2), "SPECIFICATION Spec\nCONSTRAINT Bound\nINVARIANT %s\n" % w, w, False))
    # named deviations: strong properties the code does not satisfy (expected counterexamples)
    for prop, consts, name in (
            ("NoLaunchAfterKillCalled", dict(MaxTick=0, MaxRun=1, MaxSnaps=2), "KillLate"),
            ("ReasonNeverClobbered", dict(Order='"fifo"', MaxTick=0, MaxRun=1, MaxSnaps=3), "ExitInfoClobber"),
            ("FirstDeadCarriesReason", dict(Order='"any"', MaxTick=0, MaxRun=1, MaxSnaps=3), "SnapshotOvertaking/first-dead-without-reason"),
            ("NoResurrection", dict(Order='"any"', MaxTick=0, MaxRun=1, MaxSnaps=3), "SnapshotOvertaking/alive-after-dead"),
            ("NoResurrection", dict(Order='"fifo"', MaxTick=1, MaxRun=1, MaxSnaps=3), "ClockTickOvertakesSnapshot/alive-after-dead"),
            ("KillAlwaysHeard", dict(Order='"fifo"', MaxTick=0, MaxRun=2, MaxSnaps=2, MaxKill=2, Reasons=S3, Kinds=K2), "StaleInitCompletion/kill-lost-after-restart")):
        if prop in ("ReasonNeverClobbered", "FirstDeadCarriesReason") and CLOBBER != "TRUE":
            # with the repaired extract_info_from_emission both emissions of HandleTaskExit carry the reason
            jobs.append(("hold", "noclobber_" + prop, consts, "SPECIFICATION Spec\nCONSTRAINT Bound\nPROPERTY %s\n" % prop, None, False))
            continue
        jobs.append(("deviation", name, consts, "SPECIFICATION Spec\nCONSTRAINT Bound\nPROPERTY %s\n" % prop, prop, False))

    def one(job):
        kind, name, consts, body, prop, cov = job
        c = cfg("%s_%s_%s" % (kind, re.sub(r"\W", "_", name), tier), consts, body)
        try:
            # runs that stop at a counterexample use one worker: their statistics are then the same in every run
            return tlc.run_tlc("EngineLifecycle", c, timeout=1500, workers=4 if prop is None else 1, coverage=cov, expect_violation=prop is not None)
        except MachineryError as e:
            return e
    with ThreadPoolExecutor(4) as ex:
        results = list(ex.map(one, jobs))
    dev = {}
    for (kind, name, consts, body, prop, cov), r in zip(jobs, results):
        if isinstance(r, Exception):
            raise r
        if prop is None:
            must_hold(chk, r, "%s %s" % (name, consts))
        else:
            must_fail(chk, r, name, prop)
            if kind == "deviation":
                dev[name] = "counterexample to %s found by TLC (%d states)" % (prop, r.get("distinct", 0))
        if cov:
            missing = [a for a in ACTIONS if not r["coverage"].get(a)]
            if missing:
                raise MachineryError("actions of EngineLifecycle.tla never taken (vacuous model): %s; coverage %s" % (missing, r["coverage"]))
            chk.cov["action_coverage"] = {a: r["coverage"].get(a) for a in ACTIONS}
    chk.cov["named_deviations_witnessed"] = dev


# --------------------------------------------------------------------------------------------------------------------------
# 2. spec -> code

def emit_cases(chk, tier):
    thorough = tier == "thorough"
    out = []
    plan = [("fifo", dict(MaxEnv=7, MaxKill=2, MaxTick=1, MaxRun=3)), ("lifo", dict(MaxEnv=6, MaxKill=1, MaxTick=1, MaxRun=2))]
    if thorough:
        plan = [("fifo", dict(MaxEnv=9, MaxKill=2, MaxTick=1, MaxRun=3)),
                ("fifo", dict(MaxEnv=7, MaxKill=2, MaxTick=2, MaxRun=3, Reasons=tla_set(REASONS_T))),
                ("lifo", dict(MaxEnv=8, MaxKill=1, MaxTick=1, MaxRun=3))]
    seen = set()
    for order, consts in plan:
        consts = dict(consts, Order='"%s"' % order, Quiet="TRUE", Emit="TRUE", MaxSnaps=9)
        r = tlc.run_tlc("EngineLifecycle", cfg("emit_%s_%d_%s" % (order, len(out), tier), consts, "SPECIFICATION Spec\nINVARIANT TypeOK\nINVARIANT EmitCase\n"),
                        workers=1, timeout=1500)
        must_hold(chk, r, "case emission (%s)" % order)
        n0 = len(out)
        for c in r["cases"]:
            k = (tuple(c["hist"]), c["order"])
            if k in seen:
                continue
            seen.add(k)
            out.append(c)
        if len(r["cases"]) < 500:
            raise MachineryError("TLC emitted only %d %s cases" % (len(r["cases"]), order))
    return out


def spec_update(u):
    return {k: (v[0] if v[0] != "sid" else "sid%d" % v[1]) for k, v in u.items()}


def spec_obs(o):
    o = dict(o)
    o["ups"] = [spec_update(u) for u in o["ups"]]
    return o


_JOB = {}


def _job(scratch):
    from .. import world_g01 as G
    if "job" not in _JOB:
        _JOB["exp"], _JOB["job"] = G.make_job(scratch)
    return _JOB["job"]


def action_class(a):
    return a.split(":")[0]


def replay_case(case, scratch):
    """-> None or (key, what)"""
    from .. import world_g01 as G
    job = _job(scratch)
    with G.Driver(job) as d:
        try:
            obs = d.replay(case["hist"], case["order"])
        except G.HarnessDrift as e:
            return ("MACHINERY", "harness drift on %s: %s" % (case["hist"], e))
    labels = ["init"] + list(case["hist"])
    want = [spec_obs(o) for o in case["obs"]]
    if d.threads:
        return ("MACHINERY", "threads were created: %s" % d.threads)
    for i, (a, b) in enumerate(zip(obs, want)):
        if a != b:
            fields = sorted(k for k in set(a) | set(b) if a.get(k) != b.get(k))
            det = "; ".join("%s: engine %s, specification %s" % (k, json.dumps(a.get(k), sort_keys=True), json.dumps(b.get(k), sort_keys=True)) for k in fields)
            return ("replay:%s:%s:%s" % (case["order"], action_class(labels[i]), "+".join(fields)),
                    "after %s (step %d of %s, snapshots %s): %s" % (labels[i], i, case["hist"], case["order"], det[:1500]))
    if d.not_enabled:
        return ("replay:%s:%s:not-enabled" % (case["order"], action_class(case["hist"][d.pos - 1])), "%s: %s" % (case["hist"], d.not_enabled))
    if len(obs) != len(want):
        return ("replay:%s:length" % case["order"], "%s: %d observations, specification %d (item errors %s)" % (case["hist"], len(obs), len(want), d.item_errors))
    if d.item_errors:
        return ("replay:%s:exception-in-rx-item" % case["order"], "%s: %s" % (case["hist"], d.item_errors[:3]))
    # properties on the real observations
    first_dead = [u for u in d.all_updates if u.get("isAlive") == "F"]
    if first_dead and d.notify and d.notify[0] != first_dead[0]:
        return ("prop:notifyFinished-is-not-first-dead-update", "%s: notifyFinished %s, first isAlive=False update %s" % (case["hist"], d.notify[0], first_dead[0]))
    for o in obs:
        if o["alive"] != (o["reason"] == "none") or (o["rc"] == "0") != (o["reason"] == "Success") or (o["rc"] == "None") != o["alive"]:
            return ("prop:isAlive-exitReason-returncode", "%s: %s" % (case["hist"], o))
    return None


def _replay_chunk(args):
    cases, scratch = args
    out = []
    for c in cases:
        try:
            out.append(replay_case(c, scratch))
        except Exception as e:      # noqa
            import traceback
            out.append(("MACHINERY", "replay crashed on %s: %s" % (c["hist"], traceback.format_exc()[-800:])))
    return out


def pool_map(fn, chunks):
    ctx = multiprocessing.get_context("fork")
    with ctx.Pool(min(12, max(1, len(chunks)))) as p:
        return list(p.imap(fn, chunks))


def spec_to_code(chk, cases):
    n = 150
    chunks = [(cases[i:i + n], chk.scratch) for i in range(0, len(cases), n)]
    res = [x for part in pool_map(_replay_chunk, chunks) for x in part]
    for c, r in zip(cases, res):
        chk.evaluated((c["order"], c["hist"]))
        if r is None:
            chk.trace_validated()
            continue
        if r[0] == "MACHINERY":
            raise MachineryError(r[1])
        chk.violation(r[0], r[1], {"kind": "replay", "case": {"hist": c["hist"], "order": c["order"], "obs": c["obs"]}})
    for c in cases[:: max(1, len(cases) // 4)][:4]:
        chk.sample({"hist": c["hist"], "order": c["order"], "last_observation": c["obs"][-1]}, limit=4)
    chk.cov["replayed_env_sequences"] = len(cases)


# --------------------------------------------------------------------------------------------------------------------------
# 3. code -> spec

def tla_val(v):
    m = re.fullmatch(r"sid(\d+)", v)
    return '<<"sid", %s>>' % m.group(1) if m else '<<"%s", 0>>' % v


def tla_update(u):
    return "(" + " @@ ".join('"%s" :> %s' % (k, tla_val(v)) for k, v in sorted(u.items())) + ")"


def tla_bool(b):
    return "TRUE" if b else "FALSE"


def tla_step(s):
    return '<<"%s", %s, "%s", %s, %d, %s, %s, %d, %s, "%s", %s, %s, %d, %s, "%s">>' % (
        s["ev"], s["arg"] if s["ev"] == "Snap" else '"%s"' % s["arg"], s["reason"], tla_bool(s["shut"]), s["nlaunch"], tla_bool(s["tkill"]),
        tla_bool(s["talive"]), s["restarts"], tla_bool(s["done"]), s["rcode"], tla_bool(s["upd"] is not None),
        tla_update(s["upd"]) if s["upd"] is not None else "<<>>", s["nsnap"], tla_bool(s["waiting"]), s["lk"])


def check_logged_properties(trace):
    """Observable properties evaluated on the logged REAL states.  -> None or (key, what)"""
    prev = dict(reason="none", shut=False, done=False, nlaunch=0)
    killed_alive = False
    for i, s in enumerate(trace):
        where = "step %d (%s %s)" % (i + 1, s["ev"], s["arg"])
        if s["alive"] != (s["reason"] == "none") or (s["rc"] == "0") != (s["reason"] == "Success") or (s["rc"] == "None") != s["alive"]:
            return ("prop:isAlive-exitReason-returncode", "%s: %s" % (where, s))
        if prev["reason"] != "none" and s["reason"] != prev["reason"] and not (s["ev"] == "Restart" and s["rcode"] == "RestartInitiated" and s["reason"] == "none"):
            return ("prop:exit-reason-changed-without-restart", "%s: %s -> %s" % (where, prev["reason"], s["reason"]))
        if prev["shut"] and (not s["shut"] or s["reason"] != prev["reason"]):
            return ("prop:shutdown-not-final", "%s: %s" % (where, s))
        if prev["done"] and (s["upd"] is not None or not s["done"]):
            return ("prop:update-after-completion", "%s: %s" % (where, s))
        if s["done"] and not s["shut"]:
            return ("prop:stream-completed-before-shutdown", "%s" % where)
        if s["nlaunch"] > prev["nlaunch"] + 1:
            return ("prop:two-launches-in-one-step", "%s" % where)
        prev = s
    return None


def _trace_chunk(args):
    """Runs seeds on the real engine.  -> list of (seed, trace, final, problem)"""
    seeds, scratch, reasons = args
    from .. import world_g01 as G
    job = _job(scratch)
    out = []
    for sd in seeds:
        rnd = random.Random(sd)
        with G.Driver(job) as d:
            try:
                trace = d.random_run(rnd, reasons, KINDS, max_steps=rnd.choice([120, 250, 400]), p_env=rnd.choice([0.08, 0.2, 0.4]))
                final = d.finish_run()
                problem = None
            except G.HarnessDrift as e:
                trace, final, problem = [], None, ("MACHINERY", "harness drift (seed %d): %s" % (sd, e))
        if problem is None and d.threads:
            problem = ("MACHINERY", "threads were created: %s" % d.threads)
        if problem is None and d.item_errors:
            problem = ("trace:exception-in-rx-item", "seed %d: %s" % (sd, d.item_errors[:3]))
        out.append((sd, trace, final, problem))
    return out


def validate_traces(chk, tag, runs, batch=250):
    """runs: list of (seed, trace).  -> {index: rejected step}"""
    rejected = {}
    for b0 in range(0, len(runs), batch):
        chunk = runs[b0:b0 + batch]
        d = os.path.join(GEN, "trace_%s_%d" % (tag, b0 // batch))
        shutil.rmtree(d, ignore_errors=True)
        os.makedirs(d)
        for f in ("EngineLifecycle.tla", "EngineLifecycle_trace.tla"):
            shutil.copy(os.path.join(SPEC, f), os.path.join(d, f))
        with open(os.path.join(d, "EngineTraceData.tla"), "w") as f:
            f.write("---- MODULE EngineTraceData ----\nEXTENDS TLC\nTraces == <<\n  %s\n>>\n====\n" % ",\n  ".join(
                "<<" + ",\n    ".join(tla_step(s) for s in tr) + ">>" for _sd, tr in chunk))
        body = ("CONSTANTS\n  Reasons = %s\n  Kinds = %s\n  Order = \"any\"\n  Quiet = FALSE\n  Emit = FALSE\n  MaxEnv = 0\n  MaxKill = 99\n  MaxTick = 99\n"
                "  MaxRun = 99\n  MaxSnaps = 12\n  Clobber = %s\n  RestartEmits = %s\nSPECIFICATION TraceSpec\nCONSTRAINT Furthest\nPOSTCONDITION AllAccepted\nCHECK_DEADLOCK FALSE\n" % (tla_set(REASONS_T), tla_set(KINDS), CLOBBER, RESTART_EMITS))
        c = os.path.join(d, "trace.cfg")
        with open(c, "w") as f:
            f.write(body)
        r = tlc.run_tlc("EngineLifecycle_trace", c, specdir=d, workers=1, timeout=1500, expect_violation=True)
        chk.add_tlc(r)
        out = r["out"]
        m = re.search(r'<<\s*"REJECTED",(.*?)>>\s*\nError', out, re.S)
        if m:
            pairs = re.findall(r"(\d+) :> (\d+)", m.group(1))
            if not pairs:
                pairs = [(str(i + 1), v) for i, v in enumerate(re.findall(r"\d+", m.group(1)))]
            if not pairs:
                raise MachineryError("cannot parse REJECTED report: %s" % m.group(1)[:300])
            for t, ll in pairs:
                rejected[b0 + int(t) - 1] = int(ll)
        elif not r["ok"]:
            raise MachineryError("trace validation failed to run:\n%s" % out[-3000:])
        shutil.rmtree(d, ignore_errors=True)
    return rejected


def code_to_spec(chk, tier):
    n = 400 if tier == "quick" else 3000
    reasons = REASONS_Q if tier == "quick" else REASONS_T
    seeds = [chk.seed * 1000003 + i for i in range(n)]
    chunks = [(seeds[i:i + 50], chk.scratch, reasons) for i in range(0, n, 50)]
    res = [x for part in pool_map(_trace_chunk, chunks) for x in part]
    runs = []
    steps = 0
    for sd, trace, final, problem in res:
        if problem and problem[0] == "MACHINERY":
            raise MachineryError(problem[1])
        rp = {"kind": "trace", "seed": sd, "reasons": reasons}
        if problem:
            chk.violation(problem[0], problem[1], rp)
            continue
        p = check_logged_properties(trace)
        if p:
            chk.violation(p[0], "seed %d: %s" % (sd, p[1]), rp)
        if final:
            chk.violation(final[0], "seed %d: %s" % (sd, final[1]), rp)
        runs.append((sd, trace))
        steps += len(trace)
    rejected = validate_traces(chk, tier, runs)
    for i, (sd, trace) in enumerate(runs):
        chk.evaluated(("trace", sd))
        if i in rejected:
            ll = rejected[i]
            s = trace[ll] if ll < len(trace) else {}
            obs = {k: s.get(k) for k in ("reason", "shut", "nlaunch", "tkill", "talive", "restarts", "done", "rcode", "upd")}
            chk.violation("trace:no-action-explains:%s" % s.get("ev"),
                          "seed %d: step %d (%s %s) of the recorded run of the real engine is not a step of EngineLifecycle.tla; logged state after it: %s; "
                          "previous steps: %s" % (sd, ll + 1, s.get("ev"), s.get("arg"), json.dumps(obs, sort_keys=True)[:900],
                                                  [(x["ev"], x["arg"]) for x in trace[max(0, ll - 12):ll]]),
                          {"kind": "trace", "seed": sd, "reasons": reasons, "rejected_step": ll + 1})
        else:
            chk.trace_validated()
    chk.cov["random_runs"] = len(runs)
    chk.cov["random_run_steps"] = steps
    if runs:
        sd, tr = runs[0]
        chk.sample({"random_run_seed": sd, "events": [(s["ev"], s["arg"]) for s in tr if s["ev"] != "Item"][:20]}, limit=6)


# --------------------------------------------------------------------------------------------------------------------------
# 4. contract of harness/ctl.py FakeEngine (the stand-in C01/C02 run the real Controller / ComponentState against)

def consumer_view(updates):
    """What workflow.ComponentState makes of a stream of engine updates: the state follows the isAlive values, its own filter only
    passes CHANGES (RUNNING <-> POSTMORTEM); every update with isShutdown=True is the trigger that publishes the final state."""
    out = []
    last = "T"
    for u in updates:
        a = u.get("isAlive")
        if a is not None and a != last:
            out.append("alive" if a == "T" else "dead:%s" % u.get("engineExitReason"))
            last = a
        if u.get("isShutdown") == "T":
            out.append("shutdown")
    return out


KNOWN_CONTRACT_DIVERGENCES = {
    "alive-after-restart-announced-later":
        "timing only: FakeEngine.run() emits isAlive=True immediately after a restart, the real engine with its next snapshot (clock tick "
        "within 5 s, or the launch); the sequence ended in between.",
    "restart-then-exit-before-any-alive-snapshot":
        "after restart() the real engine does not emit by itself (run() has no emit_now): isAlive=True reaches the consumer with the next "
        "snapshot (5 s clock tick, launch).  If the restarted execution ends before that (kill during the start delay), the consumer "
        "sees no alive/dead pair for it, whereas FakeEngine.run() emits isAlive=True at once.  ctl.py would have to delay that "
        "emission until the environment's next tick/launch (or drop it when the exit comes first) to cover this behaviour.",
}


def contract_case(case, scratch):
    """-> list of (class, what); class 'MACHINERY' aborts"""
    import types
    from .. import world_g01 as G
    from .. import world as W
    from .. import ctl
    job = _job(scratch)
    hist = case["hist"]
    with G.Driver(job) as d:
        try:
            robs = d.replay(hist, "fifo")
        except G.HarnessDrift as e:
            return [("MACHINERY", "harness drift on %s: %s" % (hist, e))]
    if d.not_enabled:
        return []          # the engine could not follow the specification: reported by the replay part
    real_updates = d.all_updates
    # the same environment on the FakeEngine
    fw = W.World()
    class _H:                     # the harness object FakeEngine reports to: only its world matters here
        world = fw

        def __getattr__(self, name):
            return lambda *a, **k: None
    h = _H()
    fe = ctl.FakeEngine(job, h)
    fups = []
    fe.stateUpdates.subscribe(on_next=lambda x: fups.append(G.abstract_update(x[0])))

    def drain():
        while True:
            p = fw.pending()
            if not p:
                return
            fw.run(p[0])
    out = []
    prev_reason = "none"
    for i, a in enumerate(hist):
        o = robs[i + 1] if i + 1 < len(robs) else None
        if o is None:
            break
        rc = "-"
        try:
            if a == "Run":
                fe.run()
            elif a == "Kill":
                fe.kill()
            elif a.startswith("FireKL:"):
                fe.kill()
            elif a == "Restart":
                rc = fe.restart()        # the REAL Engine.restart, inherited by the fake
            elif a == "Shutdown":
                fe.shutdown()
        except Exception as e:           # noqa: the real restart() needs something the fake does not provide
            out.append(("fake-engine-cannot-follow-%s" % action_class(a), "%s step %d (%s): FakeEngine raised %r" % (hist, i + 1, a, e)))
            return out
        if prev_reason == "none" and o["reason"] != "none" or (a == "Restart" and False):
            fe.env_exit(o["reason"])      # the fake's environment delivers the exit the real engine went through
        drain()
        prev_reason = o["reason"]
        got = dict(alive=bool(fe.isAlive()), reason=fe.exitReason() or "none", shut=bool(fe.isShutdown), restarts=fe.restarts,
                   rcode=rc if a == "Restart" else o["rcode"], rc=G.coarse("", fe.returncode()))
        want = {k: o[k] for k in got}
        if got != want:
            out.append(("state-after-%s" % action_class(a), "%s step %d (%s): FakeEngine %s, real Engine %s" % (hist, i + 1, a, got, want)))
            return out
    rv, fv = consumer_view(real_updates), consumer_view(fups)
    if rv != fv:
        # known: a restarted execution that ends before any snapshot was taken while it was alive
        k = 0
        x, y = list(rv), list(fv)
        late = False
        if y and y[-1] == "alive" and x == y[:-1]:
            out.append(("alive-after-restart-announced-later", "%s: at the end of the sequence the real Engine has not yet told that it is alive again: %s, FakeEngine %s" % (hist, rv, fv)))
            return out
        known = True
        # remove from the fake's view every (alive, dead:r) pair that the real view lacks, if the real view is otherwise equal
        i = j = 0
        while j < len(y):
            if i < len(x) and x[i] == y[j]:
                i += 1
                j += 1
            elif y[j] == "alive" and j + 1 < len(y) and y[j + 1].startswith("dead:"):
                j += 2
                k += 1
            else:
                known = False
                break
        if known and i == len(x) and k > 0:
            out.append(("restart-then-exit-before-any-alive-snapshot", "%s: ComponentState would see %s from the real Engine, %s from FakeEngine" % (hist, rv, fv)))
        else:
            out.append(("consumer-view", "%s: ComponentState would see %s from the real Engine, %s from FakeEngine" % (hist, rv, fv)))
    # the first update that announces death carries the exit reason in both
    return out


def _contract_chunk(args):
    cases, scratch = args
    out = []
    for c in cases:
        try:
            out.append(contract_case(c, scratch))
        except Exception:      # noqa
            import traceback
            out.append([("MACHINERY", "contract test crashed on %s: %s" % (c["hist"], traceback.format_exc()[-800:]))])
    return out


def contract(chk, cases, limit):
    cases = [c for c in cases if c["order"] == "fifo"]
    if len(cases) > limit:
        rnd = random.Random(chk.seed)
        cases = rnd.sample(cases, limit)
    n = 150
    chunks = [(cases[i:i + n], chk.scratch) for i in range(0, len(cases), n)]
    res = [x for part in pool_map(_contract_chunk, chunks) for x in part]
    counts = {}
    examples = {}
    for c, divs in zip(cases, res):
        chk.evaluated(("contract", c["hist"]))
        for cls, what in divs:
            if cls == "MACHINERY":
                raise MachineryError(what)
            counts[cls] = counts.get(cls, 0) + 1
            examples.setdefault(cls, what)
            if cls not in KNOWN_CONTRACT_DIVERGENCES:
                chk.violation("contract:%s" % cls, "FakeEngine (harness/ctl.py) and the real Engine differ in what ComponentState consumes: %s" % what,
                              {"kind": "contract", "case": {"hist": c["hist"], "order": "fifo", "obs": c["obs"]}})
    chk.cov["contract"] = {"sequences": len(cases), "divergences": counts,
                           "known_divergence_classes": {k: {"count": counts.get(k, 0), "example": examples.get(k), "meaning": v}
                                                        for k, v in KNOWN_CONTRACT_DIVERGENCES.items()}}
    for k, v in counts.items():
        if k in KNOWN_CONTRACT_DIVERGENCES:
            print("CONTRACT-NOTE %s: %d sequence(s): FakeEngine differs from the real Engine (documented, harness/ctl.py): %s" % (PID, v, k))


# --------------------------------------------------------------------------------------------------------------------------

def shutdown_while_alive(chk):
    """shutdown() on a live engine is refused (AssertionError) and changes nothing"""
    from .. import world_g01 as G
    job = _job(chk.scratch)
    with G.Driver(job) as d:
        d.replay(["Run", "Fire:ok"], "fifo")
        try:
            d.engine.shutdown()
            chk.violation("shutdown:accepted-while-alive", "shutdown() on a live engine did not raise", {"kind": "shutdown-alive"})
        except AssertionError:
            pass
        if d.engine.isShutdown or not d.engine.isAlive():
            chk.violation("shutdown:refused-but-state-changed", "after the refused shutdown(): isShutdown %s isAlive %s" % (d.engine.isShutdown, d.engine.isAlive()),
                          {"kind": "shutdown-alive"})
    chk.evaluated(("shutdown-alive",))


def run(tier):
    chk = Check(PID, tier)
    os.makedirs(GEN, exist_ok=True)
    t0 = time.time()
    model_check(chk, tier)
    t1 = time.time()
    cases = emit_cases(chk, tier)
    t2 = time.time()
    _job(chk.scratch)            # built once, inherited by the forked workers
    spec_to_code(chk, cases)
    t3 = time.time()
    code_to_spec(chk, tier)
    t4 = time.time()
    contract(chk, cases, 1500 if tier == "quick" else 8000)
    shutdown_while_alive(chk)
    t5 = time.time()
    chk.cov["phase_wall_s"] = dict(model=round(t1 - t0, 1), emit=round(t2 - t1, 1), replay=round(t3 - t2, 1), traces=round(t4 - t3, 1), contract=round(t5 - t4, 1))
    chk.cov["rule"] = ("spec -> code: EVERY environment action sequence of bounded length (run, kill incl. between start value and launch, start "
                       "timer x launch outcome, task exit x reason, restart, shutdown, clock tick) from quiescent states, for snapshots in order and "
                       "overtaking, replayed on the real Engine with the specified observation after every action; code -> spec: seeded random "
                       "single-item interleavings of the real Engine validated by TLC; distinct = distinct sequences / seeds")
    chk.cov["exhaustive"] = True
    chk.assumptions += [
        "one engine; the task respects the Task API (after wait() returns it is dead and has an exit reason); the task's death and the return of wait() are one step",
        "run() is called once, on a live engine; restart()/shutdown() only on a dead engine that is not shut down (ComponentState guarantees the latter)",
        "job without restart hook (budget 3, SubmissionFailed / ResourceExhausted restart): the restart POLICY is C12's subject, here only its effect on the life cycle",
        "time-valued entries of stateDictionary are compared by class (timedelta / float / date / N/A), the clock of the engine is virtual and strictly increasing",
        "rx itself (observe_on FIFO per subscription, ReplaySubject replay, first/take_while/concat/publish) is trusted: it is executed, not modelled, and every hop is a scheduling point",
        "spec -> code behaviours act in quiescent states (+ FireKL); finer interleavings are covered by the random runs (code -> spec), not exhaustively"]
    return chk.finish()


def replay(path):
    d = json.load(open(path))
    chk = Check(PID, "quick")
    rp = d["replay"]
    _job(chk.scratch)
    if rp["kind"] == "replay":
        r = replay_case(rp["case"], chk.scratch)
        chk.evaluated(("replay",))
        if r and r[0] != "MACHINERY":
            chk.violation(r[0], r[1], rp)
        elif r:
            raise MachineryError(r[1])
    elif rp["kind"] == "trace":
        (sd, trace, final, problem), = _trace_chunk(([rp["seed"]], chk.scratch, rp["reasons"]))
        if problem and problem[0] == "MACHINERY":
            raise MachineryError(problem[1])
        for p in (problem, check_logged_properties(trace), final):
            if p:
                chk.violation(p[0], "seed %d: %s" % (sd, p[1]), rp)
        rej = validate_traces(chk, "replay", [(sd, trace)])
        chk.evaluated(("trace", sd))
        if rej:
            s = trace[rej[0]] if rej[0] < len(trace) else {}
            chk.violation("trace:no-action-explains:%s" % s.get("ev"), "seed %d: step %d is not a step of the specification" % (sd, rej[0] + 1), rp)
    elif rp["kind"] == "contract":
        for cls, what in contract_case(rp["case"], chk.scratch):
            chk.evaluated(("contract",))
            if cls == "MACHINERY":
                raise MachineryError(what)
            if cls not in KNOWN_CONTRACT_DIVERGENCES:
                chk.violation("contract:%s" % cls, what, rp)
    else:
        shutdown_while_alive(chk)
    return chk.finish()
